#!/usr/bin/env python3
"""inv_join.py <ops.txt> <state_impl.txt>  →  stdout: the input of `drv_engine inv`

Interleaves a case stream (`case` / `node` / `session` / `round` lines) with the implementation's state
digests (one line per line of ops.txt: `case`, `ok`, or the digest after the op) into the format of
`lean/.lake/build/bin/drv_engine inv [extra]`: every op line followed by `#D <digest>`.
  python3 tools/inv_join.py work/c01/acyclic-0/ops.txt work/c01/acyclic-0/state_impl.txt | lean/.lake/build/bin/drv_engine inv
"""
import sys
ops=open(sys.argv[1]).read().split('\n'); st=open(sys.argv[2]).read().split('\n')
out=[]
for o,d in zip(ops,st):
    if not o: continue
    out.append(o)
    if o.startswith('session') or o.startswith('round'):
        # '-' = no digest was taken for this line (cases beyond the per-shard digest cap of the thorough tier)
        if d not in ('case','ok','-','') and not d.startswith('crash') and not d.startswith('skip') and not d.startswith('bad'):
            out.append('#D '+d)
sys.stdout.write('\n'.join(out)+'\n')
