#!/usr/bin/env python3
"""seedtest.py <patch.diff> <Cxx> [<Cyy> …] [--tier quick|thorough] [--keep]

Runs checks against a scratch copy of the repository with a seeded change applied, without touching
/repo (other work may be building against it):
  1. git worktree of /repo HEAD at /tmp/st/<tag>/repo, `git apply <patch.diff>`
  2. copy of /verif/harness at /tmp/st/<tag>/harness with the path deps pointing at the scratch
     repo; its target dir is seeded with hardlinks from /verif/harness/target
  3. `tools/check Cxx` with VERIF_HARNESS_DIR / QBICE_REPO / VERIF_EVIDENCE_DIR / VERIF_WORK_DIR /
     VERIF_REPLAY_DIR redirected to the scratch area
  4. prints per check: exit code, VIOLATION / KNOWN-FINDING / OK lines; removes the scratch area.
The same can be done on /repo itself when nothing else is running:
  git -C /repo apply <patch>; tools/check Cxx; git -C /repo checkout -- .
"""
import os, shutil, subprocess, sys, hashlib, json

V = os.path.dirname(os.path.dirname(os.path.abspath(__file__)))


def sh(cmd, **kw):
    return subprocess.run(cmd, shell=isinstance(cmd, str), stdout=subprocess.PIPE, stderr=subprocess.STDOUT, text=True, **kw)


def main():
    argv = list(sys.argv[1:])
    if "--record" in argv:
        i = argv.index("--record"); del argv[i:i + 2]
    args = [a for a in argv if not a.startswith("--")]
    tier = "quick"
    if "--tier" in sys.argv: tier = sys.argv[sys.argv.index("--tier") + 1]; args.remove(tier)
    keep = "--keep" in sys.argv
    patch, pids = os.path.abspath(args[0]), args[1:]
    tag = hashlib.sha1(patch.encode()).hexdigest()[:8]
    root = f"/tmp/st/{tag}"
    shutil.rmtree(root, ignore_errors=True)
    os.makedirs(root)
    repo = f"{root}/repo"
    r = sh(["git", "-C", "/repo", "worktree", "add", "-f", "--detach", repo, "HEAD"])
    if r.returncode: print(r.stdout); sys.exit(2)
    results = {}
    try:
        r = sh(["git", "-C", repo, "apply", "--3way", patch])
        if r.returncode:
            r = sh(["git", "-C", repo, "apply", patch])
        if r.returncode: print("patch does not apply:\n" + r.stdout); sys.exit(2)
        hz = f"{root}/harness"
        sh(["rsync", "-a", "--exclude", "target", f"{V}/harness/", hz + "/"])
        for f in ("Cargo.toml",):
            p = os.path.join(hz, f)
            s = open(p).read().replace('"/repo/', f'"{repo}/')
            open(p, "w").write(s)
        # seed the target dir with hardlinks (dependencies are reused, workspace crates rebuild)
        src = f"{V}/harness/target/release"
        if os.path.isdir(src):
            os.makedirs(f"{hz}/target/release", exist_ok=True)
            sh(f"cp -a {src}/.fingerprint {hz}/target/release/ && cp -al {src}/deps {src}/build {hz}/target/release/")
            sh(f"find {repo}/crates {hz}/src -name '*.rs' | xargs touch")
        env = dict(os.environ, VERIF_HARNESS_DIR=hz, QBICE_REPO=repo, VERIF_EVIDENCE_DIR=f"{root}/evidence",
                   VERIF_WORK_DIR=f"{root}/work", VERIF_REPLAY_DIR=f"{root}/replays")
        for pid in pids:
            r = sh([f"{V}/tools/check", pid, "--tier", tier], env=env, cwd=V)
            lines = [l for l in r.stdout.splitlines() if l.startswith(("VIOLATION", "KNOWN-FINDING", "OK "))]
            viol = [l for l in lines if l.startswith("VIOLATION")]
            detail = []
            for l in viol[:2]:
                rp = l.split("replay=")[1].split()[0]
                try:
                    o = json.load(open(rp))
                    detail.append({k: (str(v)[:500]) for k, v in o.items() if k in ("sig", "desc", "kind", "first_disagreements", "failed_theorems_or_modules")})
                except Exception as e:
                    detail.append({"replay": rp, "err": str(e)})
            results[pid] = {"exit": r.returncode, "lines": [l[:300] for l in lines], "detail": detail,
                            "tail": r.stdout[-1500:] if not lines else ""}
            print(f"== {pid}: exit {r.returncode}")
            for l in lines: print("   " + l[:300])
            for d in detail: print("   detail:", json.dumps(d)[:900])
            if not lines: print(r.stdout[-1500:])
    finally:
        if not keep:
            sh(["git", "-C", "/repo", "worktree", "remove", "--force", repo])
            shutil.rmtree(root, ignore_errors=True)
    print("RESULT " + json.dumps(results))
    if "--record" in sys.argv:
        dst = sys.argv[sys.argv.index("--record") + 1]
        os.makedirs(dst, exist_ok=True)
        pth = os.path.join(dst, "detection.json")
        old = json.load(open(pth)) if os.path.exists(pth) else {}
        old.update({pid: {"exit": r["exit"], "lines": [l.split(" replay=")[0] + (" no-failing-input-found" if l.endswith("no-failing-input-found") else "") for l in r["lines"]], "detail": r["detail"], "tier": tier} for pid, r in results.items()})
        json.dump(old, open(pth, "w"), indent=1)


if __name__ == "__main__":
    main()
