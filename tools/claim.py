#!/usr/bin/env python3
"""claim.py CXX 'text' 'note' 'technique' 'design_ref' — adds/updates a claimed check in manifest_src.json and regenerates MANIFEST.json"""
import json, os, sys, subprocess
V = os.path.dirname(os.path.dirname(os.path.abspath(__file__)))
p = os.path.join(V, "tools", "manifest_src.json")
m = json.load(open(p))
pid, text, note, tech, ref = sys.argv[1:6]
m["claimed"][pid] = {"engine": "lean+harness", "text": text, "design_ref": ref, "note": note, "technique": tech}
json.dump(m, open(p, "w"), indent=1)
subprocess.check_call([sys.executable, os.path.join(V, "tools", "gen_manifest.py")])
