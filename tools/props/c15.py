"""C15 — interning is canonical under concurrency and survives encoding (DESIGN §5.15)."""
import json, os, sys, hashlib
sys.path.insert(0, os.path.dirname(os.path.dirname(os.path.abspath(__file__))))
import vlib

PID = "C15"
LEAN_MODULES = ["QbiceVerif.Props.C15", "QbiceVerif.Props.C15Nested"]
DRIVER = "drv_intern"
HARNESS_BIN = "intern"
HARNESS_FEATURES = ""
PARTIAL = []
ASSUMPTIONS = [
    "hash equality stands for value equality: `canonical_content` and `interned_roundtrip` carry an explicit "
    "no-collision hypothesis (C13 is what justifies it up to a 128-bit collision); without it the theorems still "
    "give 'one allocation per (type id, hash)' and the model/harness agree on which content a collision returns",
    "Arc/Weak specification: the strong count of an allocation is the number of Arc handles that exist; "
    "Weak::upgrade succeeds iff it is non-zero and is atomic",
    "parking_lot::RwLock specification: a write guard excludes every other guard; try_write fails instead of waiting",
    "handles produced by a running decode stay alive until the top-level decode call returns: a fact of the code since "
    "/repo 8f43b2a (the decode session keeps a clone of each; finding F61, filed under C12, fixed); interned_sharing_nested "
    "asks the live values of the decoder-side interner to be canonical (`IOk`), interned_sharing_nested_weak only asks "
    "integrity (`IOkW`: live values may hold `Interned::new_duplicating` copies) and then speaks of the handles the decode "
    "produced, not of what such a live value holds inside",
    "interned_sharing_nested / interned_sharing_with_live: no-collision hypothesis `hinj` over all handle payloads of the "
    "value (every depth) and of the decoder-side interner, as in C12's interned_roundtrip_nested",
]
TRUSTED_EXTRA = [
    "modelled, not verified: Arc/Weak and RwLock (by their specifications above); `Arc::new` + `entry.insert` under the "
    "write guard is one event (the new Arc is thread-private until inserted); the per-type table of typed shards "
    "(obtain_read_shard's lazy creation) is not modelled — slots are keyed by (type id, hash) directly",
    "vacuum visits entries of a locked shard in any order, any number of times (superset of `retain`); capacity shrinking is not modelled",
    "thread traces are validated at call/return granularity (no hooks inside /repo): the Lean driver searches a "
    "linearisation of the logged calls against the atomic specification `aStep`, which `refines_atomic` ties to the LTS",
    "postcard byte layout of the harness's value types in Driver/Model `Tok.bytes` is checked byte-for-byte against the real encoder on every run, not proved",
    "Props/C15Nested is about Model/CodecNested (byte level, general payloads); it is tied to the code by the `nested` stage "
    "of the C12 harness (`codec --stages nested`, driver drv_codec), which this check runs too: allocations of the model "
    "are slot numbers, of the code `Arc` pointers (compared as partitions of the handle occurrences in pre-order)",
]

RULE = ("seeded cases of three kinds per iteration — S: sequential op sequences (1-4 logical tasks, 3 types x 4 keys x 2 "
        "hash-colliding variants; intern / intern_unsized / get_from_hash / clone / drop / vacuum); T: real runs on 2..16 "
        "threads (+ vacuum thread) with a call/return log; X: encode/decode of graphs of nested, repeated interned handles "
        "of 4 types.  Non-trivial: S has a hit, >=2 allocations and a re-allocation after the slot died; T has an "
        "intern/get that overlaps in time an acquire/release of a handle of its own slot on another thread; X has a "
        "repeated handle.  Distinct: by SHA-1 of the case's op lines.  Plus N: the `nested` stage of the codec harness "
        "(random DAGs of NNode / NExpr / str / String / [Interned<NNode>] handles nested in each other's payloads, "
        "decoder interner fresh or shared), counted by distinct op line.")


def _shard(args):
    ctx, binp, seed, n, idx = args
    out = os.path.join(ctx.work, f"s{idx}")
    os.makedirs(out, exist_ok=True)
    cmd = [binp, "--seed", str(seed), "--tier", ctx.tier, "--out", out, "--n", str(n)]
    if ctx.replay and idx == 0:
        cmd += ["--replay", ctx.replay]
    rc, log = vlib.sh(cmd, timeout=3000)
    if rc != 0:
        return {"dir": out, "error": f"harness exit {rc}: {log[-400:]}"}
    rc, err = vlib.run_driver(DRIVER, os.path.join(out, "ops.txt"), os.path.join(out, "model.txt"))
    if rc != 0:
        return {"dir": out, "error": f"driver exit {rc}: {err[-400:]}"}
    return {"dir": out}


def _cases(ops_path, impl_path, model_path):
    """Splits the three streams into cases; yields (kind, op lines, impl lines, model lines)."""
    ops = open(ops_path, encoding="utf-8", errors="replace").read().split("\n")
    imp = open(impl_path, encoding="utf-8", errors="replace").read().split("\n")
    mod = open(model_path, encoding="utf-8", errors="replace").read().split("\n")
    if ops and ops[-1] == "": ops.pop()
    if imp and imp[-1] == "": imp.pop()
    if mod and mod[-1] == "": mod.pop()
    n = len(ops)
    mod += ["<missing>"] * (n - len(mod))
    imp += ["<missing>"] * (n - len(imp))
    i = 0
    while i < n:
        k = ops[i][:1]
        j = i + 1
        if k in "ST" and ops[i].split(" ")[1:2] == ["begin"]:
            while j < n and ops[j] != f"{k} end": j += 1
            j = min(j + 1, n)
        elif k == "X" and ops[i].startswith("X enc"):
            while j < n and ops[j].startswith("X dec"): j += 1
        yield k, ops[i:j], imp[i:j], mod[i:j], i
        i = j


NESTED_SHARDS = 8


def _nested_one(args):
    ctx, binp, shard, n = args
    out = os.path.join(ctx.work, f"nested{shard}")
    cmd = [binp, "--seed", str(ctx.seed), "--tier", ctx.tier, "--out", out, "--n", str(n), "--stages", "nested",
           "--shard", str(shard), str(NESTED_SHARDS)]
    rc, log = vlib.sh(cmd, timeout=3000)
    if rc != 0 or not os.path.exists(os.path.join(out, "report.json")):
        return {"err": f"codec harness (nested) shard {shard} rc={rc}: {log[-600:]}"}
    rc2, err = vlib.run_driver("drv_codec", os.path.join(out, "ops.txt"), os.path.join(out, "model.txt"))
    if rc2 != 0:
        return {"err": f"drv_codec shard {shard} rc={rc2}: {err[-400:]}"}
    lines, diffs = vlib.diff_streams(os.path.join(out, "impl.txt"), os.path.join(out, "model.txt"), os.path.join(out, "ops.txt"))
    for d in diffs:
        d["shard"] = out
        if d.get("op"): d["op"] = d["op"][:400]
    rep = json.load(open(os.path.join(out, "report.json")))
    if not diffs:
        for f in ("ops.txt", "impl.txt", "model.txt"):
            try: os.remove(os.path.join(out, f))
            except OSError: pass
    return {"lines": lines, "diffs": diffs, "report": rep}


def _nested(ctx, res, dist, boost=1):
    """Model/CodecNested (Props/C15Nested) against the real Encode/Decode of nested handles."""
    ok, log, dt, binp = vlib.cargo_build("codec", "extras")
    ctx.notes.append(f"cargo build codec {dt:.1f}s")
    rc, out = vlib.sh(["lake", "build", "drv_codec"], cwd=vlib.LEAN, timeout=3600)
    if not ok or rc != 0:
        res.disagreements.append({"line": 0, "op": "build codec harness / drv_codec", "impl": (log if not ok else out)[-1500:], "model": ""})
        return
    n = (64000 if ctx.quick() else 640000) * boost
    outs = vlib.shard_map(_nested_one, [(ctx, binp, s, n) for s in range(NESTED_SHARDS)], min(ctx.jobs, NESTED_SHARDS))
    nd = {}
    for o in outs:
        if "err" in o:
            res.disagreements.append({"line": 0, "op": "nested", "impl": o["err"], "model": ""})
            continue
        r = o["report"]
        res.evaluations += r["evaluations"]
        res.distinct_nontrivial += r["distinct_nontrivial"]
        res.lines_compared += o["lines"]
        res.disagreements += o["diffs"][:5]
        for k, v in r["distribution"]["malformed_outcome"].items():
            if k.startswith("nested"): nd[k] = nd.get(k, 0) + v
        nd["nested-hypothesis-violated"] = nd.get("nested-hypothesis-violated", 0) + r["distribution"]["interned_hypothesis_violated"]
        for f in r["oracle_failures"]:
            if not any(g["sig"] == f["sig"] for g in res.oracle_failures): res.oracle_failures.append(f)
    dist["nested"] = nd


def run(ctx, boost=1):
    res = vlib.Result()
    res.rule = RULE
    ok, log, dt, binp = vlib.cargo_build(HARNESS_BIN, HARNESS_FEATURES)
    ctx.notes.append(f"cargo build {dt:.1f}s")
    if not ok:
        res.disagreements.append({"line": 0, "op": "cargo build", "impl": log[-1500:], "model": ""})
        return res
    shards = 1 if ctx.replay else ctx.jobs
    n = (500 if ctx.quick() else 4000) * boost
    jobs = [(ctx, binp, ctx.seed * 1000 + i, n, i) for i in range(shards)]
    outs = vlib.shard_map(_shard, jobs, ctx.jobs)
    seen, kinds, traces, budget = set(), {}, 0, 0
    dist = {}
    for o in outs:
        if "error" in o:
            res.disagreements.append({"line": 0, "op": o["dir"], "impl": o["error"], "model": ""})
            continue
        d = o["dir"]
        rep = json.load(open(os.path.join(d, "report.json")))
        res.evaluations += rep["evaluations"]
        for k, v in rep["distribution"].items(): dist[k] = dist.get(k, 0) + v
        if len(res.samples) < 6: res.samples += rep["samples"][:2]
        for f in rep["oracle_failures"]:
            res.oracle_failures.append(f)
        for kind, ops, imp, mod, at in _cases(os.path.join(d, "ops.txt"), os.path.join(d, "impl.txt"), os.path.join(d, "model.txt")):
            res.lines_compared += len(ops)
            kinds[kind] = kinds.get(kind, 0) + 1
            if kind == "T": traces += 1
            for a, (x, y) in enumerate(zip(imp, mod)):
                if x != y:
                    if y == "lin-budget":
                        budget += 1
                        continue
                    if len(res.disagreements) < 20:
                        res.disagreements.append({"line": at + a + 1, "shard": d, "op": ops[a][:300], "impl": x[:300], "model": y[:300],
                                                  "case_head": ops[0][:200]})
            h = hashlib.sha1("\n".join(ops).encode()).hexdigest()
            seen.add((kind, h))
        if not any(x.get("shard") == d for x in res.disagreements):
            for f in ("ops.txt", "impl.txt", "model.txt"):   # keep the streams only where they differ (disk)
                try: os.remove(os.path.join(d, f))
                except OSError: pass
    res.traces_validated = traces - budget
    # distinct non-trivial: the harness counts non-trivial cases; distinctness is measured here over all cases
    total_cases = sum(kinds.values())
    nontriv = 0
    for o in outs:
        if "error" in o: continue
        nontriv += json.load(open(os.path.join(o["dir"], "report.json")))["distinct_nontrivial"]
    dup = total_cases - len(seen)
    res.distinct_nontrivial = max(0, nontriv - dup)
    dist["cases_by_kind"] = kinds
    dist["duplicate_cases"] = dup
    dist["traces_search_budget_exceeded"] = budget
    if not ctx.replay:
        _nested(ctx, res, dist, boost)
    res.distribution = dist
    res.partial = PARTIAL
    return res


def search(ctx, res):
    """Proof or correspondence broke without an oracle failure: look harder for a failing input."""
    ctx.work = os.path.join(ctx.work, "boost")
    os.makedirs(ctx.work, exist_ok=True)
    if res.disagreements and all("nested" in str(d.get("shard", "")) or d.get("op") == "nested" for d in res.disagreements):
        # only the nested encode/decode tie broke: search there (the thread traces need not be repeated tenfold)
        ctx.notes.append("boosted search x10 (nested encode/decode only)")
        r2 = vlib.Result()
        _nested(ctx, r2, {}, boost=10)
        res.evaluations += r2.evaluations
        return r2.oracle_failures
    ctx.notes.append("boosted search x10")
    r2 = run(ctx, boost=10)
    res.evaluations += r2.evaluations
    return r2.oracle_failures
