"""C08 — a crash loses recent work but never yields wrong answers (DESIGN §5.8).

Shares harness bin (`persist`, mode c08), Lean driver (`drv_persist`) and analysis with C07 (props/c07.py).
"""
import os, sys
sys.path.insert(0, os.path.dirname(os.path.dirname(os.path.abspath(__file__))))
import vlib
from props import engine_common as ec
from props import c07 as base

PID = "C08"
LEAN_MODULES = ["QbiceVerif.Props.C08"]
DRIVER = "drv_persist"
HARNESS_BIN = "persist"
HARNESS_FEATURES = ""
PARTIAL = [
    "crash_sound_fw_partial (PART 1) is proved on the extended core model Qbice.CoreFw (all five query kinds, backward "
    "projection, unordered groups) for programs with WF p and Shape p (no projection over a projection, or all "
    "projections static — the hypothesis of C01's core_history_sound_partial): every image of the store between two "
    "logical write batches of any history — also in the middle of a query, of the repair of the transitive firewall "
    "callees and of a backward projection — satisfies the C01 invariant, shows the inputs of a prefix of the history, "
    "and every continuation (sessions and rounds) run on the reopened engine returns the from-scratch outputs and never "
    "runs out of fuel (crash_query_sound_fw_partial: every single user query).  Missing for the full statement: "
    "programs outside Shape (a non-static projection over a projection), exactly as in C01.  crash_sound_core (PART 2) "
    "is the same statement proved in FULL on Qbice.Core (inputs, normal queries, externals, unordered groups).  "
    "Executor invocations after recovery: nothing is promised beyond crash_verified_no_exec_fw (a key the image shows "
    "verified is served without running any executor); the property allows recomputation.",
    "the images are those of the sequential models (one batch per key at the end of its processing; the full model "
    "Model/EnginePersist.lean with hash-set walk orders and the computing table is tied to the code by the "
    "correspondence: model `crash L` vs the real engine reopened on the first p physical commits, every p; any wrong "
    "value after a crash is a violation).",
    "prefix_is_reachable: the batch of a publication is defined as the difference of the persistent images before "
    "and after it; that the code's batches have exactly these boundaries is tied by the correspondence (`crash L` "
    "addresses the model's L-th image; batch counts at every shutdown are compared, up to the first walk-order "
    "choice point of a case).",
    "prefix_atomic is C10's theorem about the write-behind model restated; it is not composed with the engine model in "
    "one transition system (the composition used here: sequential history => batches are created, filled and submitted "
    "one at a time, so epoch order = publication order).",
    "sequential histories only (former finding F8 — a session opened while readers are still publishing — is fixed in "
    "/repo and replayed by the C07 check).",
    "cases with external inputs are exercised by C07 only (after a crash the environment is not rolled back).",
    "what RocksDB / Fjall actually retain after kill -9 is outside the model (assumed: a prefix of the committed write "
    "batches, each atomically); the thorough tier samples it on RocksDB (WAL off: usually the state of the last clean "
    "shutdown).",
]
ASSUMPTIONS = base.ASSUMPTIONS + [
    "the backing store is atomic per physical commit and keeps a prefix of the commits after a crash (C11 covers the "
    "batch contract of the real backends; kill -9 behaviour is sampled, not proved)",
    "after a crash the environment (world cells of external inputs) is not rolled back: cases with external inputs are "
    "exercised by C07 only",
]
TRUSTED_EXTRA = base.TRUSTED_EXTRA
pre = base.pre


def run(ctx):
    res, an, reps = base.collect(ctx, "c08", 40, 1100)
    seen = set()
    for r in reps:
        for f in r["oracle_failures"]:
            # no attribution is left (F1 / F14 are fixed in /repo): a wrong value after a crash is a violation, also when
            # a never-crashed engine answers the same (`C08:value-same-as-never-crashed`: then it is C01's as well)
            if (f["sig"], f["case"]) in seen: continue
            seen.add((f["sig"], f["case"]))
            res.oracle_failures.append(dict(f))
    for a in an:
        for r in a["impl_fail"]:
            if not any(o["sig"].startswith("C08:value") for o in res.oracle_failures):
                res.oracle_failures.append({"sig": "C08:value", "desc": f"{r['line']} -> {r['impl']} expected {r['expected']}", "case": r["case"]})
    if not ctx.quick() and not ctx.replay:
        base.rocks(ctx, res, "c08")
    return res


def search(ctx, res):
    ctx.notes.append("boosted search after broken proof/correspondence")
    res2, an, reps = base.collect(ctx, "c08", 160, 900)
    out = []
    for r in reps:
        out += r["oracle_failures"]
    return out[:3]
