"""C08 — a crash loses recent work but never yields wrong answers (DESIGN §5.8).

Shares harness bin (`persist`, mode c08), Lean driver (`drv_persist`) and analysis with C07 (props/c07.py).
"""
import os, sys
sys.path.insert(0, os.path.dirname(os.path.dirname(os.path.abspath(__file__))))
import vlib
from props import engine_common as ec
from props import c07 as base

PID = "C08"
LEAN_MODULES = ["QbiceVerif.Props.C08"]
DRIVER = "drv_persist"
HARNESS_BIN = "persist"
HARNESS_FEATURES = ""
PARTIAL = [
    "crash_sound_core is proved in full for the CORE model (input, normal and external-input queries, ordered reads and unordered groups, refresh, dynamic dependency "
    "sets): every image of the store between two logical write batches of any history — including the images in the "
    "middle of a query, with the dirty edges of keys still in progress as the store still has them — satisfies the C01 "
    "invariant, shows the inputs of a prefix of the history, and the engine reopened on it answers every query with "
    "the from-scratch value for those inputs.  For the FULL model (firewall / projection / external nodes, backward "
    "projection) the same statement is refuted as-is by known findings F1 and F14 exactly as without a crash (the "
    "check excuses a wrong value after a crash only if a never-crashed engine driven to a point of the same epoch "
    "answers identically, or a known-finding toggle of the model repairs it) and is not proved for the repaired "
    "configuration; there it is covered by the correspondence (model `crash L` vs the real engine reopened on the "
    "first p physical commits, every p) and the from-scratch oracle.",
    "prefix_is_reachable: the batch of a publication is defined as the difference of the persistent images before "
    "and after it; that the code's batches have exactly these boundaries is tied by the correspondence (`crash L` "
    "addresses the model's L-th image; batch counts at every shutdown are compared).",
    "prefix_atomic is C10's theorem about the write-behind model restated; it is not composed with the engine model in "
    "one transition system (the composition used here: sequential history => batches are created, filled and submitted "
    "one at a time, so epoch order = publication order).",
    "sequential histories only (finding F8: a session opened while readers are still publishing gets a lower epoch "
    "than reader batches created later but published earlier; reproduced by the C07 check, fixed by the F5 reordering).",
    "cases with external inputs are exercised by C07 only (after a crash the environment is not rolled back).",
    "what RocksDB / Fjall actually retain after kill -9 is outside the model (assumed: a prefix of the committed write "
    "batches, each atomically); the thorough tier samples it on RocksDB (WAL off: usually the state of the last clean "
    "shutdown).",
]
ASSUMPTIONS = base.ASSUMPTIONS + [
    "the backing store is atomic per physical commit and keeps a prefix of the commits after a crash (C11 covers the "
    "batch contract of the real backends; kill -9 behaviour is sampled, not proved)",
    "after a crash the environment (world cells of external inputs) is not rolled back: cases with external inputs are "
    "exercised by C07 only",
]
TRUSTED_EXTRA = base.TRUSTED_EXTRA
pre = base.pre


def run(ctx):
    res, an, reps = base.collect(ctx, "c08", 40, 1100)
    for r in reps:
        for f in r["oracle_failures"]:
            if f["sig"] == "C08:value-same-as-never-crashed":
                continue   # the engine answers the same without any crash: C01's findings (F1 / F14), counted in the distribution
            res.oracle_failures.append(dict(f))
    # attribution of crash-specific value failures (DESIGN §2.4): a known-finding toggle repairs the whole case
    for f in res.oracle_failures:
        if f["sig"] in ("C08:value", "C08:value-at-full-log"):
            who = attribute(ctx, f["case"])
            if who: f["sig"] = "C08:attributed:" + who
    if not ctx.quick() and not ctx.replay:
        base.rocks(ctx, res, "c08")
    return res


_n = [0]


def attribute(ctx, case_text):
    """does the model with a known finding's toggle switched to 'repaired' meet the from-scratch oracle on this case?"""
    _n[0] += 1
    if _n[0] > 8: return None
    d = os.path.join(ctx.work, f"attr-{_n[0]}")
    os.makedirs(d, exist_ok=True)
    rp = os.path.join(d, "case.txt")
    open(rp, "w").write(case_text)
    binpath = os.environ.get("VERIF_PERSIST_BIN") or os.path.join(vlib.HARNESS, "target", "release", "persist")
    # the replayed case is the history; the failing crash point is the `crash L` / `round` pair appended to it
    lines = [l for l in case_text.split("\n") if l.strip()]
    crash = [l for l in lines if l.startswith("crash")]
    if not crash: return None
    hist = [l for l in lines if not l.startswith(("crash", "cfg"))]
    post = lines[lines.index(crash[0]):]
    hist = lines[:lines.index(crash[0])]
    ops_path = os.path.join(d, "ops.txt")
    open(ops_path, "w").write("\n".join([l for l in hist if not l.startswith("cfg")] + post) + "\n")
    # expected values of the post-crash round: recompute with the harness (replay runs every boundary; find ours)
    sh = base.run_shard(binpath, "c08", 0, "thorough", None, os.path.join(d, "replay"), replay=rp)
    if "error" in sh: return None
    ops, exp = sh["ops"], sh["expect"]
    want = None
    for i, l in enumerate(ops):
        if l == crash[0] and i + 1 < len(ops) and len(post) > 1 and sorted(ops[i + 1].split()[1:]) == sorted(post[1].split()[1:]):
            # same crash point; the replay may have drawn another query order: use the model on OUR order, the oracle per key
            keys = ops[i + 1].split()[1:]; vals = exp[i + 1].split()
            m = dict(zip(keys, vals))
            want = " ".join(m[k] for k in post[1].split()[1:])
            break
    if want is None: return None
    for name, args in [("f1", ["f1"]), ("f14", ["f14"]), ("f1+f14", ec.ALL_TOGGLES)]:
        mp = os.path.join(d, f"model_{name}.txt")
        rc, err = vlib.run_driver("drv_persist", ops_path, mp, args)
        if rc != 0: continue
        out = open(mp).read().split("\n")
        n = len([l for l in hist if not l.startswith("cfg")])
        if len(out) > n + 1 and ec.vals(ec.strip(out[n + 1])) == want:
            return name
    return None


def search(ctx, res):
    ctx.notes.append("boosted search after broken proof/correspondence")
    res2, an, reps = base.collect(ctx, "c08", 160, 900)
    out = []
    for r in reps:
        out += [f for f in r["oracle_failures"] if f["sig"] != "C08:value-same-as-never-crashed"]
    return out[:3]
