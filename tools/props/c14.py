"""C14 — type and query identities are unique and stable across runs.

pre : tools/gen_typeid.py re-extracts the constructor table from /repo/crates/stable_type_id/src/lib.rs
      and the derive rule from /repo/crates/identifiable_derive_lib/src/lib.rs, regenerates
      lean/QbiceVerif/Gen/TypeIdTable.lean + harness/gen/typeid_universe.rs (only if changed) and starts
      the cargo build of the harness in the background (overlaps with `lake build`).
run : harness `typeid` (real code) twice as separate processes (same seed) — the two impl streams must be
      identical (stability across processes); extra seeded shards for the run-time hashing functions;
      Lean driver `drv_typeid` on the same ops; id-by-id diff.  Oracle = the harness's own checks.
search: when the proof or the tie broke and the harness found no failing input: the translator's own
      Python implementation of the id functions looks for a colliding pair in the generated universe,
      and the harness is rerun at thorough size.
"""
import json, os, sys, threading, time
import vlib

sys.path.insert(0, os.path.join(vlib.VERIF, "tools"))
import gen_typeid

PID = "C14"
LEAN_MODULES = ["QbiceVerif.Props.C14"]
DRIVER = "drv_typeid"
HARNESS_BIN = "typeid"
HARNESS_FEATURES = "extras"
PARTIAL = []
ASSUMPTIONS = [
    "distinct query keys of one type have distinct 128-bit stable hashes (C13; a SipHash-128 collision is outside every theorem) — queryId_distinct_keys is stated under that hypothesis",
    "whole-table theorems (universe_*, swap/nesting/array_len/tuple_assoc_distinct) are about exactly the universe and pair families regenerated from the source on this run; types outside the universe are covered only by the unbounded lemmas (bijectivity of the mixing, u64-pair invariant, QueryID injectivity). A universal injectivity of combine is false for any 128-bit id (theorem combine_not_injective gives a colliding pair, confirmed on the real code) and is not claimed",
    "derived types: the unique name contains env!(CARGO_PKG_NAME/VERSION) and module_path!() of the defining crate; checked for the harness crate's own test types in five modules",
    "stability across runs is checked by printing all ids from two separate processes (and is by construction: ids are const-evaluated functions of string literals)",
]
TRUSTED_EXTRA = [
    "tools/gen_typeid.py (translator): table extraction from stable_type_id/src/lib.rs and identifiable_derive_lib; its output is re-validated id by id against rustc's const-evaluated STABLE_TYPE_ID on every run; it refuses (TranslateError → check fails) any impl body, macro or derive shape it does not recognise",
    "the order of the universe and the slice bounds in Gen/TypeIdTable.lean are hints computed by the translator's own Python implementation; the kernel re-computes every id and only uses the hints to avoid sorting (wrong hints make the proof fail, never pass)",
    "hand-written Lean model of from_unique_type_name / combine / sipround (Model/TypeId.lean), tied by seeded random function correspondence (names, raw operand pairs) on every run",
    "Rust well-formedness hints of the translator (which arguments a bounded parameter accepts) only restrict which types are generated",
    "column-family naming (rocksdb.rs cf_name_from_id = '{:#X}' of as_u128) and QueryStoreColumn discriminants are outside the model (as_u128 is modelled and proved injective)",
]


def _cargo_bg(ctx):
    ok, out, dt, path = vlib.cargo_build(HARNESS_BIN, HARNESS_FEATURES)
    ctx.cargo = (ok, out, dt, path)


def pre(ctx):
    ctx.gen, ctx.translate_error = None, None
    try:
        t = time.time()
        ctx.gen = gen_typeid.generate(write=True)
        ctx.notes.append(f"translator: {ctx.gen['constructors']} constructors ({ctx.gen['builtin']} built-in impls, {ctx.gen['derived']} derived), "
                         f"universe {ctx.gen['universe']} types, regenerated files changed: {ctx.gen['changed'] or 'none'} ({time.time()-t:.1f}s)")
    except gen_typeid.TranslateError as e:
        ctx.translate_error = str(e)
        ctx.notes.append("translator FAILED: " + str(e))
    except Exception as e:  # a crash of the translator is also "cannot follow the source"
        ctx.translate_error = f"translator crashed: {type(e).__name__}: {e}"
        ctx.notes.append(ctx.translate_error)
    ctx.cargo = None
    ctx.cargo_thread = threading.Thread(target=_cargo_bg, args=(ctx,), daemon=True)
    ctx.cargo_thread.start()


def _run_harness(path, seed, tier, out, extra=()):
    os.makedirs(out, exist_ok=True)
    rc, log = vlib.sh([path, "--seed", str(seed), "--tier", tier, "--out", out, *extra], timeout=3600)
    rep = None
    try:
        rep = json.load(open(os.path.join(out, "report.json")))
    except Exception:
        pass
    return rc, log, rep


def _correspond(ctx, res, out, have_driver):
    ops, imp, mod = (os.path.join(out, f) for f in ("ops.txt", "impl.txt", "model.txt"))
    if not have_driver:
        return
    rc, err = vlib.run_driver(DRIVER, ops, mod)
    if rc != 0:
        res.disagreements.append({"line": 0, "op": "driver", "impl": "", "model": f"driver exit {rc}: {err[-300:]}"})
        return
    n, diffs = vlib.diff_streams(imp, mod, ops)
    res.lines_compared += n
    res.disagreements += diffs


def run(ctx):
    res = vlib.Result()
    res.partial = PARTIAL
    ctx.cargo_thread.join()
    ok, out, dt, path = ctx.cargo
    ctx.notes.append(f"cargo build {dt:.1f}s")
    g = ctx.gen
    if g:
        res.extra["translator"] = {k: v for k, v in g.items() if not k.startswith("_")}
        res.extra["universe_exhaustive"] = True
    if ctx.translate_error:
        res.disagreements.append({"line": 0, "op": "translator (tools/gen_typeid.py)", "impl": "source of /repo as it is now",
                                  "model": "cannot follow the source: " + ctx.translate_error[:300]})
    if not ok:
        # the generated Rust universe does not compile against the crate any more (or the crate itself broke)
        res.disagreements.append({"line": 0, "op": "cargo build typeid", "impl": out[-600:], "model": "harness must build"})
        res.rule = "harness did not build"
        return res
    have_driver = ctx.proof["ok"] and os.path.exists(vlib.driver_path(DRIVER)) and not ctx.translate_error
    if not have_driver:
        ctx.notes.append("model correspondence skipped: proofs/driver not built for the current table; oracle still run on the real code")
    tier = ctx.tier
    w = ctx.work
    # two separate processes, same arguments
    r = vlib.shard_map(lambda d: _run_harness(path, ctx.seed, tier, os.path.join(w, d)), ["main", "again"], 2)
    for (rc, log, rep), d in zip(r, ["main", "again"]):
        if rc != 0 or rep is None:
            res.disagreements.append({"line": 0, "op": f"harness run {d}", "impl": f"exit {rc}: {log[-400:]}", "model": "exit 0"})
    if r[0][2] is None:
        return res
    rep = r[0][2]
    a = open(os.path.join(w, "main", "impl.txt"), "rb").read()
    b = open(os.path.join(w, "again", "impl.txt"), "rb").read() if r[1][2] is not None else b""
    res.extra["processes_compared"] = 2
    res.extra["ids_identical_across_processes"] = (a == b)
    if a != b:
        la, lb = a.split(b"\n"), b.split(b"\n")
        first = next((i for i in range(min(len(la), len(lb))) if la[i] != lb[i]), min(len(la), len(lb)))
        res.oracle_failures.append({"sig": "unstable-across-processes", "desc": "two processes printed different identifiers",
                                    "case": f"line {first + 1}: {la[first][:200] if first < len(la) else b''!r} vs {lb[first][:200] if first < len(lb) else b''!r}"})
    res.evaluations = rep["evaluations"]
    res.distinct_nontrivial = rep["distinct_nontrivial"]
    res.rule = rep["rule"]
    res.samples = rep["samples"]
    res.distribution = dict(rep["distribution"])
    res.oracle_failures += rep["oracle_failures"]
    _correspond(ctx, res, os.path.join(w, "main"), have_driver)
    # extra seeded shards: run-time from_unique_type_name / combine only
    nsh = 6 if ctx.quick() else 15
    seeds = [ctx.seed * 1000 + 17 + i for i in range(nsh)]
    sh = vlib.shard_map(lambda s: _run_harness(path, s, tier, os.path.join(w, f"rnd{s}"), ["--random-only"]), seeds, ctx.jobs)
    for s, (rc, log, rp) in zip(seeds, sh):
        if rc != 0 or rp is None:
            res.disagreements.append({"line": 0, "op": f"harness shard {s}", "impl": f"exit {rc}: {log[-300:]}", "model": "exit 0"})
            continue
        res.evaluations += rp["evaluations"]
        res.distinct_nontrivial += rp["distinct_nontrivial"]
        for k in ("random_names", "random_combines"):
            res.distribution[k] = res.distribution.get(k, 0) + rp["distribution"].get(k, 0)
        res.oracle_failures += rp["oracle_failures"]
    for s in seeds:
        if have_driver and os.path.exists(os.path.join(w, f"rnd{s}", "ops.txt")):
            _correspond(ctx, res, os.path.join(w, f"rnd{s}"), True)
    res.distribution["random_shards"] = nsh
    # distinct cases, counted over all ops files of this run (U i <expr> and T <expr> are one case)
    cases = set()
    for d in ["main"] + [f"rnd{s}" for s in seeds]:
        p = os.path.join(w, d, "ops.txt")
        if os.path.exists(p):
            for line in open(p, encoding="utf-8", errors="replace"):
                if line[:2] in ("T ", "N ", "C ", "Q "):
                    cases.add(line)
    res.distinct_nontrivial = len(cases)
    if ctx.replay:
        try:
            want = json.load(open(ctx.replay)).get("sig")
            hit = any(f.get("sig") == want for f in res.oracle_failures)
            ctx.notes.append(f"replay {ctx.replay}: signature {want!r} {'reproduced' if hit else 'NOT reproduced'} (types are compile-time; the whole universe is re-evaluated)")
        except Exception as e:
            ctx.notes.append(f"replay file unreadable: {e}")
    return res


def search(ctx, res):
    """Proof or tie broke and the harness oracle found nothing: look for a colliding pair."""
    out = []
    g = ctx.gen
    if g:
        U, uni = g["_U"], g["_uni"]
        for a, b, i in gen_typeid.collisions(U, uni)[:5]:
            sa, sb = U.sexpr(a), U.sexpr(b)
            out.append({"sig": f"collision:{sa}|{sb}", "case": f"{sa} | {sb}",
                        "desc": f"translator's reference implementation: {sa} and {sb} both get id {i[0]:016x}{i[1]:016x} under the table extracted from the current source "
                                f"(Rust types: {U.rust(a)} / {U.rust(b)})"})
        for fam, ps in g["_pairs"].items():
            for a, b in ps:
                if U.pyid(a) == U.pyid(b) and len(out) < 8:
                    sa, sb = U.sexpr(a), U.sexpr(b)
                    out.append({"sig": f"{fam}-collision:{sa}|{sb}", "case": f"{sa} | {sb}", "desc": f"{fam} family collides under the extracted table"})
    if out:
        return out
    # boosted: thorough-size harness run (more query keys, engine keys, random inputs)
    if ctx.cargo and ctx.cargo[0]:
        rc, log, rep = _run_harness(ctx.cargo[3], ctx.seed + 99, "thorough", os.path.join(ctx.work, "boost"))
        if rep:
            ctx.notes.append(f"boosted search: {rep['evaluations']} evaluations, {len(rep['oracle_failures'])} oracle failures")
            out += rep["oracle_failures"]
    return out
