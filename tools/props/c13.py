"""C13 — stable hashes are deterministic, history-free and discriminating (DESIGN §5.13)."""
import json, os, subprocess, sys
sys.path.insert(0, os.path.dirname(os.path.dirname(os.path.abspath(__file__))))
import vlib

PID = "C13"
LEAN_MODULES = ["QbiceVerif.Props.C13", "QbiceVerif.Props.NonVacuity.C13",
                "QbiceVerif.Lemmas.HashLocated", "QbiceVerif.Lemmas.HashLocatedDec",
                "QbiceVerif.Lemmas.HashLocatedSub", "QbiceVerif.Lemmas.HashLocatedFacts"]
DRIVER = "drv_hash"
HARNESS_BIN = "hash"
HARNESS_FEATURES = "extras"
PARTIAL = [
    "no _partial theorem.  Headline of the discriminating half (every type of the universe, hash-ordered collections "
    "nested at any depth, every hasher): stream_decodes_located / stream_discriminates_located — two different "
    "well-typed values (not Val.SameUpTo: not equal up to NaN payloads and the iteration order of hash-ordered "
    "collections) write different streams, OR Val.Located v t w st: a hash-ordered collection c1 inside v and the "
    "hash-ordered collection c2 at the SAME PATH of w (same hasher state; inside an enclosing hash-ordered collection "
    "through two entries with equal entry streams) have one length, DIFFERENT multisets of entry streams and EQUAL "
    "wrapping 128-bit sums of entry sub-hashes (SumCollision on THEIR entry streams; size 1 = two distinct entry "
    "streams with one sub-hash).  fingerprint_discriminates_located adds the only other event: the two top-level "
    "streams of v and w are different byte strings with one finalised SipHash-128 value.  Both events are about "
    "the data of v and w, falsifiable and falsified: located_is_not_free (false for every hasher on types without "
    "hash-ordered collections), decide-checked false on a nested pair under an injective toy hasher and under "
    "SipHash-128 (theorem then yields stream / fingerprint inequality), decide-checked true under a weak toy hasher "
    "(streams of two different values coincide).  stream_discriminates_collision_inside is the flattened reading "
    "(exists c1 inside v, c2 inside w ...).",
    "superseded, kept for reference only: stream_discriminates, fingerprint_discriminates, "
    "fingerprint_discriminates_all — their collision disjunct (SomeCollision / 'some two byte strings collide') is a "
    "closed proposition about the hasher, true for every hasher by pigeonhole (NonVacuity/C13.lean: "
    "someCollision_always), so they only establish framing (r1 = r2) beyond the ordered fragment.",
    "that the located events are improbable for SipHash-128 is a cryptographic assumption, not a theorem.  (A wrapping "
    "SUM of sub-hashes is weaker than a hash of the sorted entries: multiset collisions can be searched with "
    "generalised-birthday / k-sum methods; the crate documents itself as not for security purposes.)",
]
ASSUMPTIONS = [
    "target: 64-bit little-endian (usize/isize and default enum discriminants are 8 bytes; the raw bytes of "
    "mem::Discriminant are the little-endian discriminant value) — the harness runs on exactly this target and "
    "the correspondence would fail otherwise; hashes are NOT portable to 32-bit or big-endian targets",
    "lengths of strings / sequences / collections are < 2^64 and enum discriminants of one enum are pairwise "
    "distinct and fit their repr (compiler guarantees; hypotheses `hasType`, `Ty.wf`)",
    "value equality for floats is identity of the bit pattern after NaN canonicalisation: -0.0 and +0.0 hash "
    "differently although `-0.0 == 0.0` (conservative for change detection: never treats a change as no change)",
    "cryptographic assumption (the only one): the LOCATED events are improbable for seeded SipHash-128 — "
    "`Val.Located v t w st` (two hash-ordered collections at one path inside v and w with different entry-stream "
    "multisets and equal sub-hash sums mod 2^128) and 'the two top-level streams of v and w differ but finalise to "
    "one 128-bit value'; they are explicit disjuncts of stream_discriminates_located / "
    "fingerprint_discriminates_located, not hidden hypotheses",
]
TRUSTED_EXTRA = [
    "modelled, not verified: `to_le_bytes`, `f32::is_nan`/`f32::NAN` bit patterns, the layout of "
    "`mem::Discriminant<T>` (predicted by the model from the declared discriminant values and checked by the "
    "correspondence for Option, Result, 9 derived enums incl. #[repr(u8/i8/u16/i64)] and explicit discriminants), "
    "siphasher 1.0.1 `sip128::SipHasher` as a functional SipHash-2-4-128 over the whole stream (its chunking "
    "independence and `Copy` = state snapshot are checked by the harness oracle on every run)",
    "the hasher state is a function of the bytes absorbed so far (sub_hash copies it); true of Sip128Hasher, an "
    "obligation on any other StableHasher implementation",
    "outside the model: recursive user types (checked by the harness oracle only: enum Nest), FlexStr (same "
    "write_str path as String), types with interior mutability changing during hashing (atomics are read once)",
]

SHARDS = 16


def _bin(ctx):
    ok, log, dt, binp = vlib.cargo_build(HARNESS_BIN, HARNESS_FEATURES)
    ctx.notes.append(f"cargo build {dt:.1f}s")
    return ok, log, binp


def _one(ctx, binp, seed, n, tier, tag, replay=None):
    out = os.path.join(ctx.work, f"{tag}{seed}")
    cmd = [binp, "--seed", str(seed), "--tier", tier, "--out", out, "--n", str(n)]
    if replay: cmd += ["--replay", replay]
    rc, log = vlib.sh(cmd, timeout=6000)
    if rc != 0 or not os.path.exists(os.path.join(out, "report.json")):
        return {"err": f"harness seed {seed} rc={rc}: {log[-1500:]}"}
    rc2, err = vlib.run_driver(DRIVER, os.path.join(out, "ops.txt"), os.path.join(out, "model.txt"))
    if rc2 != 0:
        return {"err": f"driver seed {seed} rc={rc2}: {err[-800:]}"}
    lines, diffs = vlib.diff_streams(os.path.join(out, "impl.txt"), os.path.join(out, "model.txt"), os.path.join(out, "ops.txt"))
    for d in diffs:
        d["replay"] = {"seed": seed, "n": n, "tier": tier}
        if d.get("op"): d["op"] = d["op"][:400]
    rep = json.load(open(os.path.join(out, "report.json")))
    for f in rep["oracle_failures"]:
        f["replay"] = {"seed": seed, "n": n, "tier": tier}
    if not diffs:
        for f in ("ops.txt", "impl.txt", "model.txt"):
            try: os.remove(os.path.join(out, f))
            except OSError: pass
    return {"lines": lines, "diffs": diffs, "report": rep, "keys": os.path.join(out, "keys.txt")}


def _merge(a, b):
    for k, v in b.items():
        a[k] = a.get(k, 0) + v
    return a


def _collect(ctx, n, seeds, tag="s", replay=None):
    res = vlib.Result()
    ok, log, binp = _bin(ctx)
    if not ok:
        res.disagreements.append({"harness-build-error": log[-2000:]})
        return res
    outs = vlib.shard_map(lambda s: _one(ctx, binp, s, n, ctx.tier, tag, replay), seeds, min(ctx.jobs, SHARDS))
    dist, seen_sig, keyfiles, types, child = {}, set(), [], 0, []
    for o in outs:
        if "err" in o:
            res.disagreements.append({"harness-error": o["err"]})
            continue
        r = o["report"]
        res.evaluations += r["evaluations"]
        res.rule = r["rule"] + "; the union over all shards is counted (sort -u over the per-shard key files)"
        if len(res.samples) < 6: res.samples += r["samples"][:1]
        res.lines_compared += o["lines"]
        res.disagreements += o["diffs"]
        types = max(types, r["types"])
        child.append(r["child"])
        _merge(dist, r["distribution"])
        if os.path.exists(o["keys"]): keyfiles.append(o["keys"])
        for f in r["oracle_failures"]:
            if f["sig"] in seen_sig: continue
            seen_sig.add(f["sig"])
            res.oracle_failures.append(f)
    if keyfiles:
        p = subprocess.run("cat " + " ".join(keyfiles) + " | LC_ALL=C sort -u | wc -l", shell=True, stdout=subprocess.PIPE, text=True)
        res.distinct_nontrivial = int(p.stdout.strip() or 0)
        for k in keyfiles:
            try: os.remove(k)
            except OSError: pass
    dist.pop("distinct_values", None)
    for k in ("types_ordered", "types_unordered"):
        if k in dist: dist[k] //= max(1, len(keyfiles))
    res.distribution = dist
    res.extra["rust_types"] = types
    res.extra["separate_process_runs"] = f"{sum(1 for c in child if c.startswith('ok'))}/{len(child)} child processes reproduced every stream and hash"
    res.extra["features"] = "bitvec + smallvec enabled (harness feature `extras`)"
    return res


def _seeds(ctx, k=SHARDS, off=0):
    return [ctx.seed * 1000 + off + i for i in range(k)]


def run(ctx):
    if ctx.replay:
        rp = json.load(open(ctx.replay))
        r = rp.get("replay")
        if r:
            res = _collect(ctx, r["n"], [r["seed"]], "r", ctx.replay)
            if rp.get("sig"): res.oracle_failures = [f for f in res.oracle_failures if f["sig"] == rp["sig"]]
            return res
    return _collect(ctx, 400 if ctx.quick() else 5000, _seeds(ctx))


def search(ctx, res):
    ctx.notes.append("boosted search after broken proof/correspondence")
    r2 = _collect(ctx, 1500 if ctx.quick() else 4000, _seeds(ctx, off=500), "b")
    res.disagreements += r2.disagreements[:5]
    return r2.oracle_failures[:3]
