"""C03 — only justified work is re-executed (DESIGN §5.3)."""
import os, sys
sys.path.insert(0, os.path.dirname(os.path.dirname(os.path.abspath(__file__))))
import vlib
from props import engine_common as ec
from props import c01

PID = "C03"
LEAN_MODULES = ["QbiceVerif.Props.C03", "QbiceVerif.Props.NonVacuity.C03", "QbiceVerif.Props.NonVacuity.C03Total"]
DRIVER = "drv_engine"
HARNESS_BIN = "engine"
PARTIAL = [
    "Qbice.CoreFw.core_exec_justified_partial / core_exec_once_partial / core_rounds_exec_once_partial / "
    "core_external_only_on_demand_or_refresh_partial: proved under Shape p (as C01: every projection that is read by "
    "a projection has a value-independent read sequence). Since the F13 repair 22e1f15 every execution is a first "
    "computation or has an observed dependency whose value changed (no backward-projection disjunct). "
    "core_requery_executes_nothing and core_refresh_reexecutes_all_externals hold for all kinds. Missing: dynamic "
    "projections read by projections (C03_exec_justified_full_statement stays a def); there the rule is enforced by "
    "the harness oracle on the implementation and by equality of executor-invocation multisets with both models.",
    "core_exec_justified_total_partial: from an Inv state with all inputs set the user's request IS .ok and its "
    "executions are pairwise distinct and each is a first computation or justified by an observed dependency whose "
    "from-scratch value changed (Shape p); the other C03 theorems keep the premise '= .ok', which C01's totality "
    "theorems discharge for well-formed histories (HistOK).",
    "core_history_exec_justified_partial: along the whole run of a HistOK history every reported executor invocation of "
    "every round is justified (Just) in the state where the round began, and invocations between two sessions are "
    "pairwise distinct across rounds (Shape p). Executions by refresh inside sessions are covered by "
    "core_refresh_reexecutes_all_externals, not by ExecOK.",
]
ASSUMPTIONS = c01.ASSUMPTIONS + ["no cancellation (the property excludes it)"]
TRUSTED_EXTRA = c01.TRUSTED_EXTRA


def run(ctx):
    res, an = c01.collect(ctx)
    # C03 verdicts come from the harness oracle (report.json) and from exec-multiset disagreements
    import json, glob
    c01_bad_cases = set()
    for a in an:
        for r in a["impl_fail_cases"]: c01_bad_cases.add(r["case"].split("\n", 1)[0] + r["case"])
    for rp in sorted(glob.glob(os.path.join(ctx.work, "acyclic-*", "report.json")) + glob.glob(os.path.join(ctx.work, "pjchain-*", "report.json"))):
        for f in json.load(open(rp))["oracle_failures"]:
            if not f["sig"].startswith("C03"): continue
            res.oracle_failures.append(f)
    for a in an:
        for d in a["exec_disagree"] + a["disagree"]:
            res.disagreements.append({"model": "full as-is", **d})
        for d in a["core_disagree"]:
            res.disagreements.append({"model": "core", **d})
        for d in a["state_disagree"][:3]:
            res.disagreements.append({"tie": "state digest, full as-is model", **d})
    res.distribution["c03_oracle_failures_by_sig"] = {}
    for f in res.oracle_failures:
        res.distribution["c03_oracle_failures_by_sig"][f["sig"]] = res.distribution["c03_oracle_failures_by_sig"].get(f["sig"], 0) + 1
    return res


def search(ctx, res):
    return []
