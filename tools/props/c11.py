"""C11 — store backends honour the key-value contract and isolate keys (DESIGN §5.11)."""
import json, os, sys, subprocess
sys.path.insert(0, os.path.dirname(os.path.dirname(os.path.abspath(__file__))))
import vlib

PID = "C11"
LEAN_MODULES = ["QbiceVerif.Props.C11", "QbiceVerif.Props.NonVacuity.C11"]
DRIVER = "drv_kv"
HARNESS_BIN = "kv"
HARNESS_FEATURES = "backends"
PARTIAL = [
    "kv_refines_spec is proved under `CmdOk`, which since the repair of F19 (family cache keyed by (type id, column "
    "kind)) only says that Fjall composite keys are <= 65535 bytes (vacuous for RocksDB: kv_refines_spec_rocks has no "
    "hypothesis on the commands); command sequences MAY use one type id with both column kinds. "
    "get/scan_ignores_open_batches and reopen_keeps_content are true by inspection of the model (commit = one atomic "
    "write is a modelling assumption about RocksDB/Fjall, exercised by the real-backend correspondence and the "
    "concurrent atomicity probe).",
]
ASSUMPTIONS = [
    "the serializer's encoding of keys, discriminants and elements is a parameter of the theorems: "
    "`PrefixFree enc` for wide-column keys and discriminants (self-delimiting codec, C12's decode_encode), "
    "injectivity only for key-of-set keys and elements (the 8-byte length field does the rest); a type id used with "
    "both kinds has two independent key encoders (`Enc.encK` for WideColumn::Key, `Enc.encSK` for KeyOfSetColumn::Key)",
    "encoded key lengths are < 2^64 (the `as u64` cast of a `usize` length is lossless)",
    "the model's family cache is keyed by (type id, column kind) = the code with fixes/F19-column-cache-keyed-by-kind.diff "
    "(`Backend.cacheByKind`, default true); the historical cache keyed by the type id alone is kept as rocksF19/fjallF19 "
    "only for the decide-checked witnesses f19_historical_answers / f19_historical_violates_spec. On a tree WITHOUT the "
    "repair the dual-kind histories of the generator fail (oracle signatures dual-kind-*, and model/impl disagreements)",
    "sequential semantics: the model takes 'commit = one atomic store write' as its primitive; atomicity under a "
    "concurrent reader is judged only by the harness's probe on the real backends (it found F18 on Fjall, fixed in /repo 2794b90)",
    "fjall 3.0.1's Database drop occasionally never returns (upstream shutdown race: Close messages sent into a "
    "bounded channel nobody reads); the harness closes databases in a helper thread with a 20 s limit and abandons "
    "the rest of such a case (counted in input_distribution.backend_close_hung_case_abandoned_*)",
    "Fjall: composite keys longer than 65535 bytes are outside the refinement theorem (CmdOk). The model mirrors what "
    "the code does with them: every batch write and every scan panics (backend length assertion), a point read "
    "panics too, except that it answers none while the session's visible sequence number is still 0 (database "
    "reopened with nothing ever committed and no keyspace created since: the snapshot read short-cuts); the oracle "
    "accepts these outcomes as the documented key limit",
]
TRUSTED_EXTRA = [
    "modelled, not verified: RocksDB and Fjall themselves (LSM trees, memtables, prefix extractor + bloom filters, "
    "journal, flush on close) are abstracted as a finite byte-string map per column family iterated in bytewise order "
    "with atomic batches; that abstraction is what the run on the real backends (incl. close/reopen and raw re-reads of "
    "every column family with the backends' own crates) exercises on every check",
    "value (de)serialisation is the codec's business (C12): the model carries encoded bytes",
]

SHARDS = 16


def _one(ctx, binp, shard, n, tier, probe):
    out = os.path.join(ctx.work, f"s{shard}")
    seed = ctx.seed * 1000 + shard
    cmd = [binp, "--seed", str(seed), "--tier", tier, "--out", out, "--n", str(n)]
    if not probe: cmd.append("--no-probe")
    if ctx.replay: cmd += ["--replay", ctx.replay]
    rc, log = vlib.sh(cmd, timeout=3000)
    if rc != 0 or not os.path.exists(os.path.join(out, "report.json")):
        return {"err": f"harness shard {shard} rc={rc}: {log[-1500:]}"}
    rc2, err = vlib.run_driver(DRIVER, os.path.join(out, "ops.txt"), os.path.join(out, "model.txt"))
    if rc2 != 0:
        return {"err": f"driver shard {shard} rc={rc2}: {err[-800:]}"}
    lines, diffs = vlib.diff_streams(os.path.join(out, "impl.txt"), os.path.join(out, "model.txt"), os.path.join(out, "ops.txt"))
    for d in diffs:
        d["shard_seed"] = seed
        if d.get("op"): d["op"] = d["op"][:400]
    rep = json.load(open(os.path.join(out, "report.json")))
    # keep the work directory small (multi-kilobyte keys in hex)
    for f in ("ops.txt", "impl.txt", "model.txt"):
        if not diffs:
            try: os.remove(os.path.join(out, f))
            except OSError: pass
    return {"lines": lines, "diffs": diffs, "report": rep}


def _collect(ctx, n_quick, n_thorough):
    res = vlib.Result()
    ok, log, dt, binp = vlib.cargo_build(HARNESS_BIN, HARNESS_FEATURES)
    ctx.notes.append(f"cargo build {dt:.1f}s")
    if not ok:
        res.disagreements.append({"harness-build-error": log[-2000:]})
        return res
    n = n_quick if ctx.quick() else n_thorough
    shards = [0] if ctx.replay else list(range(SHARDS))
    outs = vlib.shard_map(lambda s: _one(ctx, binp, s, n, ctx.tier, s == 0), shards, min(ctx.jobs, SHARDS))
    dist = {}
    seen_sig = set()
    for o in outs:
        if "err" in o:
            res.disagreements.append({"harness-error": o["err"]})
            continue
        r = o["report"]
        res.evaluations += r["evaluations"]
        res.distinct_nontrivial += r["distinct_nontrivial"]
        res.rule = r["rule"] + "; shards use different seeds, so per-shard distinct counts are added"
        if len(res.samples) < 6: res.samples += r["samples"][:2]
        res.lines_compared += o["lines"]
        res.disagreements += o["diffs"]
        for k, v in r["distribution"].items(): dist[k] = dist.get(k, 0) + v
        for f in r["oracle_failures"]:
            # one representative per signature and backend is enough for the verdict
            if f["sig"] in seen_sig: continue
            seen_sig.add(f["sig"])
            res.oracle_failures.append({"sig": "C11:" + f["sig"], "desc": f["desc"], "case": f["case"]})
    res.distribution = dist
    res.extra["backends"] = ["rocksdb (rust-rocksdb 0.46)", "fjall 3.0.1"]
    subprocess.run("rm -rf /tmp/c11-*", shell=True)
    return res


def run(ctx):
    return _collect(ctx, 40, 380)


def search(ctx, res):
    ctx.notes.append("boosted search after broken proof/correspondence")
    r2 = _collect(ctx, 400, 1500)
    res.disagreements += r2.disagreements[:5]
    return r2.oracle_failures[:3]
