"""C04 — input sessions are atomic and readers see one input snapshot (DESIGN §5.4; finding F5 fixed in /repo by 7a67ce5).

The harness probes on every run whether input_session() takes the phase lock before it bumps the timestamp
("fixed") or after ("asis", the order before 7a67ce5); the traces are validated against the model configuration
with the same order, and PARTIAL holds only the standing restriction (two-level engine) exactly when the order is the repaired one."""
import json, os, sys, hashlib
sys.path.insert(0, os.path.dirname(os.path.dirname(os.path.abspath(__file__))))
import vlib

PID = "C04"
LEAN_MODULES = ["QbiceVerif.Props.C04", "QbiceVerif.Props.NonVacuity.C04", "QbiceVerif.Props.C04Fair", "QbiceVerif.Props.C04FairLive"]
DRIVER = "drv_phase"
HARNESS_BIN = "phase"
HARNESS_FEATURES = ""
PARTIAL = []            # filled in run(): depends on which order the code has (probed on every run)
PARTIAL_ALWAYS = [
    "the value clause of snapshot_consistent is proved over a TWO-LEVEL engine (derived keys read inputs only): the "
    "LTS is about the phase protocol (lock, timestamp, batch), not about deep dependency graphs; that a deep graph "
    "repaired under one snapshot yields the from-scratch values is C01's theorem, and the composition of the two is "
    "not a theorem (the harness oracle judges flat programs here, deep ones in C01/C02).",
    "progress of a waiting writer: writer_bounded_overtaking (no request enqueued after a queued writer is granted before it) is "
    "proved over the full phase LTS with the FIFO lock; the explicit bound writer_granted_after_finitely_many_steps (every "
    "schedule that does not grant the writer has at most waitBound = work of the holders and of the requests in FRONT of it + one "
    "request per other task events) and the refutation joining_readers_starve_writer (toggle join = the seeded change: for every n a "
    "run of length >= n with the writer queued and never granted, while waitBound <= 4) are proved over the fair-queue LTS "
    "Model/PhaseFair (the same Lock operations, tasks abstracted to acquisitions with a finite amount of work), not over the full "
    "LTS; there too the bound is composed with deadlock-freedom (writer_eventually_granted: at the end of any schedule that does not "
    "grant the writer something is enabled, and once the others cannot move or the bound is exhausted the writer's grant is enabled); "
    "the tie between the two LTSs is that they use the very same Lock operations (enqueue / FIFO grantable / grant), not a proved "
    "simulation; that an enabled grant is eventually taken is the scheduler's fairness (tokio's, the OS's), outside the model.",
]
PARTIAL_ASIS = [
    "snapshot_consistent, snapshot_stable, session_atomic: proved for the repaired order of input_session() "
    "(Cfg.lockFirst = true: exclusive phase lock first, then new batch, bump, stage = /repo commit 7a67ce5). THE ORDER PROBE FOUND THE OLD ORDER IN THIS TREE (the fix was reverted?). "
    "For that order (batch, bump, stage, then wait for the lock) snapshot_consistent is REFUTED: "
    "theorem snapshot_consistent_asis_refuted (kernel-checked witness schedule, forced on the real code by "
    "corpus/C04-F5-window.txt) — finding F5. As is, only phase_exclusive and phase_progress hold.",
]
ASSUMPTIONS = [
    "tokio::sync::RwLock specification: a FIFO semaphore — a writer needs all permits, permits are handed to waiters in "
    "arrival order inside release/acquire (Cfg.fair = true with eager grants is what the current-thread traces are "
    "validated against; the safety theorems do not use fairness and hold for the unfair lock too). The progress theorems of "
    "Props/C04Fair (writer_bounded_overtaking, writer_granted_after_finitely_many_steps) DO use it: tokio documents its RwLock as "
    "fair / write-preferring with a FIFO queue (a reader that asks while a writer is queued waits behind it); this is taken from "
    "tokio's documentation, not verified; the harness's overtake oracle tests the composed behaviour (engine + tokio) on every run",
    "AtomicU64 timestamp with SeqCst: fetch_add / load are single events",
    "executor locality (ExecLocal): an executor's value and recorded reads are a function of the inputs it reads; proved "
    "for the harness's expression executors (progExec_local)",
    "the sequential engine below the phase protocol is abstracted to a two-level tiny engine (derived keys read inputs "
    "only): repair of a dirty node = re-execution on the stored inputs (value-equivalent to the engine's fingerprint "
    "comparison; deeper graphs, firewalls and projections are C01's subject)",
]
TRUSTED_EXTRA = [
    "modelled, not verified: tokio RwLock and AtomicU64 (by the specifications above); a query of one key is one atomic "
    "event (its linearisation point is searched inside the call's window); the write batch / staged timestamp write are "
    "trace positions only (their persistence is C07/C08)",
    "cancellation of input_session()/commit() futures (F12) is not modelled here (C05)",
    "tokio's RwLock fairness (FIFO, write-preferring) is modelled from its documentation; the overtake oracle (sig C04:writer-starved) "
    "reads the hook trace: a tracked() whose phase:r:req is emitted after an input_session()'s phase:w:req and whose phase:r:acq is "
    "emitted before that session's phase:w:acq is an overtake; the w:req hook precedes the enqueueing poll, so one overtake per reader "
    "task per request is legitimate; a violation is more than (reader tasks + 1) overtakes of one request (or 3 full iterations of "
    "every reader inside one wait), judged in the starvation family only (no seeded yields between hook and poll), multi-thread "
    "hits must reproduce on two re-runs of the same case (an OS pre-emption between hook and poll is not a defect)",
    "hooks: 21 add-only verif_point!/verif_pause! lines in sync.rs and input_session.rs (labels phase:*); events of reader "
    "release, query return, set_input return and commit return are emitted by the harness itself around the public API calls; "
    "the `req` hooks are emitted before the poll that enqueues the task, so the driver lets a `req` event take effect anywhere "
    "between its emission and the task's `acq` (other hooks' pauses may sit in between) — EXCEPT in cases marked `strict` (starvation "
    "family on the current-thread runtime: no seeded yield at any pause, no gate, nothing runs in parallel), where the hook and the "
    "enqueueing poll are consecutive instructions of one task and the driver keeps the `req` where it was emitted, so that the FIFO "
    "order of the model's queue is checked against the order in which the code admits readers and writers",
    "multi-thread traces: hook emission is not atomic with the step, so each event has a window (previous event of the same "
    "task, own emission] and the driver searches a linearisation; queue order is unobservable there (unfair lock model)",
]

RULE = ("flat programs (1-3 inputs, 1-3 derived nodes: constant/read/add/conditional reads) x task scripts (task 0: warm-up "
        "round, 1-4 sessions of 1-3 writes, commit or plain drop, most followed by a check round; 1-3 reader tasks; sometimes a "
        "second writer) x schedule (current-thread runtime with the hook sink as scheduler: seeded 0-3 yields at every pause + "
        "0-3 named gates; multi-thread runtime 2-12 workers; thorough adds all pairs of single placements of 2 reader rounds "
        "against 2 sessions); STARVATION family (24 per shard quick, 120 thorough; 3/4 current-thread, 1/4 multi-thread 2-8 workers): inputs a, b "
        "(a+b kept at 100) and a+b derived, 2-4 reader tasks looping 6-18 rounds `tracked(); query; hold; query [; hold; query]; drop` "
        "(hold = 1-3 yields / 0.4-1.2 ms sleep, so snapshots overlap), task 0 does 1-4 such rounds, then 1-2 sessions (commit 60% / plain "
        "drop 40%) in the middle, then a check round; overtakes per writer request are measured on every case of every family "
        "(distribution keys overtakes_per_request_*). Non-trivial: some reader event lies between a session's first opening event and the release of "
        "its guard. Distinct: hash of case text + trace.")

KNOWN_SIG = "C04:stale-read:f5-window:model-accepts"


def _case_text(path):
    """a replay file is either a raw case text or a vlib replay JSON holding one"""
    txt = open(path, encoding="utf-8", errors="replace").read()
    try:
        obj = json.loads(txt)
        if isinstance(obj, dict) and "case" in obj:
            return obj["case"]
    except ValueError:
        pass
    return txt


def _shard(args):
    ctx, binp, seed, n_ct, n_mt, idx, shards, exhaustive = args
    out = os.path.join(ctx.work, f"s{idx}")
    os.makedirs(out, exist_ok=True)
    cmd = [binp, "--seed", str(seed), "--tier", "quick", "--out", out, "--n", str(n_ct), "--mt", str(n_mt), "--starve", str(120 if exhaustive else 24),
           "--shard", str(idx), "--shards", str(shards)]
    if exhaustive: cmd += ["--exhaustive"]
    if ctx.replay:
        rp = os.path.join(out, "replay_case.txt")
        open(rp, "w").write(_case_text(ctx.replay))
        cmd += ["--replay", rp]
    rc, log = vlib.sh(cmd, timeout=3000)
    if rc != 0:
        return {"dir": out, "error": f"harness exit {rc}: {log[-400:]}"}
    rc, err = vlib.run_driver(DRIVER, os.path.join(out, "ops.txt"), os.path.join(out, "model.txt"))
    if rc != 0:
        return {"dir": out, "error": f"driver exit {rc}: {err[-400:]}"}
    return {"dir": out}


def run(ctx, boost=1):
    res = vlib.Result()
    res.rule = RULE
    ok, log, dt, binp = vlib.cargo_build(HARNESS_BIN, HARNESS_FEATURES)
    ctx.notes.append(f"cargo build {dt:.1f}s")
    if not ok:
        res.disagreements.append({"line": 0, "op": "cargo build", "impl": log[-1500:], "model": ""})
        return res
    shards = 1 if ctx.replay else ctx.jobs
    n_ct = (3000 if ctx.quick() else 20000) * boost
    n_mt = (120 if ctx.quick() else 800) * boost
    jobs = [(ctx, binp, ctx.seed * 1000 + i, n_ct, n_mt, i, shards, not ctx.quick()) for i in range(shards)]
    outs = vlib.shard_map(_shard, jobs, ctx.jobs)
    dist, seen_nt, verdicts, order = {}, 0, {"accepted": 0, "rejected": 0, "lin-budget": 0, "other": 0}, None
    for o in outs:
        if "error" in o:
            res.disagreements.append({"line": 0, "op": o["dir"], "impl": o["error"], "model": ""})
            continue
        d = o["dir"]
        rep = json.load(open(os.path.join(d, "report.json")))
        order = order or rep.get("order")
        if rep.get("order") != order:
            res.disagreements.append({"line": 0, "op": d, "impl": f"order probe {rep.get('order')}", "model": f"other shard {order}"})
        res.evaluations += rep["evaluations"]
        seen_nt += rep["distinct_nontrivial"]
        for k, v in rep["distribution"].items(): dist[k] = dist.get(k, 0) + v
        if len(res.samples) < 4: res.samples += rep["samples"][:1]
        ops = open(os.path.join(d, "ops.txt")).read().split("\n")
        imp = open(os.path.join(d, "impl.txt")).read().split("\n")
        mod = open(os.path.join(d, "model.txt")).read().split("\n")
        if ops and ops[-1] == "": ops.pop()
        imp += ["<missing>"] * (len(ops) - len(imp)); mod += ["<missing>"] * (len(ops) - len(mod))
        res.lines_compared += len(ops)
        case_verdict, case_no, head = {}, 0, ""
        for i, (op, x, y) in enumerate(zip(ops, imp, mod)):
            if op.startswith("case "):
                case_no += 1; head = op
            if op == "end":
                v = "accepted" if y == "accepted" else ("lin-budget" if y == "lin-budget" else ("rejected" if y.startswith("rejected") else "other"))
                verdicts[v] += 1
                case_verdict[case_no] = y
                if v == "lin-budget": continue
            if x != y and len(res.disagreements) < 20:
                res.disagreements.append({"line": i + 1, "shard": d, "op": op[:300], "impl": x[:300], "model": y[:300], "case_head": head})
            elif x != y:
                res.disagreements.append({"line": i + 1, "shard": d})
        for f in rep["oracle_failures"]:
            v = case_verdict.get(f.get("idx"), "?")
            f = dict(f)
            f["sig"] = f["sig"] + (":model-accepts" if v == "accepted" else ":model-rejects")
            f["desc"] = f["desc"] + f" [model verdict on this trace: {v}; order of the code: {order}]"
            res.oracle_failures.append(f)
        if not any(x.get("shard") == d for x in res.disagreements):
            for fn in ("ops.txt", "impl.txt", "model.txt"):
                try: os.remove(os.path.join(d, fn))
                except OSError: pass
    res.disagreements = [x for x in res.disagreements if "op" in x][:20]
    res.traces_validated = verdicts["accepted"]
    res.distinct_nontrivial = seen_nt
    dist["model_verdicts"] = verdicts
    dist["order_of_the_code"] = order
    res.distribution = dist
    res.extra = {"order_of_input_session_steps_in_repo": order,
                 "model_configuration_validated": "Cfg.lockFirst = " + ("true (repaired)" if order == "fixed" else "false (as is)")}
    res.partial = PARTIAL_ALWAYS + ([] if order == "fixed" else PARTIAL_ASIS)
    if order not in ("asis", "fixed"):
        res.disagreements.append({"line": 0, "op": "order probe", "impl": str(order), "model": "asis|fixed (phase:w:bump / phase:w:acq hooks missing?)"})
    return res


def search(ctx, res):
    """Proof or correspondence broke without an oracle failure: look harder for a failing input."""
    ctx.notes.append("boosted search x6")
    ctx.work = os.path.join(ctx.work, "boost")
    os.makedirs(ctx.work, exist_ok=True)
    r2 = run(ctx, boost=6)
    res.evaluations += r2.evaluations
    return r2.oracle_failures
