"""C12 — serialization round-trips every supported value exactly (DESIGN §5.12)."""
import json, os, sys
sys.path.insert(0, os.path.dirname(os.path.dirname(os.path.abspath(__file__))))
import vlib

PID = "C12"
LEAN_MODULES = ["QbiceVerif.Props.C12", "QbiceVerif.Props.C12Nested", "QbiceVerif.Props.NonVacuity.C12"]
DRIVER = "drv_codec"
HARNESS_BIN = "codec"
HARNESS_FEATURES = "extras"
PARTIAL = [
    "interned_roundtrip_nested (handles nested inside handle payloads to any depth, DAG sharing, recursive types) covers "
    "payloads built from handle-free C12 types, handles, Vec-like sequences, Option, tuples/structs and enums; not "
    "modelled inside the nested universe: skipped fields, maps/sets/arrays/Result/Bound *around* handles (their "
    "handle-free instances are covered by decode_encode), and decoding under hash collisions (the flat interned_roundtrip "
    "ops compare both sides under a 2-bit hasher; the nested ops then compare the encoder only)",
    "decode_encode_asis_partial / back_to_back_asis_partial / bitvec_asis_counterexample* / asis_full_statement_false "
    "are historical: they describe the decoder before /repo commit e089897 (finding F7, fixed); decode_encode and "
    "back_to_back (no side condition) are the statements about the code as it is now",
]
ASSUMPTIONS = [
    "64-bit platform: usize/isize travel as u64/i64 and `try_from` cannot fail",
    "interned_roundtrip: distinct values of one type occurring in the structure (and in the decoder-side interner) "
    "have distinct 128-bit hashes — explicit hypothesis `hinj`; the correspondence also runs a 2-bit hasher where "
    "it fails and checks that model and code then go wrong in the same way",
    "interned handles decoded from one structure stay alive until the top-level decode call returns: since /repo 8f43b2a "
    "(finding F61, fixed) this is what the code does — the decode session holds a clone of every handle it produced — and "
    "the model's `dec true`; `dec false` is the decoder before that commit (allocations made while reading a payload die when "
    "`intern` returns an equal live value and drops the payload), with a decide-checked witness of the historical panic",
    "decoder-side interner of the nested theorems: interned_roundtrip_nested_weak / interned_sharing_nested_weak need only "
    "`IOkW` — every live entry's payload is in the collision-free universe and is filed under its own hash (integrity, C15's "
    "`canonical`); live values may hold `Interned::new_duplicating` copies the interner does not know.  They give the exact "
    "round trip and canonicity/sharing for every handle the decode produced (`handlesAbove I.length`: not descending into "
    "allocations that existed before the call — what a non-canonical live value holds inside cannot be claimed canonical).  "
    "interned_roundtrip_nested / interned_sharing_nested / interned_roundtrip_history (hypothesis `IOk`: live entries "
    "canonical at every depth) are the instance threshold = 0 of the same proof and give canonicity at every depth",
    "the decoder-side interner of interned_roundtrip / interned_roundtrip_nested holds LIVE entries only: a dead weak entry "
    "(value interned or decoded earlier, every handle dropped, no vacuum since) is modelled as an absent one, which is how "
    "`intern`, `intern_unsized` and `get_from_hash` treat it in the code (C15's LTS has the dead entries and proves "
    "`canonical` with them); interned_roundtrip_history states it explicitly — after any history the interner is "
    "`aliveInterner` of the values alive — and the `history` stage checks it on the real interner: sequences of encode / "
    "decode-and-keep / decode-and-drop / drop / vacuum on ONE long-lived interner over values with repeated unsized "
    "(str, [u32], Path, [Interned<NNode>]) and sized handles, flat and nested; each decode step is compared line by line "
    "with the model run against `aliveInterner` and judged by the oracle (no panic, decode == v, exact consumption, "
    "sharing, handles equal to a live value are that value's allocations)",
    "interned_roundtrip_nested: same no-collision hypothesis as the flat theorem (`hinj`, over every handle payload at "
    "every depth and everything alive in the decoder-side interner); it is also what excludes a reference to a handle "
    "whose payload is still being decoded (the seen set gets the id BEFORE the payload, the interner AFTER it)",
    "the decoder's recursion is on fuel (types may be recursive): `v.need` (size of the value as a tree) units are "
    "proved sufficient; the driver runs with 10^6",
    "Rust's `<<`, arithmetic `>>`, `^`, `&` and unary minus on iN/uN are Lean's BitVec operations (zigzag_bit_trick "
    "proves the bit trick equal to the arithmetic zigzag of the model for every width; the correspondence re-checks "
    "it exhaustively at 16 bits and at the zigzag boundaries of 32/64/128 bits)",
    "sequence lengths, string lengths and enum variant indices are < 2^64 (part of well-typedness)",
]
TRUSTED_EXTRA = [
    "modelled, not verified: std (`String::from_utf8` as the Unicode table 3-7 automaton, `char::from_u32`, "
    "`Duration::new` carry/overflow, `to_le_bytes`), the `bitvec` crate (`as_raw_slice`, `Write for BitVec` = "
    "byte-wise `store_be`, `truncate` keeps dead bits), hash-map iteration order (a map is the sequence of its "
    "entries in the order the encoder met them)",
    "nested handles: stable type ids are abstract numbers in the model (NNode=0, NExpr=1, str=2, String=3, "
    "[Interned<NNode>]=4 in the harness); that different Rust types have different STABLE_TYPE_IDs is C14; the hash of a "
    "payload is supplied by the harness per handle (the real `hash_128`), the model only needs it to be a function of "
    "(type id, payload)",
    "outside the model: io::Write failures, allocation failure of `Vec::with_capacity(len)` for absurd decoded "
    "lengths (the harness refuses to feed such streams to the real decoder and counts them: guard_skipped), "
    "non-UTF-8 paths (encode refuses)",
]

SHARDS = 16
CORPUS = os.path.join(vlib.VERIF, "corpus", "C12-F7.json")


def _bin(ctx):
    pre = os.environ.get("C12_CODEC_BIN")
    if pre:
        ctx.notes.append(f"using prebuilt harness {pre}")
        return True, "", pre
    ok, log, dt, binp = vlib.cargo_build(HARNESS_BIN, HARNESS_FEATURES)
    ctx.notes.append(f"cargo build {dt:.1f}s")
    return ok, log, binp


def _one(ctx, binp, seed, shard, n, tier, tag):
    out = os.path.join(ctx.work, f"{tag}{shard}")
    cmd = [binp, "--seed", str(seed), "--tier", tier, "--out", out, "--n", str(n), "--shard", str(shard), str(SHARDS)]
    if shard == 0 and os.path.exists(CORPUS):
        cmd += ["--replay", CORPUS]     # regression inputs of the fixed finding F7: run first, must pass
    rc, log = vlib.sh(cmd, timeout=3000)
    aborted = None
    if rc != 0:
        # The real decoder killed the process (it pre-allocates whatever length it reads: an absurd length read from a
        # desynchronised stream is an allocation failure = abort).  On a VALID encoding that is itself a violation of
        # the property; re-run the shard with the length guard on so that the concrete failing inputs are reported.
        aborted = f"harness shard {shard} rc={rc}: {log[-600:]}"
        try: os.remove(os.path.join(out, "report.json"))
        except OSError: pass
        rc, log = vlib.sh(cmd + ["--guarded"], timeout=3000)
    if rc != 0 or not os.path.exists(os.path.join(out, "report.json")):
        return {"err": f"harness shard {shard} rc={rc}: {log[-1500:]}"}
    dargs = ("--asis-f7",) if os.environ.get("C12_DRIVER_ASIS_F7") == "1" else ()
    rc2, err = vlib.run_driver(DRIVER, os.path.join(out, "ops.txt"), os.path.join(out, "model.txt"), dargs)
    if rc2 != 0:
        return {"err": f"driver shard {shard} rc={rc2}: {err[-800:]}"}
    lines, diffs = vlib.diff_streams(os.path.join(out, "impl.txt"), os.path.join(out, "model.txt"), os.path.join(out, "ops.txt"))
    for d in diffs:
        d["replay"] = {"seed": seed, "shard": shard, "n": n, "tier": tier}
        if d.get("op"): d["op"] = d["op"][:400]
    rep = json.load(open(os.path.join(out, "report.json")))
    if aborted:
        diffs.insert(0, {"harness-aborted-then-rerun-guarded": aborted, "replay": {"seed": seed, "shard": shard, "n": n, "tier": tier}})
    for f in rep["oracle_failures"]:
        f["replay"] = {"seed": seed, "shard": shard, "n": n, "tier": tier}
    if not diffs:
        for f in ("ops.txt", "impl.txt", "model.txt"):
            try: os.remove(os.path.join(out, f))
            except OSError: pass
    return {"lines": lines, "diffs": diffs, "report": rep}


def _merge(a, b):
    for k, v in b.items():
        if isinstance(v, dict):
            a[k] = _merge(a.get(k, {}), v)
        elif k in ("rust_types", "descriptors"):
            a[k] = max(a.get(k, 0), v)      # the same registry in every shard
        else:
            a[k] = a.get(k, 0) + v
    return a


def _collect(ctx, n, tag="s", only=None):
    res = vlib.Result()
    ok, log, binp = _bin(ctx)
    if not ok:
        res.disagreements.append({"harness-build-error": log[-2000:]})
        return res
    jobs = [(ctx.seed, s, n, ctx.tier) for s in range(SHARDS)] if only is None else [only]
    outs = vlib.shard_map(lambda j: _one(ctx, binp, j[0], j[1], j[2], j[3], tag), jobs, min(ctx.jobs, SHARDS))
    dist, seen_sig = {}, set()
    for o in outs:
        if "err" in o:
            res.disagreements.append({"harness-error": o["err"]})
            continue
        r = o["report"]
        res.evaluations += r["evaluations"]
        res.distinct_nontrivial += r["distinct_nontrivial"]
        res.rule = r["rule"] + "; shards partition the exhaustive 16-bit domains and the type registry and use " \
            "different random streams, so per-shard distinct counts are added"
        if len(res.samples) < 6: res.samples += r["samples"][:1]
        res.lines_compared += o["lines"]
        res.disagreements += o["diffs"]
        _merge(dist, r["distribution"])
        for f in r["oracle_failures"]:
            if f["sig"] in seen_sig: continue
            seen_sig.add(f["sig"])
            res.oracle_failures.append(f)
    res.distribution = dist
    res.extra["exhaustive_16bit"] = "all 65536 values of u16, i16, NonZeroU16, NonZeroI16 (stage exh16), every run"
    res.extra["features"] = "bitvec + smallvec enabled (harness feature `extras`); smallvec/bitvec types are part of the registry"
    return res


def run(ctx):
    if ctx.replay:
        rp = json.load(open(ctx.replay)).get("replay")
        if rp:
            res = _collect(ctx, rp["n"], "r", (rp["seed"], rp["shard"], rp["n"], rp["tier"]))
            want = json.load(open(ctx.replay)).get("sig")
            if want: res.oracle_failures = [f for f in res.oracle_failures if f["sig"] == want]
            return res
    return _collect(ctx, 20000 if ctx.quick() else 500000)


def search(ctx, res):
    ctx.notes.append("boosted search after broken proof/correspondence")
    r2 = _collect(ctx, 200000 if ctx.quick() else 600000, "b")
    res.disagreements += r2.disagreements[:5]
    return r2.oracle_failures[:3]
