"""C09 — cached maps always return the latest write (DESIGN §5.9)."""
import json, os, sys
sys.path.insert(0, os.path.dirname(os.path.dirname(os.path.abspath(__file__))))
import vlib

PID = "C09"
LEAN_MODULES = ["QbiceVerif.Props.C09",
                "QbiceVerif.Lemmas.SetCacheConcBasic", "QbiceVerif.Lemmas.SetCacheConcInv", "QbiceVerif.Lemmas.SetCacheConcLocal",
                "QbiceVerif.Lemmas.SetCacheConcStepA", "QbiceVerif.Lemmas.SetCacheConcStepB", "QbiceVerif.Lemmas.SetCacheConcStepC",
                "QbiceVerif.Lemmas.SetCacheConcStepD", "QbiceVerif.Lemmas.SetCacheConcMain", "QbiceVerif.Lemmas.SetCacheConcOwner", "QbiceVerif.Lemmas.CacheWideHandover"]
DRIVER = "drv_cache"
HARNESS_BIN = "cache"
HARNESS_FEATURES = ""
PARTIAL = [
    "key-of-set cache with concurrent foreground tasks: set_refines_map_concurrent (any number of tasks, multi-step get/insert/remove exactly in the order of "
    "cache.rs incl. the generation check of /repo 73760b5, any interleaving with commit / flush / eviction, any threshold) proves ELEMENT-WISE linearizability: "
    "membership of every element in the returned set is its membership in the abstract set at some point of the read's interval (exact set for a read that overlaps no "
    "write; every write that returned before the read is in it). WHOLE-SET atomicity of a read that overlaps writes is FALSE for the code and not claimed "
    "(set_whole_set_not_atomic: the staging snapshot and the store scan of a fetch / a streaming read are taken at two instants, a single writer suffices; reproduced "
    "on the real code by the gated schedule `whole-set`); the theorem needs the usage assumption `orderedElem` (see ASSUMPTIONS)",
    "the concurrent set model (SetCacheConc) leaves out the eviction of the staging log and its `dirty` counter (an evictable log is empty: proved only in the "
    "sequential model, set_refines_map) and replaces the single flight by its over-approximation (any number of tasks may fetch at once; a task that missed may "
    "go round the loop at any time)",
    "CONDITIONAL on an explicit schedule hypothesis: wide_refines_map_concurrent (any number of tasks, arbitrary interleaving; hypothesis `hordered : WideCacheR.orderedSched … = true`, "
    "i.e. every cacheWrite is `ordered`) and set_refines_map_concurrent / set_get_without_overlap_exact (hypothesis `hordered : SetCacheConc.orderedSched … = true`, i.e. every stage is "
    "`orderedElem`; the `_reach` forms quantify over `ReachOrdered`). For sets the hypothesis is DISCHARGED by set_refines_map_concurrent_owned under the write discipline "
    "'every element of the key is written by one fixed task' (`ownedSched`; SetCacheConc.owned_is_ordered proves that it implies orderedElem at every stage). Nothing in the storage layer enforces either condition (the cache applies writes in arrival order, the store applies "
    "batches in epoch order): they are obligations of the CALLER. `ordered_is_needed`, `set_overlap_is_needed`, `set_epoch_order_is_needed` show they cannot be dropped. For the engine: "
    "the wide hypothesis is DISCHARGED by wide_refines_map_concurrent_handover under the hand-over discipline `exclusiveSched` (WideCacheR.exclusive_is_ordered). Both disciplines were "
    "established for the engine by reading, with file:line references in ASSUMPTIONS (DirtySetColumn included: one put per key and timestamp by the dirty walk, deleted only by the caller's "
    "own publication, which starts after the walk returned); neither is machine-checked against the engine",
]
HISTORICAL = [
    "wide cache: finding F9 (stale fill under concurrency) was found by this check and fixed in /repo 5fe68af; the model of the code as it is is WideCacheR "
    "with fix = true (the driver runs it); wide_refines_map_concurrent_fails / wide_concurrent_unrepaired_fails are decide-witnesses of the fixed defect",
    "set cache: finding F50 (a fetch cached a set built from a staging snapshot older than a concurrent write) was found by this check and fixed in /repo "
    "73760b5; set_concurrent_get_insert_fails (sequential model, get split in two) and set_concurrent_unrepaired_fails (concurrent model SetCacheConc with "
    "the generation check switched off, `fix = false`) are the decide-witnesses; the driver runs `fix = true` (`drv_cache conc`; `unfix=gen` switches back)",
    "set_refines_map is a statement about the code as it is: findings F10 (get_snapshot cancelled staged operations in heap order) and F17 "
    "(Spilled iterator ended early) were found by this check and fixed in /repo (d9a4d81, b91d22f); the model's switches fixSnap/fixSpill are "
    "kept, `repaired` (both on) is what the correspondence runs, `asIs` (both off) is the code before the fixes",
    "set_asis_fails_heap_order / _cancel / _committed_op / _spilled: decide-witnesses of the two fixed defects on the pre-fix configuration; "
    "set_refines_map_asis_partial: what the pre-fix code guaranteed (reads inside `getSafe`); both kept as history, neither is about the current code",
]
ASSUMPTIONS = [
    "a pinned entry is not evicted (TinyLFU asks `is_pinned` again under the entry lock) — imported from C16; the model's `evict` is enabled exactly when pin <= 0 "
    "and otherwise unconstrained (any capacity >= 1, any admission decision)",
    "concurrent wide theorem, hypothesis `ordered` – a write of a key reaches the cache only from a batch whose epoch exceeds that of every other uncommitted batch that "
    "already wrote the key. USAGE CONSTRAINT of the write-behind design (the store applies batches in epoch order whatever the order of the writes; no lock or generation in "
    "wide_column_cache.rs relates the two). It is DISCHARGED by wide_refines_map_concurrent_handover under the hand-over discipline `exclusiveSched` (a writer of the key opens its "
    "batch only while no other writer of the key has one open; WideCacheR.exclusive_is_ordered, proved). That the engine follows this discipline was established BY READING (/repo 8f43b2a; "
    "not machine-checked against the engine; epochs = creation order of `new_write_batch`): (a) columns keyed by a query id (QueryKind, NodeInfo, LastVerified, forward edges / observations, "
    "QueryInput/Result, PendingBackwardProjection): written only by that query's publication block – batch created at slow_path.rs:196/221 resp. database.rs:913 (clean_query) while the "
    "query's computing lock is held, submitted (database.rs:1220 / :1001) before `lock_guard.done()` (computing.rs:777 / :676) – or by the input session under the exclusive phase lock with a "
    "batch created after the lock (sync.rs, input_session.rs:137); one owner per query and timestamp (C02 single_flight). (b) DirtySetColumn key (k,c): PUT only by `process_task` of the dirty "
    "worker for node c (dirty_worker.rs:240/250/331), which runs at most once per timestamp for c (`dirtied_queries.insert`, dirty_worker.rs:209; cleared only by the next input session, "
    "input_session.rs:128) – so one put per key and timestamp, from the batch of the walk that first reaches c: the session's batch (input_session.rs:131, exclusive phase) or the batch of the "
    "publication block of a re-executed firewall / projection X whose value changed (slow_path.rs:196-210) or of a projection whose firewall set changed (database.rs:913-950); "
    "`dirty_propagate_from_batch` returns only after every walk task and the edge buffer have been applied (dirty_worker.rs:300-336), which is before X's `set_computed` and `lock_guard.done()`. "
    "DELETED only by k's own publication block: `clean_query` for the edges it found dirty AFTER awaiting the callee's repair (repair.rs:345, `add_to_clean_list: edge_is_dirty` :413; a clean "
    "edge is never deleted, and is trusted only when the firewall frontier below the callee is settled, repair.rs:297-333, database.rs:728-793) or `set_computed` for the old forward edges of a "
    "re-executed k (database.rs:1072/1095). A walk reaches (k,c) only through a firewall-free path c →* X, so X is in the firewall set of c and of k; k's publication in timestamp T starts "
    "only after X is settled at T: user / firewall-repairing callers repair their firewall set first (computation_graph.rs:466-486), a firewall with a pending backward projection is not "
    "'settled' and a firewall-repairing caller performs the projections before returning (fast_path.rs:45-52, backward_projection.rs:23-113), waiters on X's computing entry resume only after "
    "`lock_guard.done()`. Hence for every key: put (walk, batch b_X) entirely precedes the creation of k's batch b_k, b_X is submitted before b_k is created, next timestamp's session batch is "
    "created after the phase has drained – the writers hand the key over (`exclusiveSched`). The argument leans on the engine invariant that C01 proves for the sequential model (a query is "
    "verified at T only above settled firewalls) and on C02's single flight; a violation would be visible only through the STORE (after the entry is un-pinned and evicted, or after a restart), "
    "not through reads served by the cache",
    "one foreground task has at most one open write batch at a time, so batch epochs of its writes are non-decreasing in issue order "
    "(with two open batches a write recorded in the lower-epoch batch after a write in the higher-epoch one loses in the store although it wins in the cache; "
    "this usage is outside the theorems and outside the generator)",
    "concurrent set theorems, hypothesis `orderedElem` – two writes (insert/remove) of the SAME ELEMENT of a key never overlap in time and come from batches in epoch order; writes "
    "of different elements of the key are unconstrained (any overlap, any epoch order). Weaker than the wide cache's `ordered`; nothing in cache.rs enforces it (the staging log is ordered "
    "by (epoch, seq), the cached set by arrival). Examined for the engine BY READING and found to hold: the key-of-set columns are BackwardEdgeColumn (key = callee, element = caller) and "
    "ExternalInputColumn (key = type, element = query); every insert/remove passes `self.query_id()` of the query being published as the ELEMENT (database.rs "
    "computing_lock_to_computed: `backward_edges.remove(edge, self.query_id(), tx)` / `.insert(callee, self.query_id(), tx)`; set_input: `remove(edge, &query_id, tx)`), the batch is created "
    "inside the publication block after the query's computing lock was obtained (slow_path.rs `new_write_transaction` in execute_query; at most one owner per query: C02 single_flight) "
    "resp. after the exclusive phase lock (sync.rs), and epochs are creation order – so all writes of one element are made by one task at a time, each later writer's batch being created "
    "after the earlier writer's writes returned. Not machine-checked against the engine. set_overlap_is_needed / set_epoch_order_is_needed: decide-witnesses that neither half can be dropped",
    "iteration over the cached in-memory set is one atomic read in the model (true for the harness's SortedSet; the engine's DashSet iterator is weakly consistent – the element-wise "
    "statement does not depend on it: every element is read once, and the invariant about the entry a reader holds is stated for every instant)",
    "scc::HashMap entry operations are atomic per key; `KvDatabase::commit` applies a batch atomically; scans are snapshots",
    "the after-commit worker is a single FIFO thread and notifies all wide columns of a batch before its key-of-set columns",
]
TRUSTED_EXTRA = [
    "modelled, not verified: per-key projection of the caches (entries of different keys interact only through eviction, which is abstracted to "
    "'any unpinned entry may vanish at any time'); std BinaryHeap (push = append + sift-up reproduced exactly for the iteration order; "
    "`FlushUpTo` = 'empty the heap iff its maximum is <= epoch', i.e. peek returns a maximum); single-flight / tokio Notify as 'a waiter may retry at any time'; "
    "the staging log's deferred-message queue (only used when a reader holds the log lock concurrently) is not modelled",
    "concurrent set model, modelled not verified: one atomic step each for `staging.get_map` + `get_snapshot` (a reader holding the `Arc` of a log that is evicted in between sees an "
    "empty log = an earlier snapshot), for `put_set` + `dirty += 1` + log append (`stage`), for `dirty -= 1` + `FlushUpTo`; `write_generation` is one counter for all keys of the map "
    "(`otherBump`); TinyLFU admission refusing the fetched entry = install followed by eviction; gated schedules (no hook in /repo) identify the atomic steps by the harness-owned calls the cache makes on "
    "the worker's own thread: `Hash`/`Clone` of the key (only the worker's own key reference counts, so TinyLFU maintenance is ignored; `staging.get_map`, `cache.get`, single-flight "
    "`hash_one`, and the key clone inside `cache.entry` = the install was really made), the KV scan (before / after reading the store) and the SortedSet methods (`default`, `clone`/`iter`, "
    "`insert_element`/`remove_element`); park points: before snapshot / lookup / single flight / scan, after scan, before read; before stage / `cache.get` / in-place update; a worker's "
    "future is polled by hand (`Pending` = single-flight waiter); one worker advances at a time, steps between two gates are emitted together (`stage`+`bump`, `gstart`+`gload`); a start-up "
    "calibration of every gate aborts the harness (exit 2) when the call pattern of cache.rs changes; the free-running stress is judged by the harness's per-element oracle only",
    "correspondence without hooks in /repo: HarnessKv (in-memory KvDatabase of the harness) gates `commit`; the key type's `Hash` impl gates the "
    "after-commit thread (first lookup of a batch's flush waits for a `notify` permit) and a trailing sentinel key-of-set column per batch reports completion; "
    "store reads / set fetches / scans during each read are observed and validated against the model (a read that went to the store must be justifiable by an "
    "enabled `evict`; a read that did not must find the entry in the model)",
]
RULE = ("case has at least one background commit and at least one read that went to the store (miss after eviction / streaming / fetch); "
        "gated concurrent cases: at least one get overlaps another operation; distinct by case text")


def _read(p):
    a = open(p, encoding="utf-8", errors="replace").read().split("\n")
    if a and a[-1] == "": a.pop()
    return a


def _run_stream(ctx, binp, tag, seed, n, extra, drv_args):
    out = os.path.join(ctx.work, tag)
    os.makedirs(out, exist_ok=True)
    cmd = [binp, "--seed", str(seed), "--tier", ctx.tier, "--out", out, "--n", str(n)] + extra
    rc, log = vlib.sh(cmd, timeout=3000)
    if rc != 0:
        return {"dir": out, "error": f"harness exit {rc}: {log[-800:]}"}
    rc, err = vlib.run_driver(DRIVER, os.path.join(out, "ops.txt"), os.path.join(out, "model.txt"), drv_args)
    if rc != 0:
        return {"dir": out, "error": f"driver exit {rc}: {err[-400:]}"}
    return {"dir": out}


def _shard(a):
    return _run_stream(*a)


def _collect(res, o, dist):
    """adds report + diff of one stream to res; returns (report, per-case line ranges)"""
    if "error" in o:
        res.disagreements.append({"line": 0, "op": o["dir"], "impl": o["error"], "model": ""})
        return None
    d = o["dir"]
    rep = json.load(open(os.path.join(d, "report.json")))
    res.evaluations += rep["evaluations"]
    res.distinct_nontrivial += rep["distinct_nontrivial"]
    for k, v in rep["distribution"].items():
        if isinstance(v, dict):
            dd = dist.setdefault(k, {})
            for kk, vv in v.items(): dd[kk] = dd.get(kk, 0) + vv
        elif k == "sentinel_column": dist[k] = v
        elif k == "max_set_size": dist[k] = max(dist.get(k, 0), v)
        elif isinstance(v, (int, float)): dist[k] = dist.get(k, 0) + v
        else: dist[k] = v
    if len(res.samples) < 6: res.samples += rep["samples"][:1]
    n, diffs = vlib.diff_streams(os.path.join(d, "impl.txt"), os.path.join(d, "model.txt"), os.path.join(d, "ops.txt"), limit=3)
    res.lines_compared += n
    for x in diffs:
        x["stream"] = os.path.basename(d)
        res.disagreements.append(x)
    if rep["distribution"].get("harness_errors", 0):
        res.disagreements.append({"line": 0, "op": d, "impl": "harness errors: " + json.dumps([f for f in rep["oracle_failures"] if f["sig"] == "panic"][:2])[:600], "model": ""})
    return rep


def run(ctx, boost=1):
    res = vlib.Result()
    res.rule = RULE
    if os.environ.get("VERIF_C09_BIN"):
        # testing aid (sensitivity runs against a private copy of /repo while other checks mutate the shared tree)
        ok, log, dt, binp = True, "", 0.0, os.environ["VERIF_C09_BIN"]
        ctx.notes.append(f"harness binary overridden by VERIF_C09_BIN={binp}")
    else:
        ok, log, dt, binp = vlib.cargo_build(HARNESS_BIN, HARNESS_FEATURES)
    ctx.notes.append(f"cargo build {dt:.1f}s")
    if not ok:
        res.disagreements.append({"line": 0, "op": "cargo build", "impl": log[-1500:], "model": ""})
        return res
    dist = {}
    if ctx.replay:
        try: conc_replay = "ccase" in open(ctx.replay, encoding="utf-8", errors="replace").read()
        except OSError: conc_replay = False
        if conc_replay:
            o = _run_stream(ctx, binp, "replay", ctx.seed, 1, ["--conc-gated", "--replay", ctx.replay], ["conc"])
        else:
            o = _run_stream(ctx, binp, "replay", ctx.seed, 1, ["--replay", ctx.replay], [])
        rep = _collect(res, o, dist)
        if rep: res.oracle_failures += [f for f in rep["oracle_failures"]]
        res.distribution = dist
        return res
    # 1. main stream (unrestricted histories; since the fixes of F10/F17 every oracle failure is a violation)
    shards = ctx.jobs
    n = (2500 if ctx.quick() else 30000) * boost
    jobs = [(ctx, binp, f"r{i}", ctx.seed * 1000 + i, n, [], []) for i in range(shards)]
    for o in vlib.shard_map(_shard, jobs, ctx.jobs):
        rep = _collect(res, o, dist)
        if rep: res.oracle_failures += rep["oracle_failures"]
    # 2. the stream restricted to the region in which the pre-fix code was already correct (kept: different op mix)
    nu = (400 if ctx.quick() else 6000) * boost
    jobs = [(ctx, binp, f"u{i}", ctx.seed * 1000 + 500 + i, nu, ["--restricted"], ["assert-safe"]) for i in range(min(shards, 8))]
    for o in vlib.shard_map(_shard, jobs, ctx.jobs):
        rep = _collect(res, o, dist)
        if rep: res.oracle_failures += rep["oracle_failures"]
    # 2b. oracle-only stream with the engine's own set type (Arc<DashSet>) instead of the harness's sorted set
    def _dash(i):
        out = os.path.join(ctx.work, f"d{i}")
        rc, log = vlib.sh([binp, "--seed", str(ctx.seed * 1000 + 900 + i), "--tier", ctx.tier, "--out", out, "--n", str((300 if ctx.quick() else 4000) * boost), "--dash"], timeout=3000)
        return (out, rc, log)
    dash_cases = 0
    for out, rc, log in vlib.shard_map(_dash, list(range(4)), ctx.jobs):
        if rc != 0:
            res.disagreements.append({"line": 0, "op": out, "impl": f"harness exit {rc}: {log[-400:]}", "model": ""}); continue
        rep = json.load(open(os.path.join(out, "report.json")))
        dash_cases += rep["evaluations"]
        res.evaluations += rep["evaluations"]
        res.oracle_failures += rep["oracle_failures"]
    res.extra["oracle_only_cases_with_DashSet"] = dash_cases
    # 3. replays of the fixed findings F10 (three forms) and F17: must run clean now; a failure is a violation
    for i, fn in enumerate(["C09-f10a.txt", "C09-f10b.txt", "C09-f10c.txt", "C09-f13.txt"]):
        p = os.path.join(vlib.VERIF, "corpus", fn)
        if not os.path.exists(p):
            res.disagreements.append({"line": 0, "op": "corpus/" + fn, "impl": "missing corpus file", "model": ""}); continue
        o = _run_stream(ctx, binp, f"c{i}", ctx.seed, 1, ["--replay", p], [])
        rep = _collect(res, o, dist)
        if rep:
            for f in rep["oracle_failures"]:
                f["sig"] = f"corpus/{fn}:{f['sig']}"
                f["desc"] = f"replay corpus/{fn} of a fixed finding fails again: " + f["desc"]
                res.oracle_failures.append(f)
    # 4. two real threads: fill vs write+commit+un-pin+evict (F9, fixed), fill vs pinned write, set fetch vs insert/remove (F50, fixed):
    #    all must run clean; a stale read is a violation
    d = os.path.join(ctx.work, "conc")
    rc, log = vlib.sh([binp, "--stale-fill", "--fill-vs-write", "--set-fill-vs-insert", "--scan-vs-flush", "--n", "0", "--out", d], timeout=600)
    if rc == 0:
        rep = json.load(open(os.path.join(d, "report.json")))
        res.oracle_failures += rep["oracle_failures"]
        res.extra["two_thread_stale_fill"] = rep.get("concurrency", "")
    else:
        res.disagreements.append({"line": 0, "op": "stale-fill scenario", "impl": log[-600:], "model": ""})
    # 5. set cache, several real threads, gated schedules: every observed atomic step is replayed through SetCacheConc.fire
    #    (the model must accept the sequence and predict every returned set); the harness judges the same runs with its own
    #    per-element oracle
    gdist = {}
    ng = (300 if ctx.quick() else 3000) * boost
    jobs = [(ctx, binp, f"g{i}", ctx.seed * 1000 + 700 + i, ng, ["--conc-gated"], ["conc"]) for i in range(min(shards, 8))]
    gated_cases = 0
    for o in vlib.shard_map(_shard, jobs, ctx.jobs):
        rep = _collect(res, o, gdist)
        if rep:
            res.oracle_failures += rep["oracle_failures"]
            gated_cases += rep["evaluations"]
    dist["concurrent_set_gated"] = gdist
    res.extra["concurrent_set_gated_cases"] = gated_cases
    # 6. set cache, free-running threads (oracle only: per-element regular semantics from the recorded history + exact final sets)
    def _stress(i):
        out = os.path.join(ctx.work, f"cs{i}")
        rc, log = vlib.sh([binp, "--conc-stress", "--seed", str(ctx.seed * 1000 + 800 + i), "--tier", ctx.tier, "--out", out], timeout=1200)
        return (out, rc, log)
    sdist = {}
    for out, rc, log in vlib.shard_map(_stress, list(range(4 if ctx.quick() else 8)), ctx.jobs):
        if rc != 0:
            res.disagreements.append({"line": 0, "op": out, "impl": f"harness exit {rc}: {log[-400:]}", "model": ""}); continue
        rep = json.load(open(os.path.join(out, "report.json")))
        res.evaluations += rep["evaluations"]
        res.oracle_failures += rep["oracle_failures"]
        for k, v in rep.get("distribution", {}).items():
            if isinstance(v, (int, float)): sdist[k] = sdist.get(k, 0) + v
    dist["concurrent_set_stress"] = sdist
    res.extra["historical"] = HISTORICAL
    res.distribution = dist
    res.partial = PARTIAL
    return res


def search(ctx, res):
    """the proof or the tie broke and the oracle saw nothing: boosted search with other seeds"""
    ctx.seed = ctx.seed + 7919
    r2 = run(ctx, boost=4)
    known = {s for e in vlib.load_known(PID) for s in e.get("signatures", [])}
    return [f for f in r2.oracle_failures if f.get("sig") not in known]
