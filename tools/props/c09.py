"""C09 — cached maps always return the latest write (DESIGN §5.9)."""
import json, os, sys
sys.path.insert(0, os.path.dirname(os.path.dirname(os.path.abspath(__file__))))
import vlib

PID = "C09"
LEAN_MODULES = ["QbiceVerif.Props.C09"]
DRIVER = "drv_cache"
HARNESS_BIN = "cache"
HARNESS_FEATURES = ""
PARTIAL = [
    "no theorem for the key-of-set cache with CONCURRENT foreground tasks: set_refines_map covers one foreground task whose operations are atomic steps "
    "(background commit / notify / evictions between them, as in the property's quantifier); the generation check that /repo 73760b5 added to the set "
    "cache's fetch (repair of F50) is not modelled; concurrency on the set cache is covered only by the two-thread scenario (reader fetch vs insert/remove) "
    "that runs on every check",
    "wide_refines_map_concurrent (any number of tasks, arbitrary interleaving) holds under the schedule assumption `ordered` (see ASSUMPTIONS); "
    "`ordered_is_needed` shows the assumption cannot be dropped",
]
HISTORICAL = [
    "wide cache: finding F9 (stale fill under concurrency) was found by this check and fixed in /repo 5fe68af; the model of the code as it is is WideCacheR "
    "with fix = true (the driver runs it); wide_refines_map_concurrent_fails / wide_concurrent_unrepaired_fails are decide-witnesses of the fixed defect",
    "set cache: finding F50 (a fetch cached a set built from a staging snapshot older than a concurrent write) was found by this check and fixed in /repo "
    "73760b5; set_concurrent_get_insert_fails is the witness on the pre-fix split of get",
    "set_refines_map is a statement about the code as it is: findings F10 (get_snapshot cancelled staged operations in heap order) and F17 "
    "(Spilled iterator ended early) were found by this check and fixed in /repo (d9a4d81, b91d22f); the model's switches fixSnap/fixSpill are "
    "kept, `repaired` (both on) is what the correspondence runs, `asIs` (both off) is the code before the fixes",
    "set_asis_fails_heap_order / _cancel / _committed_op / _spilled: decide-witnesses of the two fixed defects on the pre-fix configuration; "
    "set_refines_map_asis_partial: what the pre-fix code guaranteed (reads inside `getSafe`); both kept as history, neither is about the current code",
]
ASSUMPTIONS = [
    "a pinned entry is not evicted (TinyLFU asks `is_pinned` again under the entry lock) — imported from C16; the model's `evict` is enabled exactly when pin <= 0 "
    "and otherwise unconstrained (any capacity >= 1, any admission decision)",
    "concurrent theorem: `ordered` – a write of a key reaches the cache only from a batch whose epoch exceeds that of every other uncommitted batch that "
    "already wrote the key. This is a USAGE CONSTRAINT of the write-behind design (the store applies batches in epoch order whatever the order of the "
    "writes), not verified for the engine here: what was read in the engine is that every query computation opens its own batch (slow_path.rs), a query's own "
    "node is written under its per-query computing lock, and the input session creates its batch after taking the exclusive phase lock (sync.rs); whether "
    "two overlapping computations can write one wide-column key (e.g. a DirtySetColumn edge) in anti-epoch order was not examined",
    "one foreground task has at most one open write batch at a time, so batch epochs of its writes are non-decreasing in issue order "
    "(with two open batches a write recorded in the lower-epoch batch after a write in the higher-epoch one loses in the store although it wins in the cache; "
    "this usage is outside the theorems and outside the generator)",
    "scc::HashMap entry operations are atomic per key; `KvDatabase::commit` applies a batch atomically; scans are snapshots",
    "the after-commit worker is a single FIFO thread and notifies all wide columns of a batch before its key-of-set columns",
]
TRUSTED_EXTRA = [
    "modelled, not verified: per-key projection of the caches (entries of different keys interact only through eviction, which is abstracted to "
    "'any unpinned entry may vanish at any time'); std BinaryHeap (push = append + sift-up reproduced exactly for the iteration order; "
    "`FlushUpTo` = 'empty the heap iff its maximum is <= epoch', i.e. peek returns a maximum); single-flight / tokio Notify as 'a waiter may retry at any time'; "
    "the staging log's deferred-message queue (only used when a reader holds the log lock concurrently) is not modelled",
    "correspondence without hooks in /repo: HarnessKv (in-memory KvDatabase of the harness) gates `commit`; the key type's `Hash` impl gates the "
    "after-commit thread (first lookup of a batch's flush waits for a `notify` permit) and a trailing sentinel key-of-set column per batch reports completion; "
    "store reads / set fetches / scans during each read are observed and validated against the model (a read that went to the store must be justifiable by an "
    "enabled `evict`; a read that did not must find the entry in the model)",
]
RULE = ("case has at least one background commit and at least one read that went to the store (miss after eviction / streaming / fetch); "
        "distinct by case text")


def _read(p):
    a = open(p, encoding="utf-8", errors="replace").read().split("\n")
    if a and a[-1] == "": a.pop()
    return a


def _run_stream(ctx, binp, tag, seed, n, extra, drv_args):
    out = os.path.join(ctx.work, tag)
    os.makedirs(out, exist_ok=True)
    cmd = [binp, "--seed", str(seed), "--tier", ctx.tier, "--out", out, "--n", str(n)] + extra
    rc, log = vlib.sh(cmd, timeout=3000)
    if rc != 0:
        return {"dir": out, "error": f"harness exit {rc}: {log[-800:]}"}
    rc, err = vlib.run_driver(DRIVER, os.path.join(out, "ops.txt"), os.path.join(out, "model.txt"), drv_args)
    if rc != 0:
        return {"dir": out, "error": f"driver exit {rc}: {err[-400:]}"}
    return {"dir": out}


def _shard(a):
    return _run_stream(*a)


def _collect(res, o, dist):
    """adds report + diff of one stream to res; returns (report, per-case line ranges)"""
    if "error" in o:
        res.disagreements.append({"line": 0, "op": o["dir"], "impl": o["error"], "model": ""})
        return None
    d = o["dir"]
    rep = json.load(open(os.path.join(d, "report.json")))
    res.evaluations += rep["evaluations"]
    res.distinct_nontrivial += rep["distinct_nontrivial"]
    for k, v in rep["distribution"].items():
        if isinstance(v, dict):
            dd = dist.setdefault(k, {})
            for kk, vv in v.items(): dd[kk] = dd.get(kk, 0) + vv
        elif k == "sentinel_column": dist[k] = v
        elif k == "max_set_size": dist[k] = max(dist.get(k, 0), v)
        else: dist[k] = dist.get(k, 0) + v
    if len(res.samples) < 6: res.samples += rep["samples"][:1]
    n, diffs = vlib.diff_streams(os.path.join(d, "impl.txt"), os.path.join(d, "model.txt"), os.path.join(d, "ops.txt"), limit=3)
    res.lines_compared += n
    for x in diffs:
        x["stream"] = os.path.basename(d)
        res.disagreements.append(x)
    if rep["distribution"].get("harness_errors", 0):
        res.disagreements.append({"line": 0, "op": d, "impl": "harness errors: " + json.dumps([f for f in rep["oracle_failures"] if f["sig"] == "panic"][:2])[:600], "model": ""})
    return rep


def run(ctx, boost=1):
    res = vlib.Result()
    res.rule = RULE
    if os.environ.get("VERIF_C09_BIN"):
        # testing aid (sensitivity runs against a private copy of /repo while other checks mutate the shared tree)
        ok, log, dt, binp = True, "", 0.0, os.environ["VERIF_C09_BIN"]
        ctx.notes.append(f"harness binary overridden by VERIF_C09_BIN={binp}")
    else:
        ok, log, dt, binp = vlib.cargo_build(HARNESS_BIN, HARNESS_FEATURES)
    ctx.notes.append(f"cargo build {dt:.1f}s")
    if not ok:
        res.disagreements.append({"line": 0, "op": "cargo build", "impl": log[-1500:], "model": ""})
        return res
    dist = {}
    if ctx.replay:
        o = _run_stream(ctx, binp, "replay", ctx.seed, 1, ["--replay", ctx.replay], [])
        rep = _collect(res, o, dist)
        if rep: res.oracle_failures += [f for f in rep["oracle_failures"]]
        res.distribution = dist
        return res
    # 1. main stream (unrestricted histories; since the fixes of F10/F17 every oracle failure is a violation)
    shards = ctx.jobs
    n = (2500 if ctx.quick() else 30000) * boost
    jobs = [(ctx, binp, f"r{i}", ctx.seed * 1000 + i, n, [], []) for i in range(shards)]
    for o in vlib.shard_map(_shard, jobs, ctx.jobs):
        rep = _collect(res, o, dist)
        if rep: res.oracle_failures += rep["oracle_failures"]
    # 2. the stream restricted to the region in which the pre-fix code was already correct (kept: different op mix)
    nu = (400 if ctx.quick() else 6000) * boost
    jobs = [(ctx, binp, f"u{i}", ctx.seed * 1000 + 500 + i, nu, ["--restricted"], ["assert-safe"]) for i in range(min(shards, 8))]
    for o in vlib.shard_map(_shard, jobs, ctx.jobs):
        rep = _collect(res, o, dist)
        if rep: res.oracle_failures += rep["oracle_failures"]
    # 2b. oracle-only stream with the engine's own set type (Arc<DashSet>) instead of the harness's sorted set
    def _dash(i):
        out = os.path.join(ctx.work, f"d{i}")
        rc, log = vlib.sh([binp, "--seed", str(ctx.seed * 1000 + 900 + i), "--tier", ctx.tier, "--out", out, "--n", str((300 if ctx.quick() else 4000) * boost), "--dash"], timeout=3000)
        return (out, rc, log)
    dash_cases = 0
    for out, rc, log in vlib.shard_map(_dash, list(range(4)), ctx.jobs):
        if rc != 0:
            res.disagreements.append({"line": 0, "op": out, "impl": f"harness exit {rc}: {log[-400:]}", "model": ""}); continue
        rep = json.load(open(os.path.join(out, "report.json")))
        dash_cases += rep["evaluations"]
        res.evaluations += rep["evaluations"]
        res.oracle_failures += rep["oracle_failures"]
    res.extra["oracle_only_cases_with_DashSet"] = dash_cases
    # 3. replays of the fixed findings F10 (three forms) and F17: must run clean now; a failure is a violation
    for i, fn in enumerate(["C09-f10a.txt", "C09-f10b.txt", "C09-f10c.txt", "C09-f13.txt"]):
        p = os.path.join(vlib.VERIF, "corpus", fn)
        if not os.path.exists(p):
            res.disagreements.append({"line": 0, "op": "corpus/" + fn, "impl": "missing corpus file", "model": ""}); continue
        o = _run_stream(ctx, binp, f"c{i}", ctx.seed, 1, ["--replay", p], [])
        rep = _collect(res, o, dist)
        if rep:
            for f in rep["oracle_failures"]:
                f["sig"] = f"corpus/{fn}:{f['sig']}"
                f["desc"] = f"replay corpus/{fn} of a fixed finding fails again: " + f["desc"]
                res.oracle_failures.append(f)
    # 4. two real threads: fill vs write+commit+un-pin+evict (F9, fixed), fill vs pinned write, set fetch vs insert/remove (F50, fixed):
    #    all must run clean; a stale read is a violation
    d = os.path.join(ctx.work, "conc")
    rc, log = vlib.sh([binp, "--stale-fill", "--fill-vs-write", "--set-fill-vs-insert", "--scan-vs-flush", "--n", "0", "--out", d], timeout=600)
    if rc == 0:
        rep = json.load(open(os.path.join(d, "report.json")))
        res.oracle_failures += rep["oracle_failures"]
        res.extra["two_thread_stale_fill"] = rep.get("concurrency", "")
    else:
        res.disagreements.append({"line": 0, "op": "stale-fill scenario", "impl": log[-600:], "model": ""})
    res.extra["historical"] = HISTORICAL
    res.distribution = dist
    res.partial = PARTIAL
    return res


def search(ctx, res):
    """the proof or the tie broke and the oracle saw nothing: boosted search with other seeds"""
    ctx.seed = ctx.seed + 7919
    r2 = run(ctx, boost=4)
    known = {s for e in vlib.load_known(PID) for s in e.get("signatures", [])}
    return [f for f in r2.oracle_failures if f.get("sig") not in known]
