"""C02 — concurrent querying is sound, single-flight and terminates (DESIGN §5.2)."""
import json, os, sys
sys.path.insert(0, os.path.dirname(os.path.dirname(os.path.abspath(__file__))))
import vlib

PID = "C02"
LEAN_MODULES = ["QbiceVerif.Props.C02", "QbiceVerif.Props.C02Walk", "QbiceVerif.Props.C02Join"]
DRIVER = "drv_lts"
HARNESS_BIN = "conc"
HARNESS_FEATURES = ""
PARTIAL = [
    "conc_refines_seq_partial: the end-to-end statement (C02_full_statement: every value returned under concurrency equals the "
    "from-scratch value) is NOT proved; no value-level concurrent model was built. Proved instead, for every interleaving: the "
    "publication log is duplicate-free, a request only returns a published key, and every key is published after all keys its "
    "executor queried, so the concurrent run is a run of the sequential engine (C01) in publication order. The value-level half is "
    "checked on the implementation by the from-scratch oracle on every parallel run.",
    "tiered_set_linearizable: proved for insert_element as it is since /repo e992d9e (toggle fixed=true = the code now). HISTORICAL: for the code "
    "before that fix the statement is refuted (asis_lost_insert_T1 / _T32, asis_insert_not_visible; finding F6, fixed).",
    "the computing-table model covers the cancellation the engine itself performs (the repair of an owner drops the remaining callee "
    "checks of an unordered group; a dropped owner removes its entry and notifies without publishing) but not cancellation of user "
    "requests or executor panics (C05), nor dependency cycles (C06: `check_cyclic` / SCC exit is not modelled; nested requests go to "
    "smaller keys); input sessions between rounds are outside (C04)",
    "trace validation replays hook events through CT.kStep, the model's shared state restricted to one key (the hooks carry no task "
    "identity); hook_traces_accepted proves that every run of the full CT model is accepted by that replay (model traces are inside "
    "kStep traces); the converse (every kStep-accepted trace is a CT trace) is not proved, so trace validation checks the shared-state "
    "protocol, not per-task control flow",
    "snapshot_walk_no_deadlock / snapshot_walk_all_complete / snapshot_walk_visits_snapshot (Props/C02Walk.lean, finding F60): proved on "
    "the WK LTS — ONE backward-edge set (small tier: one vector behind one RwLock), walkers (process_task / invoke_backward_projections) "
    "and writers (insert_element / remove_element of a publication) as tasks on W worker threads, any W >= 1, any number of tasks, any "
    "yield points, any interleaving. It is not composed with the computing-table LTS: all_complete treats `publish` and the executor as "
    "single events, so a combined statement (a CT run whose publish steps contain WK writes and whose firewall executions contain WK "
    "walks completes) is not proved; the walk over several sets (dirty propagation continues into the callers' sets, one task per set) "
    "is covered only as independent instances; the large tier (DashSet, a guard per shard) is not modelled. For the code before eaa75a9 "
    "the statement is refuted: walk_holding_guard_can_deadlock (W = 1, 2 by evaluation; _W4; _any_W: every W >= 1 with one dropper per worker, proved) and reproduced on the real engine (corpus/C02-F60).",
]
ASSUMPTIONS = [
    "state-invariant oracle (no model run exists for these histories): at every quiescent point named in the harness (after every session and after every concurrent round of the engine / walk / multi-epoch families, all tasks joined; runs with the hook sink installed are not dumped) the digest of every key of the real engine (eng::state_digest through the read-only hook qbice::verif::dump_node) is judged (a) in the harness by three model-free consequences of the engine invariant: every node verified in the current epoch stores the from-scratch value for the committed inputs, the backward-edge sets are exactly the inverse of the recorded dependencies, the firewall set of a verified node is the union over its dependencies of ({d} if d is a firewall else tfc(d)) [sigs C02:state-invariant:value|back|tfc], and (b) by the Lean checker of the PROVED invariant (`drv_engine inv` on inv_ops.txt: `inv FAIL <clause> <key>` = oracle failure C02:state-invariant:inv:<clause>); acyclic programs of at most 64 keys; programs with Yield nodes are judged by (a) only",
    "CJ (Model/ChunkJoin.lean, Props/C02Join.lean): the fold over the chunk results of an unordered group is isolated from the sequential model "
    "(Model/Engine.lean repairQuery accumulates `needTfc` the same way, one member after the other); chunk_join_order_independent covers runs "
    "in which no chunk asks for a recompute (a recompute discards the flag); that the real loop is the OR-ing fold is checked by the multi-epoch "
    "concurrent histories (a wrong flag shows as a stale value one edit later), not proved",
    "tokio::sync::Notify::notify_waiters completes exactly the Notified futures created before the call, whether polled or not "
    "(tokio's documented behaviour); scc::HashMap entry_sync/read_sync/remove_sync are linearizable per key and hold the bucket lock "
    "for the whole closure / entry lifetime",
    "tokio::sync::RwLock and parking_lot::RwLock are mutual-exclusion correct and eventually grant every request (fairness) — the "
    "termination theorem shows no reachable state is stuck and every run is finite; it does not model a scheduler",
    "all tasks asking for the lock of one query use the same lock instance (theorem same_lock here over an abstract evicting cache; "
    "C16's pinned_never_evicted / lock_table_same_lock over the real TinyLFU model)",
    "executors issue finitely many nested queries (maxCalls, any bound) to keys of smaller rank (acyclic program)",
    "DashSet::insert/remove/iteration under the outer read lock are modelled as atomic; an iteration is a snapshot taken when the guards are taken "
    "— for the small tier this is no longer only assumed: guarded_iter_is_snapshot / guarded_iter_excludes_writers (RI LTS, Model/RelockIter.lean: "
    "index-based next(), swap_remove, push) prove it for the iterator that owns the vector's read guard for its whole life, and "
    "relocking_iter_misses_present_element(_30) / relocking_iter_yields_duplicate refute it for an iterator that takes the lock per next(); that the "
    "real GuardedVecIterator is of the first kind is checked by the set-level histories (iteration beside removers of low-index elements)",
    "WK (finding F60): a task parked by tokio::task::yield_now is polled again only by a worker thread that is not inside a poll (the model "
    "lets ANY free worker take ANY queued task; tokio is stricter: the worker that owns the task's local queue / deferred list, or a "
    "stealing worker — so the model's deadlock needs every worker blocked, the real runtime hangs earlier); parking_lot::RwLock::write "
    "blocks the calling thread until every read guard is dropped and is granted as soon as none is held; read() is granted between two "
    "events (a writer holds the lock only within one event); a walker parks at most k times, k arbitrary (the code: every 16 edges)",
]
TRUSTED_EXTRA = [
    "modelled, not verified: scc::HashMap, tokio Notify/RwLock, parking_lot RwLock, DashSet (as atomic maps / fair locks); memory-model "
    "effects below the lock/atomic abstraction",
    "hook call sites added in the /repo working tree under --cfg qbice_verif (cl.reg, cl.vacant, cl.none, cl.done, cl.woken, cl.publish, "
    "fp.hit, fp.miss) and the wrapper qbice::verif::BackwardEdgeSet around the crate-private CompressedBackwardEdgeSet (forwards to the "
    "real ConcurrentSet impl); events are numbered by one AtomicU64 inside the critical section; cl.done is emitted between remove_sync "
    "and notify_waiters and stands for both steps; a done without a preceding publish (a cancelled owner) is accepted",
    "the forced F6 schedule on the real set uses no hook: the gate is the BuildHasher type parameter, whose Default::default() the as-is "
    "upgrade calls while holding both locks",
    "parallel runs (2-16 worker threads) explore the interleavings the OS scheduler produces; a parallel-only failure is replayed by re-running its seed",
    "modelled, not verified (WK): tokio's multi-thread / current_thread schedulers (run queues, LIFO slot, deferred wake-ups of yield_now) as "
    "`queued -> running needs busy < W`; parking_lot's blocking write() as `a running writer has no enabled event while readers > 0 and keeps "
    "its worker`; that process_task / invoke_backward_projections hold nothing else across their awaits. The hang itself is detected on the "
    "real engine by an OS-thread watchdog (std mpsc recv_timeout, 20 s) around a runtime built per case — a tokio timeout could not fire "
    "(its timer needs a free worker); the hung runtime's threads are abandoned, the harness process ends normally",
]

RULE = ("per shard (own seed): (f6) the forced 2-thread upgrade race on the real CompressedBackwardEdgeSet; (walk, finding F60) the corpus cases of "
        "corpus/C02-F60 at 0 (= current_thread), 1, 2, 4 workers, then generated 'wide fan-in with droppers' programs: 1-3 groups of a firewall (or a "
        "projection / normal node over it) with 16-40 callers of which 1-8 stop and 0-2 start reading it after the edit, the epoch after the edit "
        "requesting one steady caller per group and every dropper/adder (through a fresh root or directly) concurrently, on 0/1/2/3/4/8 workers; "
        "every second generated case is the read-back sub-family: 3-6 groups on the small tier, droppers at the low indices of the edge vector that read a "
        "slow helper of the firewall once the selector changed (their publications follow the helper's, i.e. meet the firewall's walk), 2-8 workers, and a "
        "third round in the SAME epoch reading every caller back (sig C02:stale-readback-same-epoch); "
        "oracles: from-scratch values, overlap, executed-twice, OS-thread watchdog (sig C02:hang-wide-walk); (mepoch) MULTI-EPOCH concurrent histories: the "
        "cases of eng::gen_layered (unordered aggregator over the selector chain) / gen_pjswitch / gen_program+gen_history with unordered groups, 4-9 "
        "sessions, every round issued as one task per requested key plus 0-3 tasks on random non-input keys on 1/2/4/8 workers, EVERY round of every "
        "epoch judged by the from-scratch oracle, executed-twice per epoch, overlap, watchdog (sigs C02:multi-epoch:stale-value / :exec-twice, "
        "C02:hang-multi-epoch); (tset) sequential op sequences "
        "ins/rem/len/iter over a universe of 1..80 elements crossing the 32-element threshold, answered by implementation and model line by line, "
        "and 2-8 thread histories checked by an independent linearizability oracle (every third history: small tier, 1-4 threads removing/re-inserting "
        "low-index elements in a loop beside 1-3 threads iterating 6-30 times — an iteration must contain every element present during its whole interval, "
        "exactly once: sigs C02:tset-iter-misses-present / C02:tset-iter-duplicate); (trace) parallel engine runs with the hook sink installed, every "
        "event replayed through the model (a non-enabled event = REJECT = correspondence failure); (engine) parallel engine runs on a multi-thread "
        "tokio runtime with 2-16 workers: random acyclic programs (normal+input nodes for value verdicts; firewall/projection programs for "
        "overlap/termination verdicts only), fan-in programs with 1-200 callers of one callee across the 32-caller threshold, wide layered programs with "
        "unordered groups; round 1 of overlapping root queries from many tracked engines (JoinSet), all readers joined, one input session, round 2 "
        "re-querying everything (lost-invalidation detector); oracles: from-scratch value of every returned value, executor overlap detector, "
        "executed-twice-per-round detector, watchdog. Non-trivial: >=2 tasks requested a common key concurrently and the edit changed a value a root read "
        "(engine) / >=2 threads and the history touches the threshold (tset).")


def _shard(args):
    ctx, binp, seed, n, idx = args
    out = os.path.join(ctx.work, f"s{idx}")
    os.makedirs(out, exist_ok=True)
    cmd = [binp, "--seed", str(seed), "--tier", ctx.tier, "--out", out]
    # state dumps after every session and every concurrent round (all tasks joined) of the engine / walk / multi-epoch
    # families (acyclic programs of <= 64 keys): judged in the harness by the state-invariant oracle (C02:state-invariant:*)
    # and written to inv_ops.txt for the Lean checker of the proved engine invariant (`drv_engine inv`)
    state = not os.environ.get("VERIF_NO_STATE_TIE")
    if state: cmd += ["--state"]
    if n: cmd += ["--n", str(n)]
    if ctx.replay and idx == 0:
        cmd += ["--replay", ctx.replay]
    try: os.remove(os.path.join(out, "report.json"))
    except OSError: pass
    rc, log = vlib.sh(cmd, timeout=3000)
    retried = None
    if rc < 0 and not os.path.exists(os.path.join(out, "report.json")):
        # the process was killed by a signal before it wrote its report (seen once: SIGSEGV inside libc's thread code under
        # heavy thread churn, not reproducible in 130 000 further cases): run the shard ONCE more, same seed, and say so
        retried = f"shard {idx} (seed {seed}) died with signal {-rc} and was re-run once"
        rc, log = vlib.sh(cmd, timeout=3000)
    if rc != 0:
        return {"dir": out, "error": f"harness exit {rc}{' (twice)' if retried else ''}: {log[-600:]}"}
    rc, err = vlib.run_driver(DRIVER, os.path.join(out, "ops.txt"), os.path.join(out, "model.txt"))
    if rc != 0:
        return {"dir": out, "error": f"driver exit {rc}: {err[-400:]}"}
    inv = None
    if state:
        from props import engine_common as ec
        inv = ec.inv_check(out, "C02")
        if inv is not None and "error" in inv: return {"dir": out, "error": inv["error"]}
        if inv is not None and not inv["fails"]:
            for f in ("inv_ops.txt", "inv_out.txt"):
                try: os.remove(os.path.join(out, f))
                except OSError: pass
    return {"dir": out, "driver_stats": err.strip(), "retried": retried, "inv": inv}


def _read(p):
    a = open(p, encoding="utf-8", errors="replace").read().split("\n")
    if a and a[-1] == "": a.pop()
    return a


def _merge(dst, src):
    for k, v in src.items():
        if isinstance(v, (int, float)) and not isinstance(v, bool):
            if k.startswith("max_"): dst[k] = max(dst.get(k, 0), v)
            else: dst[k] = dst.get(k, 0) + v
        elif isinstance(v, dict):
            dst[k] = _merge(dst.get(k, {}) if isinstance(dst.get(k), dict) else {}, v)
        elif k not in dst:
            dst[k] = v
    return dst


def run(ctx, boost=1):
    res = vlib.Result()
    res.rule = RULE
    binp = os.environ.get("VERIF_C02_BIN")
    if binp:
        ctx.notes.append(f"prebuilt harness binary {binp} (VERIF_C02_BIN)")
    else:
        ok, log, dt, binp = vlib.cargo_build(HARNESS_BIN, HARNESS_FEATURES)
        ctx.notes.append(f"cargo build {dt:.1f}s")
        if not ok:
            res.disagreements.append({"line": 0, "op": "cargo build", "impl": log[-1500:], "model": ""})
            return res
    if not os.environ.get("VERIF_NO_STATE_TIE"):
        okb, logb, _ = vlib.lean_build(["drv_engine"])      # the checker of the proved engine invariant (`drv_engine inv`)
        if not okb:
            res.disagreements.append({"line": 0, "op": "lake build drv_engine", "impl": logb[-1500:], "model": ""})
            return res
    shards = 1 if ctx.replay else ctx.jobs
    n = int(os.environ.get("VERIF_C02_N", "0")) * boost
    jobs = [(ctx, binp, ctx.seed * 1000 + i, n, i) for i in range(shards)]
    outs = vlib.shard_map(_shard, jobs, ctx.jobs)
    dist, traces, bad_traces, stats = {}, 0, 0, []
    n_traces_rep, n_events_rep = 0, 0
    for o in outs:
        if "error" in o:
            res.disagreements.append({"line": 0, "op": o["dir"], "impl": o["error"], "model": ""})
            continue
        d = o["dir"]
        if o.get("retried"): ctx.notes.append(o["retried"])
        rep = json.load(open(os.path.join(d, "report.json")))
        res.evaluations += rep["evaluations"]
        res.distinct_nontrivial += rep["distinct_nontrivial"]
        _merge(dist, rep.get("distribution", {}))
        n_traces_rep += rep.get("traces", 0); n_events_rep += rep.get("trace_events", 0)
        if len(res.samples) < 6: res.samples += rep["samples"][:1]
        res.oracle_failures += rep["oracle_failures"]
        if o.get("inv"):
            for k, v in o["inv"]["counts"].items(): dist["state_dumps_checked_by_drv_engine_inv:" + k] = dist.get("state_dumps_checked_by_drv_engine_inv:" + k, 0) + v
            res.oracle_failures += o["inv"]["fails"][:3]
        stats.append(o.get("driver_stats", ""))
        ops, imp, mod = _read(os.path.join(d, "ops.txt")), _read(os.path.join(d, "impl.txt")), _read(os.path.join(d, "model.txt"))
        res.lines_compared += len(ops)
        n_lines = max(len(ops), len(imp), len(mod))
        case_start, case_bad = 0, False
        for i in range(n_lines):
            op = ops[i] if i < len(ops) else "<missing>"
            if op == "ct begin" or op.startswith("ts new "):
                if i > 0:
                    traces += 1; bad_traces += case_bad
                case_start, case_bad = i, False
            x = imp[i] if i < len(imp) else "<missing>"
            y = mod[i] if i < len(mod) else "<missing>"
            if x != y:
                if not case_bad and len(res.disagreements) < 20:
                    res.disagreements.append({"line": i + 1, "shard": d, "op": op[:300], "impl": x[:300], "model": y[:300],
                                              "case_first_line": case_start + 1,
                                              "case_prefix": ops[max(case_start, i - 40):i + 1]})
                case_bad = True
        if n_lines:
            traces += 1; bad_traces += case_bad
        if not any(x.get("shard") == d for x in res.disagreements) and not rep["oracle_failures"]:
            for f in ("ops.txt", "impl.txt", "model.txt"):
                try: os.remove(os.path.join(d, f))
                except OSError: pass
    res.traces_validated = traces - bad_traces
    dist["ct_traces"] = n_traces_rep
    dist["ct_trace_events"] = n_events_rep
    dist["driver_stats_per_shard"] = stats[:4]
    res.distribution = dist
    res.partial = PARTIAL
    return res


def search(ctx, res):
    """Proof or correspondence broke without an oracle failure: look harder for a failing input."""
    ctx.notes.append("boosted search (thorough sizes, shifted seeds)")
    saved, saved_tier = ctx.work, ctx.tier
    ctx.work = os.path.join(ctx.work, "boost")
    os.makedirs(ctx.work, exist_ok=True)
    ctx.seed = ctx.seed + 7777
    ctx.tier = "thorough"
    try:
        r2 = run(ctx, boost=1)
    finally:
        ctx.work, ctx.tier = saved, saved_tier
        ctx.seed = ctx.seed - 7777
    return r2.oracle_failures
