"""C01 — incremental answers equal a from-scratch evaluation (DESIGN §5.1)."""
import os, sys
sys.path.insert(0, os.path.dirname(os.path.dirname(os.path.abspath(__file__))))
import vlib
from props import engine_common as ec

PID = "C01"
LEAN_MODULES = ["QbiceVerif.Props.C01", "QbiceVerif.Props.C01Oracle", "QbiceVerif.Props.NonVacuity.C01", "QbiceVerif.Props.NonVacuity.C01Total"]
DRIVER = "drv_engine"
HARNESS_BIN = "engine"
SINGLE = []      # no known finding left for the acyclic engine (F1, F14 fixed by 2abe9f6, b832249)
PARTIAL = [
    "Qbice.CoreFw.core_query_sound_partial / core_inner_query_sound_partial / core_history_sound_partial / "
    "core_*_no_out_of_fuel_partial (all five kinds; ordered reads and unordered groups; transitive-firewall-callee "
    "sets, the trust rule for clean edges, same-epoch propagation from a changed firewall, pending flags, backward "
    "projection as a pedantic repair = the design of the code after the fixes b832249, 2abe9f6 and 22e1f15): proved "
    "under Shape p - every projection that is READ BY a projection has a value-independent read sequence "
    "(projections read firewalls and static projections only; a projection's own reads may be value-dependent, so "
    "dynamic projections sit on top of static chains of any depth; NoProjOverProj.shape and StaticProj.shape are the "
    "two earlier classes). Missing: dynamic projections read by projections (C01_full_statement, "
    "C01_termination_full_statement stay defs: the needed invariant about a reader's OLD observation of a pending "
    "projection is history-dependent; the comment at C01_full_statement states the missing lemma and a candidate "
    "ghost invariant). That class is in the models and is compared with the implementation on every run (generator "
    "family pjchain: 280 000 cases with 0 differences between CoreFw, the full model, the oracle and the "
    "implementation). The firewall-free theorems (Qbice.Core.*) remain as PART 2.",
    "core_query_total_partial / core_history_total_partial: TOTALITY under Shape p - for every well-formed history "
    "(HistOK: sessions set input keys of the program only, rounds ask keys of the program only, the first operation is "
    "a session that sets every input key) the run from the initial state IS .ok (no outOfFuel, badKey, inputNotSet, "
    "badOp) and its outputs are the from-scratch ones (an equation, no Sat); likewise one user request from any Inv "
    "state with all inputs set. core_all_reads_sound_partial / core_history_all_reads_sound_partial: at run level, EVERY "
    "(dependency, value) pair handed to any executor during any user request of any history (readsU / readsRound: a "
    "pure mirror of the uninstrumented model's recursion) is the from-scratch value - also under Shape p. Not covered: "
    "requests while an input key was never set - the model answers .error (.inputNotSet k) (example in Props/C01), the "
    "implementation panics ('Failed to find executor for query'); no generator produces that path (every generated "
    "history sets all inputs in its first session), so it is not compared with the implementation.",
]
ASSUMPTIONS = [
    "state-level tie (engine_common.analyse): after every session / round the digest of the real engine's persistent "
    "bookkeeping (per node: kind, verified in this epoch, stored value, recorded dependencies in order, observations "
    "and whether each is still current, dirty edges from the node to ANY key, transitive firewall set, pending "
    "backward projection, callers), read through the read-only hook qbice::verif::dump_node, must equal the digest of "
    "the full model's state; strict for cases without order choice points, not judged (counted) for the others. Not in "
    "the digest: the per-epoch dirtied_queries set, the computing table and lock tables (empty between ops), raw "
    "fingerprints and timestamps (only equalities expressible through keys)",
    "fingerprints are injective on the values of a run (value = fingerprint in the models; C13)",
    "sequential driving of the engine (one task at a time; concurrency is C02)",
]
TRUSTED_EXTRA = [
    "modelled, not verified: tokio runtime, scc/dashmap containers, the in-memory storage engine (treated as maps)",
    "as-is full model and implementation may differ on cases where known finding F1 manifests on one side only "
    "(the code repairs transitive firewall callees in hash-set order, the model in key order); such cases are "
    "excused only if the all-toggles-repaired model meets the oracle on them",
]
NAMES = {"f1": "F1", "f14": "F14", "f1+f14": "F1+F14"}


def collect(ctx, mode="acyclic", n_quick=400, n_thorough=20000, state=True):
    results, err = ec.run_all(ctx, mode, n_quick, n_thorough, SINGLE, state=state)
    res = vlib.Result()
    if err:
        res.disagreements.append({"harness-error": err[:2000]})
        return res, []
    n_pjchain = 0
    if mode == "acyclic" and not ctx.replay:
        # the stress family of DESIGN 10.2 (projections over projections with value-dependent reads): a slice of it on
        # every run, all ties included (values / executor sets / core model / state digests); `acyclic` itself
        # already interleaves the `layered` (every 6th case) and `pjswitch` (every 12th) families
        r2, err = ec.run_all(ctx, "pjchain", max(20, n_quick // 8), max(200, n_thorough // 10), SINGLE, state=state)
        if err:
            res.disagreements.append({"harness-error": err[:2000]})
            return res, []
        n_pjchain = sum(r["report"]["evaluations"] for r in r2)
        results = results + r2
    an = [ec.analyse(r, SINGLE) for r in results]
    reps = [r["report"] for r in results]
    # the PROVED engine invariant (Props/C01Oracle.lean: inv_dump_sound / inv_dump_refutes) evaluated by the Lean
    # checker `drv_engine inv` on every dumped state of the REAL engine (acyclic cases; all order classes: the
    # invariant does not depend on walk orders)
    inv_counts, inv_fails = {}, []
    if state:
        import glob, subprocess, sys as _sys
        for d in sorted(glob.glob(os.path.join(ctx.work, "acyclic-*")) + glob.glob(os.path.join(ctx.work, "pjchain-*"))):
            if not os.path.exists(os.path.join(d, "state_impl.txt")): continue
            with open(os.path.join(d, "inv_ops.txt"), "w") as fh:
                subprocess.run([_sys.executable, os.path.join(os.path.dirname(os.path.dirname(os.path.abspath(__file__))), "inv_join.py"), os.path.join(d, "ops.txt"),
                                os.path.join(d, "state_impl.txt")], stdout=fh, check=False)
            r = ec.inv_check(d, PID)
            if r is None: continue
            if "error" in r:
                res.disagreements.append({"harness-error": r["error"]}); continue
            for k, v in r["counts"].items(): inv_counts[k] = inv_counts.get(k, 0) + v
            inv_fails += r["fails"]
    res.evaluations = sum(r["evaluations"] for r in reps)
    res.distinct_nontrivial = sum(r["distinct_nontrivial"] for r in reps)
    res.rule = reps[0]["rule"]
    res.samples = reps[0]["samples"][:3]
    res.lines_compared = sum(a["lines"] for a in an)
    dist = {}
    for r in reps:
        for k, v in r["distribution"].items(): dist[k] = dist.get(k, 0) + v
    dist["cases_of_family_pjchain"] = n_pjchain
    dist["core_model_lines_compared"] = sum(a["core_lines"] for a in an)
    dist["cases_entirely_in_core_fragment"] = sum(a["core_cases"] for a in an)
    dist["cases_where_impl_violates_oracle"] = sum(len(a["impl_fail_cases"]) for a in an)
    dist["cases_where_asis_model_violates_oracle"] = sum(a["model_asis_unsound_cases"] for a in an)
    dist["disagreements_excused_by_known_finding_order_dependence"] = sum(a["excused_disagree"] for a in an)
    dist["cases_with_order_choice_points"] = sum(a["order_sensitive_cases"] for a in an)
    dist["order_sensitive_cases_matching_descending_model"] = sum(a["order_matched_desc"] for a in an)
    dist["order_sensitive_cases_matching_a_searched_order"] = sum(a["order_matched_tape"] for a in an)
    dist["order_sensitive_cases_matching_in_values_only"] = sum(a["order_values_only"] for a in an)
    dist["order_sensitive_cases_matching_no_order_(oracle_only)"] = sum(a["order_unresolved"] for a in an)
    dist["cases_compared_strictly"] = sum(a["cases"] - a["order_sensitive_cases"] for a in an)
    # state-level tie (engine_common.analyse): digest of the real engine's bookkeeping = digest of the model state
    dist["state_lines_compared"] = sum(a["state_lines"] for a in an)
    for k, v in sorted(inv_counts.items()): dist["proved_invariant_on_real_states:" + k.replace(" ", "_")] = v
    for f in inv_fails[:6]:
        res.oracle_failures.append({"sig": f["sig"], "desc": f["desc"], "case": f["case"]})
    dist["state_node_records_compared"] = sum(a["state_nodes"] for a in an)
    dist["state_cases_compared_strictly"] = sum(a["state_cases"] for a in an)
    dist["state_cases_skipped_order_sensitive"] = sum(a["state_skipped_cases"] for a in an)
    dist["state_lines_skipped_order_sensitive"] = sum(a["state_skipped_lines"] for a in an)
    dist["state_order_sensitive_cases_equal_to_ascending_model"] = sum(a["state_os_match_asc"] for a in an)
    dist["state_order_sensitive_cases_equal_to_descending_model"] = sum(a["state_os_match_desc"] for a in an)
    dist["state_order_sensitive_cases_equal_to_neither_(not_judged)"] = sum(a["state_os_match_neither"] for a in an)
    dist["state_cases_without_digest_(beyond_per_shard_cap_or_crashed)"] = sum(a["state_cases_without_digest"] for a in an)
    dist["state_disagreements"] = sum(len(a["state_disagree"]) for a in an)
    res.distribution = dist
    return res, an


def run(ctx):
    res, an = collect(ctx)
    for a in an:
        for who, recs in a["attributed"].items():
            for r in recs[:1]:
                res.oracle_failures.append({"sig": "C01:attributed:" + who, "desc": f"stale value: {r['line']} -> {r['impl']} expected {r['expected']}", "case": r["case"]})
        for r in a["unexplained"]:
            res.oracle_failures.append({"sig": "C01:value-unexplained", "desc": f"{r['line']} -> {r['impl']} expected {r['expected']} (not repaired by any known-finding toggle)", "case": r["case"]})
        for d in a["disagree"]:
            res.disagreements.append({"model": "full as-is", **d})
        for d in a["core_disagree"]:
            res.disagreements.append({"model": "core", **d})
        for d in a["state_disagree"][:3]:
            res.disagreements.append({"tie": "state digest, full as-is model", **d})
    # crashes / set-result failures reported by the harness oracle itself
    return res


def search(ctx, res):
    # boosted search: 10x cases
    ctx.notes.append("boosted search after broken proof/correspondence")
    # (the search looks for an input on which the implementation breaks the PROPERTY: oracle only, no state digests)
    res2, an = collect(ctx, n_quick=4000, n_thorough=40000, state=False)
    out = []
    for a in an:
        for r in a["unexplained"]:
            out.append({"sig": "C01:value-unexplained", "desc": f"{r['line']} -> {r['impl']} expected {r['expected']}", "case": r["case"]})
    return out[:3]
