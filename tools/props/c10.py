"""C10 — write-behind applies every batch exactly once, in order, by shutdown (DESIGN §5.10)."""
import json, os, sys
sys.path.insert(0, os.path.dirname(os.path.dirname(os.path.abspath(__file__))))
import vlib

PID = "C10"
LEAN_MODULES = ["QbiceVerif.Props.C10"]
DRIVER = "drv_wb"
HARNESS_BIN = "wb"
HARNESS_FEATURES = ""
PARTIAL = [
    "drain_on_drop_all / final_content carry the hypothesis `hall` (every created batch was submitted before the drop): "
    "that is the precondition the property itself states ('by shutdown'); drain_on_drop needs no such hypothesis and "
    "stall_iff_gap / abort_only_on_gap say what happens when a created batch is never submitted.",
]
ASSUMPTIONS = [
    "every WriteBatch is submitted at most once and only while the WriteBehind is alive (Rust move semantics / "
    "`&mut self` of Drop): the model's `submit e` is enabled only for a created, not yet submitted epoch before the drop starts",
    "crossbeam unbounded channels are linearizable FIFO queues; `recv` fails only when the queue is empty and every sender is dropped; "
    "`JoinHandle::join` returns after the thread's last step",
    "`KvDatabase::WriteBatch::commit` applies the consumed buffers atomically in consumption order (the contract of kv_database.rs; C11 checks it for the real backends)",
    "the cache callbacks run by the after-commit worker (`WideColumnCache::flush` / `KeyOfSetCache::flush`) do not panic "
    "(a panic there — cf. F4 in tiny_lfu::Policy::unpin — would make the commit worker's `send(..).unwrap()` fail and abort the process)",
    "store keys of the writes of one batch are pairwise distinct because the batch is a hash map per (column, value type) and the "
    "composite-key encoding is injective (C11)",
]
TRUSTED_EXTRA = [
    "modelled, not verified: channels, thread joins, the AtomicBool/AtomicU64 (SeqCst) and BinaryHeap (as 'some minimum-epoch element'); "
    "one model event per channel operation / store call; serialization of a batch (`write_to_db`) is one event whose buffer is any permutation of the batch",
    "process abort (panic while unwinding: `assert!(holdback_queues.is_empty())` followed by `WriteBatch::drop` of a held-back active batch; "
    "`send().unwrap()` with no receiver) is the terminal state `crashed`; confirmed on the real code in child processes on every run",
    "the buffer pool (thread-local recycling of WriteBatch objects) and the cache pin counts touched by after-commit are not modelled; "
    "after-commit is modelled only as 'notified or deactivated'",
    "trace validation without hooks in /repo: the harness observes create/submit (inside a harness lock around the real call), every call the "
    "pipeline makes into the store (buffer creation and writes on the serializer threads; consume, should_write_more, commit on the commit "
    "thread) and drop begin/end; channel sends/receives are not observable: the Lean driver fires them eagerly between observed events, each "
    "through the checked `step` (so the replay is a genuine model run with the same observations), and `take` events are placed by the harness from FIFO order. "
    "The real arrival order at the commit worker is therefore not compared (proposed add-only hook: emit the epoch after `receiver.recv()` in commit_worker)",
    "which logical batch a serialization buffer belongs to is read from tags carried by the harness's key/value types (invisible to Eq/Hash); "
    "for an empty batch it is inferred from the consumption position",
]

RULE = ("seeded cases: 1-8 serializer workers, 1-8 user threads creating (epoch order fixed by a harness critical section around the real "
        "new_write_batch), filling through the real CacheSingleMap/CacheKeyOfSetMap and submitting 0-48 (thorough: 0-120) batches in a "
        "per-thread random order with up to 6 batches held back per thread; 1-5 keys x 2 value types x 1-3 set elements (heavy overlap), ~6% "
        "empty batches; should_write_more policy never/always/size threshold/random; per-batch serializer delays (none, random, "
        "decreasing with epoch, every third, sparse) to force out-of-order arrival; plus per shard 9 (thorough 30) child-process scenarios "
        "(no serializer; a created batch never submitted; only the last one never submitted).  Non-trivial: >= 2 batches and submission "
        "order != creation order or serializations completed out of epoch order.  Distinct: hash of (plan, policy, workers, threads).")


def _shard(args):
    ctx, binp, seed, n, idx = args
    out = os.path.join(ctx.work, f"s{idx}")
    os.makedirs(out, exist_ok=True)
    cmd = [binp, "--seed", str(seed), "--tier", ctx.tier, "--out", out, "--n", str(n)]
    if ctx.replay and idx == 0:
        cmd += ["--replay", ctx.replay]
    rc, log = vlib.sh(cmd, timeout=3000)
    if rc != 0:
        return {"dir": out, "error": f"harness exit {rc}: {log[-600:]}"}
    rc, err = vlib.run_driver(DRIVER, os.path.join(out, "ops.txt"), os.path.join(out, "model.txt"))
    if rc != 0:
        return {"dir": out, "error": f"driver exit {rc}: {err[-400:]}"}
    return {"dir": out, "driver_stats": err.strip()}


def _read(p):
    a = open(p, encoding="utf-8", errors="replace").read().split("\n")
    if a and a[-1] == "": a.pop()
    return a


def run(ctx, boost=1):
    res = vlib.Result()
    res.rule = RULE
    ok, log, dt, binp = vlib.cargo_build(HARNESS_BIN, HARNESS_FEATURES)
    ctx.notes.append(f"cargo build {dt:.1f}s")
    if not ok:
        res.disagreements.append({"line": 0, "op": "cargo build", "impl": log[-1500:], "model": ""})
        return res
    shards = 1 if ctx.replay else ctx.jobs
    n = (2000 if ctx.quick() else 12000) * boost
    jobs = [(ctx, binp, ctx.seed * 1000 + i, n, i) for i in range(shards)]
    outs = vlib.shard_map(_shard, jobs, ctx.jobs)
    dist, traces, bad_traces, heap_stats = {}, 0, 0, []
    for o in outs:
        if "error" in o:
            res.disagreements.append({"line": 0, "op": o["dir"], "impl": o["error"], "model": ""})
            continue
        d = o["dir"]
        rep = json.load(open(os.path.join(d, "report.json")))
        res.evaluations += rep["evaluations"]
        res.distinct_nontrivial += rep["distinct_nontrivial"]
        for k, v in rep["distribution"].items(): dist[k] = dist.get(k, 0) + v
        if len(res.samples) < 6: res.samples += rep["samples"][:1]
        res.oracle_failures += rep["oracle_failures"]
        heap_stats.append(o.get("driver_stats", ""))
        ops, imp, mod = _read(os.path.join(d, "ops.txt")), _read(os.path.join(d, "impl.txt")), _read(os.path.join(d, "model.txt"))
        res.lines_compared += len(ops)
        n_lines = max(len(ops), len(imp), len(mod))
        case_start, case_bad = 0, False
        for i in range(n_lines):
            op = ops[i] if i < len(ops) else "<missing>"
            if op.startswith("new "):
                if i > 0:
                    traces += 1; bad_traces += case_bad
                case_start, case_bad = i, False
            x = imp[i] if i < len(imp) else "<missing>"
            y = mod[i] if i < len(mod) else "<missing>"
            if x != y:
                if not case_bad and len(res.disagreements) < 20:
                    res.disagreements.append({"line": i + 1, "shard": d, "op": op[:300], "impl": x[:300], "model": y[:300],
                                              "case_first_line": case_start + 1,
                                              "case_prefix": ops[case_start:i + 1][-40:]})
                case_bad = True
        if n_lines:
            traces += 1; bad_traces += case_bad
        if not any(x.get("shard") == d for x in res.disagreements) and not rep["oracle_failures"]:
            for f in ("ops.txt", "impl.txt", "model.txt"):      # large; kept only when something went wrong
                try: os.remove(os.path.join(d, f))
                except OSError: pass
    res.traces_validated = traces - bad_traces
    # distinctness across shards: shards use different seeds; the harness already deduplicates inside a shard
    dist["driver_stats_per_shard"] = heap_stats[:4]
    res.distribution = dist
    res.partial = PARTIAL
    return res


def search(ctx, res):
    """Proof or correspondence broke without an oracle failure: look harder for a failing input."""
    ctx.notes.append("boosted search x10")
    saved = ctx.work
    ctx.work = os.path.join(ctx.work, "boost")
    os.makedirs(ctx.work, exist_ok=True)
    ctx.seed = ctx.seed + 7777
    try:
        r2 = run(ctx, boost=10)
    finally:
        ctx.work = saved
        ctx.seed = ctx.seed - 7777
    return r2.oracle_failures
