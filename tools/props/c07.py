"""C07 — state survives a clean restart and is reused, not recomputed (DESIGN §5.7).

Also holds the machinery shared with C08 (same harness bin `persist`, same Lean driver `drv_persist`).
"""
import json, os, subprocess, sys
sys.path.insert(0, os.path.dirname(os.path.dirname(os.path.abspath(__file__))))
import vlib
from props import engine_common as ec

PID = "C07"
LEAN_MODULES = ["QbiceVerif.Props.C07"]
DRIVER = "drv_persist"
HARNESS_BIN = "persist"
HARNESS_FEATURES = ""
SINGLE = []   # F1 / F14 are fixed in /repo (2abe9f6, b832249): no known-finding toggle is left for attribution
PARTIAL = [
    "restart_transparent / restart_no_exec / restart_sound are proved in full on the core model Qbice.Core (inputs, "
    "normal queries, externals, unordered groups), restart_transparent_fw in full and restart_sound_fw_partial (programs "
    "without a projection over a projection, as C01's theorem) on the extended core model Qbice.CoreFw (all five kinds): "
    "any number of restarts at arbitrary positions leaves values, set_input results and the executor invocations of "
    "every round unchanged, and the outputs are the from-scratch ones.  These models have no walk order of "
    "backward-edge sets and no per-epoch dirtied set.  For the FULL sequential model (Model/Engine.lean: hash-set walk "
    "orders, dirtied_queries, computing table) transparency is not a theorem: it is tied to the code by the "
    "correspondence; restart_mid_epoch_witness records that it was false before the F1 fix (former finding F20) and "
    "holds on that history now.",
    "executor invocations across a restart: before the F13 repair (22e1f15) projection nodes re-executed by backward "
    "projection depended on the walk order of a backward-edge set, which differs after the set was reloaded from the "
    "store (formerly attributed to F13); the classification code is kept, but nothing is listed any more: any such "
    "difference is a VIOLATION.",
    "store_is_image / reload_is_restart take as hypothesis that every change of the stored part has been published "
    "(syncedB) and restart_loses_only_dirtied that nothing is in flight (Quiescent); for the full model both are "
    "validated by the Lean driver after every operation of every generated history (` !unsynced` / ` !busy` flags in "
    "the compared stream), not proved as invariants of the mutual recursion.",
    "the batch of a publication is the difference of the persistent images before and after it, per stored map; which "
    "Rust call writes which cell is tied to the code by the correspondence (values, executor invocations, number of "
    "logical batches at every shutdown up to the first walk-order choice point, byte-equality of the final store with "
    "and without restarts, and — C08 — one reopened engine per prefix of the commit log), not by a theorem.",
    "sequential histories only: sessions are opened only when no query is running; the one concurrent scenario (former "
    "finding F8, fixed in /repo by the lock-first reordering) is replayed by every run (mode f8).  Restarts right after "
    "concurrent or cancelled work are not generated; the thorough tier repeats a sample on RocksDB only (not Fjall).",
    "vacuum thread of the interner, spawn_blocking drops at shutdown, RocksDB/Fjall themselves are outside the model.",
]
ASSUMPTIONS = [
    "fingerprints are injective on the values of a run (value = fingerprint in the models; C13)",
    "sequential driving of the engine (one task at a time); sessions opened only when no query is running",
    "lower layers as hypotheses discharged elsewhere: the caches return the latest write (C09), the write-behind "
    "pipeline applies every batch once, in creation order, by the time drop returns (C10), distinct logical keys are "
    "distinct store keys (C11, C14), values round-trip through the codec (C12), fingerprints are process-independent (C13)",
    "same hasher seed and same executors (program) after the restart",
]
TRUSTED_EXTRA = [
    "modelled, not verified: tokio runtime, the storage caches and the write-behind pipeline (treated as maps + an "
    "ordered batch log), the harness's in-memory KvDatabase (harness/src/kvmem.rs)",
    "Model/EnginePersist.lean is a copy of the engine functions of Model/Engine.lean with `publish` markers; the copy "
    "is tied to the code by the same correspondence (it IS the model run here)",
    "thorough tier: RocksDB itself (supporting validation only)",
]

ALL = ec.ALL_TOGGLES


# ---------------------------------------------------------------- the persist model follows the engine model
# Model/EnginePersist.lean = Model/Engine.lean's engine functions + a `publish` after each of the four places where
# the code submits a write batch.  The engine functions are not copied by hand: the text between the markers in
# EnginePersist.lean is regenerated from Engine.lean before every run, so an edit of the engine model cannot leave the
# persistence model behind (if an anchor disappears the generation fails loudly).
import re
BEGIN = "-- BEGIN GENERATED (tools/props/c07.py gen_persist_model) — do not edit between the markers"
END = "-- END GENERATED"
NAMES = ["queryFor", "queryLoop", "repairTfc", "invokeBackwardProjections", "checkCallee", "repairQuery", "runProg",
         "executeQuery", "userQuery", "session", "round"]

def cut(src, start_pat, end_pat):
    i = src.index(start_pat)
    j = src.index(end_pat, i)
    return src[i:j]

def gen_persist_model(engine=None, target=None):
    engine = engine or os.path.join(vlib.LEAN, "QbiceVerif", "Model", "Engine.lean")
    target = target or os.path.join(vlib.LEAN, "QbiceVerif", "Model", "EnginePersist.lean")
    src = open(engine).read()
    block = cut(src, "mutual\n", "\nend\n") + "\nend\n"
    user = cut(src, "/-- `TrackedEngine::query` from the user", "inductive Write")
    sess = cut(src, "/-- One input session", "-- ------------------------------------------------------------------ specification")
    txt = block + "\n" + user + sess
    for n in NAMES:
        txt = re.sub(r"(?<![\w.`_])" + n + r"\b(?!`)", n + "P", txt)
    txt = txt.replace("(← get)", "(← getS)").replace("let s ← get\n", "let s ← getS\n")
    txt = re.sub(r"\bmodify fun s =>", "modifyS fun s =>", txt)
    txt = re.sub(r"(\s)set \{", r"\1setS {", txt)
    txt = re.sub(r"\bthrowE\b", "throwP", txt)
    txt = re.sub(r"(:|→) M (?=[A-Z(])", r"\1 MP ", txt)
    txt = re.sub(r"\bonPanic\b", "onPanicP", txt)
    txt = re.sub(r"\) \((undoRegister [^()\n]*|popComputing [^()\n]*)\)", r") (liftE (\1))", txt)
    # the four places where the code submits a write batch are marked in Model/Engine.lean by comment lines
    # `-- @publish <label>`; each becomes a `publish` call in the copy
    marks = re.findall(r"^[ \t]*-- @publish .*$", txt, flags=re.M)
    if len(marks) != 4:
        raise RuntimeError(f"gen_persist_model: expected 4 `-- @publish` markers in Model/Engine.lean, found {len(marks)}")
    txt = re.sub(r"^([ \t]*)-- @publish (.*)$", r"\1publish   -- \2", txt, flags=re.M)
    cur = open(target).read()
    i = cur.index(BEGIN) + len(BEGIN)
    j = cur.index(END)
    new = cur[:i] + "\n\n" + txt.rstrip() + "\n\n" + cur[j:]
    if new != cur:
        open(target, "w").write(new)
        return True
    return False



def pre(ctx):
    if gen_persist_model():
        ctx.notes.append("Model/EnginePersist.lean regenerated from Model/Engine.lean")


def run_shard(binpath, mode, seed, tier, n, outdir, replay=None, extra=()):
    os.makedirs(outdir, exist_ok=True)
    for f in ("norestart.txt",):
        try: os.remove(os.path.join(outdir, f))
        except FileNotFoundError: pass
    cmd = [binpath, "--seed", str(seed), "--tier", tier, "--out", outdir, "--mode", mode] + list(extra)
    if n is not None: cmd += ["--n", str(n)]
    if replay: cmd += ["--replay", replay]
    p = subprocess.run(cmd, stdout=subprocess.PIPE, stderr=subprocess.STDOUT, text=True, timeout=7200)
    if p.returncode != 0:
        return {"error": f"harness exited {p.returncode}: {p.stdout[-2000:]}"}
    outs = {}
    for name, args in [("asis", []), ("desc", ["desc"])]:
        path = os.path.join(outdir, f"model_{name}.txt")
        rc, err = vlib.run_driver("drv_persist", os.path.join(outdir, "ops.txt"), path, args)
        if rc != 0:
            return {"error": f"driver {name} exited {rc}: {err[-1000:]}"}
        outs[name] = open(path).read().split("\n")
    rd = lambda f: open(os.path.join(outdir, f)).read().split("\n")
    n_ops = len(rd("ops.txt"))
    for k in outs:     # a truncated model stream shows up as disagreements, not as an exception
        outs[k] = outs[k] + ["<missing>"] * max(0, n_ops - len(outs[k]))
    return {"ops": rd("ops.txt"), "impl": rd("impl.txt") + ["<missing>"] * 2, "expect": rd("expect.txt") + [""] * 2, "models": outs,
            "report": json.load(open(os.path.join(outdir, "report.json"))), "dir": outdir}


def is_op(l):
    return l.startswith(("session", "round", "restart", "crash", "shutdown"))


def values_agree(ops, impl, model, idx, first_choice):
    """order-sensitive case: values of every operation agree; after the first choice point the batch counts (and hence
    which image a `crash L` line addresses) depend on the walk order and are not compared"""
    skip_next_round = False
    for j in idx:
        o = ops[j]
        if j > first_choice and o.startswith(("restart", "shutdown")): continue
        if j > first_choice and o.startswith("crash"):
            skip_next_round = impl[j] != model[j]
            continue
        if o.startswith("round") and skip_next_round:
            skip_next_round = False
            continue
        if ec.vals(impl[j]) != ec.vals(model[j]): return False
    return True


def analyse(sh):
    """tie (model vs implementation) + from-scratch oracle, case by case.  No attribution is left: a value that is
    not the from-scratch value — before or after a restart / crash — is a violation."""
    ops, impl, exp = sh["ops"], sh["impl"], sh["expect"]
    raw = sh["models"]["asis"]
    asis = [ec.strip(l) for l in raw]
    desc = [ec.strip(l) for l in sh["models"]["desc"]]
    res = {"cases": 0, "lines": 0, "disagree": [], "order_sensitive_cases": 0, "order_matched_desc": 0, "order_unresolved": 0,
           "impl_fail_cases": 0, "impl_fail": []}
    for (a, b) in ec.split_cases(ops):
        idx = [i for i in range(a, b) if is_op(ops[i])]
        if not idx: continue
        res["cases"] += 1
        res["lines"] += len(idx)
        text = "\n".join(ops[a:b])
        order_sensitive = any(raw[i].endswith(" ~") for i in idx) or any(desc[i] != asis[i] for i in idx)
        if order_sensitive: res["order_sensitive_cases"] += 1
        dis = [i for i in idx if impl[i] != asis[i]]
        # the number of batches published after a choice point depends on the walk order too (a projection that is
        # reached first as a callee is cleaned — one `clean_query` batch — where the walk would have re-executed it)
        first_choice = min([i for i in idx if raw[i].endswith(" ~") or desc[i] != asis[i]], default=len(ops))
        if dis:
            i = dis[0]
            if order_sensitive and all(impl[j] == desc[j] for j in idx): res["order_matched_desc"] += 1
            elif order_sensitive and values_agree(ops, impl, asis, idx, first_choice):
                # the code walked a >= 2-element firewall / projection set in an order that is neither ascending nor
                # descending (the model cannot reproduce it): values agree, invocations are judged by the oracle only
                res["order_unresolved"] += 1
            else: res["disagree"].append({"case": text, "op": ops[i], "impl": impl[i], "model": asis[i]})
        # from-scratch oracle on values
        vidx = [i for i in idx if ops[i].startswith(("session", "round"))]
        bad = [i for i in vidx if ec.vals(impl[i]) != exp[i]]
        if bad:
            res["impl_fail_cases"] += 1
            res["impl_fail"].append({"case": text, "line": ops[bad[0]], "impl": impl[bad[0]], "expected": exp[bad[0]]})
    return res


def classify_restart_difference(ctx, case_text, tag):
    """A case where the executor invocations of the run WITH restarts differ from the run WITHOUT.
    Returns ("F13", why) iff ALL of:
      * every value (and set_input result) of both runs is the from-scratch one (so the two runs return the same values);
      * the invocation multisets differ only in PROJECTION nodes;
      * the difference is at a choice point of backward projection: the as-is model, which is transparent to restarts
        under a FIXED walk order of the backward-projection set, marks the operation as walking a >= 2-element set, and
        (when the set has two elements) the two runs are exactly the model's two walk orders.
    That is finding F13 (C03: backward projection re-executes every projection above a changed firewall
    unconditionally) seen through a restart: the backward-edge set is reloaded from the store in another order, and
    whether a projection is re-executed by backward projection or merely cleaned as a callee of one that ran before it
    depends on that order.  Anything else: (None, why) = a violation."""
    d = os.path.join(ctx.work, f"attr-{tag}")
    os.makedirs(d, exist_ok=True)
    rp = os.path.join(d, "case.txt")
    open(rp, "w").write(case_text)
    binpath = os.environ.get("VERIF_PERSIST_BIN") or os.path.join(vlib.HARNESS, "target", "release", "persist")
    sh = run_shard(binpath, "c07", 0, "quick", None, d, replay=rp)
    if "error" in sh: return None, sh["error"]
    ops, impl, exp = sh["ops"], sh["impl"], sh["expect"]
    kinds = {l.split()[1]: l.split()[2] for l in ops if l.startswith("node ")}
    raw_b = sh["models"]["asis"]
    mb = {"asis": [ec.strip(l) for l in raw_b], "desc": [ec.strip(l) for l in sh["models"]["desc"]]}
    idx = [i for i in range(len(ops)) if ops[i].startswith(("session", "round"))]
    nr = [l for l in ops if l not in ("restart", "shutdown")]
    nr_ops = os.path.join(d, "ops_norestart.txt")
    open(nr_ops, "w").write("\n".join(nr))
    ma, raw_a = {}, []
    for name, args in (("asis", []), ("desc", ["desc"])):
        mp = os.path.join(d, f"model_norestart_{name}.txt")
        rc, err = vlib.run_driver("drv_persist", nr_ops, mp, args)
        if rc != 0: return None, err
        lines = open(mp).read().split("\n")
        if name == "asis": raw_a = lines
        ma[name] = [ec.strip(l) for l in lines]
    # the two runs as the harness observed them (the walk order of a reloaded set is timing dependent: a replay need not
    # reproduce the same pair); the replay above is used for the op list and the from-scratch expectations only
    a_impl = [l.split("\t")[2] for l in case_text.split("\n") if l.startswith("#A\t")]
    b_impl = [l.split("\t")[2] for l in case_text.split("\n") if l.startswith("#B\t")]
    k = [i for i in range(len(nr)) if nr[i].startswith(("session", "round"))]
    if len(a_impl) != len(k) or len(b_impl) != len(idx) or len(k) != len(idx): return None, "the two runs stopped at different operations"
    if a_impl == b_impl: return None, "no difference recorded"
    # (1) values
    for j in range(len(idx)):
        if ec.vals(b_impl[j]) != exp[idx[j]] or ec.vals(a_impl[j]) != exp[idx[j]]:
            return None, f"a value is not the from-scratch one at `{ops[idx[j]]}`"
    # (2) only projection nodes, (3) at a choice point
    execs = lambda l: sorted(l.split(" |", 1)[1].split()) if " |" in l else []
    for j in range(len(idx)):
        ea, eb = execs(a_impl[j]), execs(b_impl[j])
        if ea == eb: continue
        diff = [x for x in set(ea) | set(eb) if ea.count(x) != eb.count(x)]
        if any(kinds.get(x) != "pj" for x in diff):
            return None, f"`{ops[idx[j]]}`: invocations of non-projection nodes differ: {sorted(diff)}"
        if not (raw_b[idx[j]].endswith(" ~") or raw_a[k[j]].endswith(" ~")):
            return None, f"`{ops[idx[j]]}`: invocations differ {ea} vs {eb} but the model walks no unordered set there"
    transparent = all([ma[o][i] for i in k] == [mb[o][i] for i in idx] for o in ("asis", "desc"))
    if not transparent:
        return None, "the model itself is not transparent to the restarts under a fixed walk order"
    b_ok = [o for o in ("asis", "desc") if [mb[o][i] for i in idx] == b_impl]
    a_ok = [o for o in ("asis", "desc") if [ma[o][i] for i in k] == a_impl]
    return "F13", ("values equal and from-scratch; only projection nodes differ, at a backward-projection choice point; " +
                   (f"the runs are the model's {a_ok[0]} (without) and {b_ok[0]} (with restarts) walk orders" if a_ok and b_ok
                    else "the code's walk order of a > 2-element set is not one of the model's two"))


def collect(ctx, mode, n_quick, n_thorough, extra=()):
    if os.environ.get("VERIF_PERSIST_BIN"):      # sensitivity runs: a harness prebuilt against a private, mutated copy of /repo
        ok, out, dt, binpath = True, "", 0.0, os.environ["VERIF_PERSIST_BIN"]
    else:
        # thorough tier: one binary with the real backends compiled in (RocksDB sample), used for every mode
        ok, out, dt, binpath = vlib.cargo_build("persist", "" if ctx.quick() else "backends")
    ctx.notes.append(f"cargo build persist {dt:.1f}s" + (" (VERIF_PERSIST_BIN)" if os.environ.get("VERIF_PERSIST_BIN") else ""))
    res = vlib.Result()
    if not ok:
        res.disagreements.append({"harness-error": "harness build failed:\n" + out[-3000:]})
        return res, [], []
    n = n_quick if ctx.quick() else n_thorough
    shards = [0] if ctx.replay else list(range(ctx.jobs))
    def one(i):
        # the corpus (minimised past failures, canonical replays of known findings) is run by shard 0 only
        return run_shard(binpath, mode, ctx.seed * 1000 + i, ctx.tier, None if ctx.replay else n, os.path.join(ctx.work, f"{mode}-{i}"), replay=ctx.replay,
                         extra=list(extra) + ([] if i == 0 else ["--no-corpus"]))
    results = vlib.shard_map(one, shards, ctx.jobs)
    for r in results:
        if "error" in r:
            res.disagreements.append({"harness-error": r["error"][:2000]})
            return res, [], []
    an = [analyse(r) for r in results]
    reps = [r["report"] for r in results]
    res.evaluations = sum(r["evaluations"] for r in reps)
    res.distinct_nontrivial = sum(r["distinct_nontrivial"] for r in reps)
    res.rule = reps[0]["rule"]
    res.samples = reps[0]["samples"][:3]
    res.lines_compared = sum(a["lines"] for a in an)
    dist = {}
    for r in reps:
        for k, v in r["distribution"].items(): dist[k] = dist.get(k, 0) + v
    dist["cases_with_order_choice_points"] = sum(a["order_sensitive_cases"] for a in an)
    dist["order_sensitive_cases_matching_descending_model"] = sum(a["order_matched_desc"] for a in an)
    dist["order_sensitive_cases_matching_neither_order_(oracle_only)"] = sum(a["order_unresolved"] for a in an)
    dist["cases_compared_strictly"] = sum(a["cases"] - a["order_sensitive_cases"] for a in an)
    dist["cases_where_impl_violates_from_scratch_oracle"] = sum(a["impl_fail_cases"] for a in an)
    res.distribution = dist
    for a in an:
        for d in a["disagree"]:
            res.disagreements.append({"model": "persist as-is", **d})
    return res, an, reps


def run(ctx):
    res, an, reps = collect(ctx, "c07", 320, 4500)
    n_attr = 0
    seen = {}
    for r in reps:
        for f in r["oracle_failures"]:
            f = dict(f)
            key = (f["sig"], f["case"])
            if key in seen: continue
            seen[key] = True
            if f["sig"] in ("C07:exec-differs", "C07:exec-more-after-restart") and n_attr < 40:
                n_attr += 1
                cls, why = classify_restart_difference(ctx, f["case"], str(n_attr))
                f["desc"] += f" [{why}]"
                if cls == "F13":
                    f["sig"] = "C07:F13:projection-reexecution-depends-on-reload-order"
                    res.distribution["restart_differences_attributed_to_F13"] = res.distribution.get("restart_differences_attributed_to_F13", 0) + 1
            res.oracle_failures.append(f)
    # any value that is not the from-scratch one is a violation (no known finding of C01 is left to attribute it to)
    for a in an:
        for r in a["impl_fail"]:
            res.oracle_failures.append({"sig": "C07:value", "desc": f"{r['line']} -> {r['impl']} expected {r['expected']}", "case": r["case"]})
    if not ctx.replay:
        f8_scenario(ctx, res)
    if not ctx.quick() and not ctx.replay:
        rocks(ctx, res, "c07")
    return res


def f8_scenario(ctx, res):
    """DESIGN F8: the one concurrent scenario of this check (everything else is sequential): a session opened while a
    reader is still publishing.  Reported under its own signature; disappears when the F5 reordering is applied."""
    binpath = os.environ.get("VERIF_PERSIST_BIN") or os.path.join(vlib.HARNESS, "target", "release", "persist")
    d = os.path.join(ctx.work, "f8")
    os.makedirs(d, exist_ok=True)
    p = subprocess.run([binpath, "--mode", "f8", "--out", d], stdout=subprocess.PIPE, stderr=subprocess.STDOUT, text=True, timeout=300)
    if p.returncode != 0:
        res.disagreements.append({"harness-error": f"f8 scenario exited {p.returncode}: {p.stdout[-500:]}"})
        return
    rep = json.load(open(os.path.join(d, "report.json")))
    res.evaluations += rep["evaluations"]
    for k, v in rep["distribution"].items(): res.distribution[k] = v
    for f in rep["oracle_failures"]:
        res.oracle_failures.append(f)


def rocks(ctx, res, which):
    """thorough tier: a sample on the real RocksDB backend, incl. kill -9 (supporting validation only)"""
    binpath = os.environ.get("VERIF_PERSIST_BIN") or os.path.join(vlib.HARNESS, "target", "release", "persist")
    def one(i):
        d = os.path.join(ctx.work, f"rocks-{i}")
        os.makedirs(d, exist_ok=True)
        p = subprocess.run([binpath, "--seed", str(ctx.seed * 1000 + 500 + i), "--tier", ctx.tier, "--out", d, "--mode", "rocks-" + which, "--n", "12"],
                           stdout=subprocess.PIPE, stderr=subprocess.STDOUT, text=True, timeout=3000)
        if p.returncode != 0:
            return {"error": f"harness exited {p.returncode}: {p.stdout[-500:]}"}
        return json.load(open(os.path.join(d, "report.json")))
    reps = vlib.shard_map(one, list(range(8)), 8)
    agg = {"evaluations": 0, "distribution": {}}
    for rep in reps:
        if "error" in rep:
            ctx.notes.append("RocksDB sample: " + rep["error"])
            res.disagreements.append({"harness-error": rep["error"]})
            continue
        agg["evaluations"] += rep["evaluations"]
        for k, v in rep["distribution"].items(): agg["distribution"][k] = agg["distribution"].get(k, 0) + v
        for f in rep["oracle_failures"]:
            res.oracle_failures.append(f)
    res.extra["rocksdb_supporting_validation"] = agg
    res.evaluations += agg["evaluations"]


def search(ctx, res):
    ctx.notes.append("boosted search after broken proof/correspondence")
    res2, an, reps = collect(ctx, "c07", 1100, 6000)
    out = []
    for r in reps:
        out += r["oracle_failures"]
    return out[:3]
