"""C07 — state survives a clean restart and is reused, not recomputed (DESIGN §5.7).

Also holds the machinery shared with C08 (same harness bin `persist`, same Lean driver `drv_persist`).
"""
import json, os, subprocess, sys
sys.path.insert(0, os.path.dirname(os.path.dirname(os.path.abspath(__file__))))
import vlib
from props import engine_common as ec

PID = "C07"
LEAN_MODULES = ["QbiceVerif.Props.C07"]
DRIVER = "drv_persist"
HARNESS_BIN = "persist"
HARNESS_FEATURES = ""
SINGLE = ["f1", "f14"]
PARTIAL = [
    "restart_transparent / restart_no_exec / restart_sound are proved in full for the CORE model (programs of input and "
    "normal queries with ordered reads and dynamic dependency sets — the fragment of C01's theorem): any number of "
    "restarts at arbitrary positions leaves values, set_input results and executor invocations of every operation "
    "unchanged, and the outputs are the from-scratch ones.  For the FULL model (firewall / projection / external nodes, "
    "backward projection, unordered groups) transparency is NOT a theorem: it is false as the code is "
    "(restart_mid_epoch_witness, finding F20: a mid-epoch restart loses the per-epoch dirtied_queries set, observable "
    "once known finding F1 has verified a stale node; with F1 repaired in the model the witness history is transparent) "
    "and is not proved for the repaired configuration; there it is covered by the correspondence only.",
    "store_is_image / reload_is_restart take as hypothesis that every change of the stored part has been published "
    "(syncedB) and restart_loses_only_dirtied that nothing is in flight (Quiescent); for the full model both are "
    "validated by the Lean driver after every operation of every generated history (` !unsynced` / ` !busy` flags in "
    "the compared stream), not proved as invariants of the mutual recursion.",
    "the batch of a publication is the difference of the persistent images before and after it, per stored map; which "
    "Rust call writes which cell is tied to the code by the correspondence (values, executor invocations, number of "
    "logical batches at every shutdown, byte-equality of the final store with and without restarts, and — C08 — one "
    "reopened engine per prefix of the commit log), not by a theorem.",
    "sequential histories only: sessions are opened only when no query is running.  With a session opened while a "
    "reader is still publishing the property is violated by the code as it is (finding F8, reproduced: mode f8 of the "
    "harness; fixed by the F5 lock-first reordering handled by the C04 check).",
    "restarts right after concurrent or cancelled work are not generated (every history is driven by one task); the "
    "thorough tier repeats a sample on the real RocksDB backend only (not Fjall).",
    "vacuum thread of the interner, spawn_blocking drops at shutdown, RocksDB/Fjall themselves are outside the model.",
]
ASSUMPTIONS = [
    "fingerprints are injective on the values of a run (value = fingerprint in the models; C13)",
    "sequential driving of the engine (one task at a time); sessions opened only when no query is running",
    "lower layers as hypotheses discharged elsewhere: the caches return the latest write (C09), the write-behind "
    "pipeline applies every batch once, in creation order, by the time drop returns (C10), distinct logical keys are "
    "distinct store keys (C11, C14), values round-trip through the codec (C12), fingerprints are process-independent (C13)",
    "same hasher seed and same executors (program) after the restart",
]
TRUSTED_EXTRA = [
    "modelled, not verified: tokio runtime, the storage caches and the write-behind pipeline (treated as maps + an "
    "ordered batch log), the harness's in-memory KvDatabase (harness/src/kvmem.rs)",
    "Model/EnginePersist.lean is a copy of the engine functions of Model/Engine.lean with `publish` markers; the copy "
    "is tied to the code by the same correspondence (it IS the model run here)",
    "thorough tier: RocksDB itself (supporting validation only)",
]

ALL = ec.ALL_TOGGLES


# ---------------------------------------------------------------- the persist model follows the engine model
# Model/EnginePersist.lean = Model/Engine.lean's engine functions + a `publish` after each of the four places where
# the code submits a write batch.  The engine functions are not copied by hand: the text between the markers in
# EnginePersist.lean is regenerated from Engine.lean before every run, so an edit of the engine model cannot leave the
# persistence model behind (if an anchor disappears the generation fails loudly).
import re
BEGIN = "-- BEGIN GENERATED (tools/props/c07.py gen_persist_model) — do not edit between the markers"
END = "-- END GENERATED"
NAMES = ["queryFor", "queryLoop", "repairTfc", "invokeBackwardProjections", "checkCallee", "repairQuery", "runProg",
         "executeQuery", "userQuery", "session", "round"]

def cut(src, start_pat, end_pat):
    i = src.index(start_pat)
    j = src.index(end_pat, i)
    return src[i:j]

def gen_persist_model(engine=None, target=None):
    engine = engine or os.path.join(vlib.LEAN, "QbiceVerif", "Model", "Engine.lean")
    target = target or os.path.join(vlib.LEAN, "QbiceVerif", "Model", "EnginePersist.lean")
    src = open(engine).read()
    block = cut(src, "mutual\n", "\nend\n") + "\nend\n"
    user = cut(src, "/-- `TrackedEngine::query` from the user", "inductive Write")
    sess = cut(src, "/-- One input session", "-- ------------------------------------------------------------------ specification")
    txt = block + "\n" + user + sess
    for n in NAMES:
        txt = re.sub(r"(?<![\w.`_])" + n + r"\b(?!`)", n + "P", txt)
    txt = txt.replace("(← get)", "(← getS)").replace("let s ← get\n", "let s ← getS\n")
    txt = re.sub(r"\bmodify fun s =>", "modifyS fun s =>", txt)
    txt = re.sub(r"(\s)set \{", r"\1setS {", txt)
    txt = re.sub(r"\bthrowE\b", "throwP", txt)
    txt = re.sub(r"(:|→) M (?=[A-Z(])", r"\1 MP ", txt)
    txt = re.sub(r"\bonPanic\b", "onPanicP", txt)
    txt = re.sub(r"\) \((undoRegister [^()\n]*|popComputing [^()\n]*)\)", r") (liftE (\1))", txt)
    # the four places where the code submits a write batch are marked in Model/Engine.lean by comment lines
    # `-- @publish <label>`; each becomes a `publish` call in the copy
    marks = re.findall(r"^[ \t]*-- @publish .*$", txt, flags=re.M)
    if len(marks) != 4:
        raise RuntimeError(f"gen_persist_model: expected 4 `-- @publish` markers in Model/Engine.lean, found {len(marks)}")
    txt = re.sub(r"^([ \t]*)-- @publish (.*)$", r"\1publish   -- \2", txt, flags=re.M)
    cur = open(target).read()
    i = cur.index(BEGIN) + len(BEGIN)
    j = cur.index(END)
    new = cur[:i] + "\n\n" + txt.rstrip() + "\n\n" + cur[j:]
    if new != cur:
        open(target, "w").write(new)
        return True
    return False



def pre(ctx):
    if gen_persist_model():
        ctx.notes.append("Model/EnginePersist.lean regenerated from Model/Engine.lean")


def run_shard(binpath, mode, seed, tier, n, outdir, replay=None, extra=()):
    os.makedirs(outdir, exist_ok=True)
    for f in ("norestart.txt",):
        try: os.remove(os.path.join(outdir, f))
        except FileNotFoundError: pass
    cmd = [binpath, "--seed", str(seed), "--tier", tier, "--out", outdir, "--mode", mode] + list(extra)
    if n is not None: cmd += ["--n", str(n)]
    if replay: cmd += ["--replay", replay]
    p = subprocess.run(cmd, stdout=subprocess.PIPE, stderr=subprocess.STDOUT, text=True, timeout=7200)
    if p.returncode != 0:
        return {"error": f"harness exited {p.returncode}: {p.stdout[-2000:]}"}
    outs = {}
    for name, args in [("asis", []), ("desc", ["desc"])] + [(t, [t]) for t in SINGLE] + [("all", ALL)]:
        path = os.path.join(outdir, f"model_{name}.txt")
        rc, err = vlib.run_driver("drv_persist", os.path.join(outdir, "ops.txt"), path, args)
        if rc != 0:
            return {"error": f"driver {name} exited {rc}: {err[-1000:]}"}
        outs[name] = open(path).read().split("\n")
    rd = lambda f: open(os.path.join(outdir, f)).read().split("\n")
    return {"ops": rd("ops.txt"), "impl": rd("impl.txt"), "expect": rd("expect.txt"), "models": outs,
            "report": json.load(open(os.path.join(outdir, "report.json"))), "dir": outdir}


def is_op(l):
    return l.startswith(("session", "round", "restart", "crash", "shutdown"))


def analyse(sh, values_only_after_crash=False):
    """tie (model vs implementation) + from-scratch oracle, case by case"""
    ops, impl, exp = sh["ops"], sh["impl"], sh["expect"]
    raw = sh["models"]["asis"]
    asis = [ec.strip(l) for l in raw]
    desc = [ec.strip(l) for l in sh["models"]["desc"]]
    tog = {k: [ec.strip(l) for l in v] for k, v in sh["models"].items() if k not in ("asis", "desc")}
    res = {"cases": 0, "lines": 0, "disagree": [], "order_sensitive_cases": 0, "order_matched_desc": 0, "order_unresolved": 0,
           "impl_fail_cases": 0, "impl_fail_attributed": {}, "impl_fail_unexplained": [], "fail_by_case": {}}
    for (a, b) in ec.split_cases(ops):
        idx = [i for i in range(a, b) if is_op(ops[i])]
        if not idx: continue
        res["cases"] += 1
        res["lines"] += len(idx)
        text = "\n".join(ops[a:b])
        # after a crash line only values are part of the property; executions are still compared for the tie
        def cmp_line(x, y, i):
            return x == y
        order_sensitive = any(raw[i].endswith(" ~") for i in idx) or any(desc[i] != asis[i] for i in idx)
        if order_sensitive: res["order_sensitive_cases"] += 1
        dis = [i for i in idx if not cmp_line(impl[i], asis[i], i)]
        # from-scratch oracle on values
        vidx = [i for i in idx if ops[i].startswith(("session", "round"))]
        bad = [i for i in vidx if ec.vals(impl[i]) != exp[i]]
        model_ok = all(ec.vals(asis[i]) == exp[i] for i in vidx)
        rep_ok = all(ec.vals(tog["all"][i]) == exp[i] for i in vidx)
        if dis:
            i = dis[0]
            if order_sensitive and all(impl[j] == desc[j] for j in idx): res["order_matched_desc"] += 1
            elif order_sensitive: res["order_unresolved"] += 1
            elif rep_ok and (bad or not model_ok):
                # a known C01 finding (F1/F14) manifests on one side only: the code runs the reads of an unordered
                # group concurrently and walks firewall sets in hash order, the model in list / key order; excused only
                # because the model with the known findings repaired meets the from-scratch oracle on the whole case
                # (same rule as tools/props/engine_common.py)
                res["excused_disagree"] = res.get("excused_disagree", 0) + 1
            else: res["disagree"].append({"case": text, "op": ops[i], "impl": impl[i], "model": asis[i]})
        if bad:
            res["impl_fail_cases"] += 1
            who = None
            for t in SINGLE + ["all"]:
                if all(ec.vals(tog[t][i]) == exp[i] for i in vidx): who = t; break
            if who is None and (all(ec.vals(impl[i]) == ec.vals(asis[i]) for i in vidx) or all(ec.vals(impl[i]) == ec.vals(desc[i]) for i in vidx)):
                who = "model"
            rec = {"case": text, "line": ops[bad[0]], "impl": impl[bad[0]], "expected": exp[bad[0]], "who": who}
            res["fail_by_case"][text] = rec
            if who: res["impl_fail_attributed"].setdefault(who, []).append(rec)
            else: res["impl_fail_unexplained"].append(rec)
    return res


def classify_restart_difference(ctx, case_text, tag):
    """A case where the run WITH restarts differs from the run WITHOUT (values or executor invocations).
    Returns (class, explanation):
      "order-choice"   both runs are exactly what the as-is model predicts under one of its two walk orders of an
                       unordered set (>= 2 backward projections / firewall callees), and under a FIXED order the model
                       says the restarts change nothing: the code walked a hash set in another order after reloading it
                       from the store — the order is not part of any contract;
      "dirtied-effect" the as-is model predicts both runs exactly and says the restart itself changes the behaviour
                       (the volatile per-epoch `dirtied_queries` set), AND the run without restarts already violates
                       the from-scratch oracle (known finding F1/F14 manifested before): finding F20;
      None             anything else: a violation."""
    d = os.path.join(ctx.work, f"attr-{tag}")
    os.makedirs(d, exist_ok=True)
    rp = os.path.join(d, "case.txt")
    open(rp, "w").write(case_text)
    binpath = os.environ.get("VERIF_PERSIST_BIN") or os.path.join(vlib.HARNESS, "target", "release", "persist")
    sh = run_shard(binpath, "c07", 0, "quick", None, d, replay=rp)
    if "error" in sh: return None, sh["error"]
    ops, impl, exp = sh["ops"], sh["impl"], sh["expect"]
    mb = {"asis": [ec.strip(l) for l in sh["models"]["asis"]], "desc": [ec.strip(l) for l in sh["models"]["desc"]]}
    sensitive = any(l.endswith(" ~") for l in sh["models"]["asis"]) or mb["asis"] != mb["desc"]
    idx = [i for i in range(len(ops)) if ops[i].startswith(("session", "round"))]
    # the run without restarts: strip the restart lines and ask the model again
    nr = [l for l in ops if l != "restart"]
    nr_ops = os.path.join(d, "ops_norestart.txt")
    nr = [l for l in nr if l != "shutdown"]
    open(nr_ops, "w").write("\n".join(nr))
    ma = {}
    for name, args in (("asis", []), ("desc", ["desc"])):
        mp = os.path.join(d, f"model_norestart_{name}.txt")
        rc, err = vlib.run_driver("drv_persist", nr_ops, mp, args)
        if rc != 0: return None, err
        ma[name] = [ec.strip(l) for l in open(mp).read().split("\n")]
        sensitive = sensitive or any(l.endswith(" ~") for l in open(mp).read().split("\n"))
    a_impl = [l.split("\t")[1] for l in open(os.path.join(d, "norestart.txt")).read().split("\n") if "\t" in l]
    k = [i for i in range(len(nr)) if nr[i].startswith(("session", "round"))]
    if len(a_impl) != len(k) or len(k) != len(idx): return None, "the two runs stopped at different operations"
    b_line = {o: [m[i] for i in idx] for o, m in mb.items()}      # model, with restarts, per op
    a_line = {o: [m[i] for i in k] for o, m in ma.items()}        # model, without
    b_impl = [impl[i] for i in idx]
    b_ok = [o for o in ("asis", "desc") if b_line[o] == b_impl]
    a_ok = [o for o in ("asis", "desc") if a_line[o] == a_impl]
    if not b_ok or not a_ok:
        return None, f"model==impl with restarts: {bool(b_ok)}; without: {bool(a_ok)}"
    transparent_in_model = all(a_line[o] == b_line[o] for o in ("asis", "desc"))
    if transparent_in_model:
        if sensitive: return "order-choice", "under a fixed walk order the model says the restarts change nothing; the two runs match the model's two orders"
        return None, "model transparent and no order choice point, yet the runs differ"
    a_bad = any(ec.vals(a_impl[j]) != exp[idx[j]] for j in range(len(idx)))
    if a_bad:
        return "dirtied-effect", "the as-is model predicts both runs and the change; the run without restarts already violates the from-scratch oracle (F1/F14)"
    return None, "the model predicts a restart effect on a history whose run without restarts is correct"


def collect(ctx, mode, n_quick, n_thorough, extra=()):
    if os.environ.get("VERIF_PERSIST_BIN"):      # sensitivity runs: a harness prebuilt against a private, mutated copy of /repo
        ok, out, dt, binpath = True, "", 0.0, os.environ["VERIF_PERSIST_BIN"]
    else:
        # thorough tier: one binary with the real backends compiled in (RocksDB sample), used for every mode
        ok, out, dt, binpath = vlib.cargo_build("persist", "" if ctx.quick() else "backends")
    ctx.notes.append(f"cargo build persist {dt:.1f}s" + (" (VERIF_PERSIST_BIN)" if os.environ.get("VERIF_PERSIST_BIN") else ""))
    res = vlib.Result()
    if not ok:
        res.disagreements.append({"harness-error": "harness build failed:\n" + out[-3000:]})
        return res, [], []
    n = n_quick if ctx.quick() else n_thorough
    shards = [0] if ctx.replay else list(range(ctx.jobs))
    def one(i):
        # the corpus (minimised past failures, canonical replays of known findings) is run by shard 0 only
        return run_shard(binpath, mode, ctx.seed * 1000 + i, ctx.tier, None if ctx.replay else n, os.path.join(ctx.work, f"{mode}-{i}"), replay=ctx.replay,
                         extra=list(extra) + ([] if i == 0 else ["--no-corpus"]))
    results = vlib.shard_map(one, shards, ctx.jobs)
    for r in results:
        if "error" in r:
            res.disagreements.append({"harness-error": r["error"][:2000]})
            return res, [], []
    an = [analyse(r) for r in results]
    reps = [r["report"] for r in results]
    res.evaluations = sum(r["evaluations"] for r in reps)
    res.distinct_nontrivial = sum(r["distinct_nontrivial"] for r in reps)
    res.rule = reps[0]["rule"]
    res.samples = reps[0]["samples"][:3]
    res.lines_compared = sum(a["lines"] for a in an)
    dist = {}
    for r in reps:
        for k, v in r["distribution"].items(): dist[k] = dist.get(k, 0) + v
    dist["cases_with_order_choice_points"] = sum(a["order_sensitive_cases"] for a in an)
    dist["order_sensitive_cases_matching_descending_model"] = sum(a["order_matched_desc"] for a in an)
    dist["order_sensitive_cases_matching_neither_order_(oracle_only)"] = sum(a["order_unresolved"] for a in an)
    dist["cases_compared_strictly"] = sum(a["cases"] - a["order_sensitive_cases"] for a in an)
    dist["disagreements_excused_by_known_C01_finding_on_one_side"] = sum(a.get("excused_disagree", 0) for a in an)
    dist["cases_where_impl_violates_from_scratch_oracle"] = sum(a["impl_fail_cases"] for a in an)
    for a in an:
        for who, recs in a["impl_fail_attributed"].items():
            k = f"from_scratch_failures_attributed_to_{who}"
            dist[k] = dist.get(k, 0) + len(recs)
    res.distribution = dist
    for a in an:
        for d in a["disagree"]:
            res.disagreements.append({"model": "persist as-is", **d})
    return res, an, reps


def run(ctx):
    res, an, reps = collect(ctx, "c07", 320, 4500)
    n_attr = 0
    seen = {}
    for r in reps:
        for f in r["oracle_failures"]:
            f = dict(f)
            key = (f["sig"], f["case"])
            if key in seen:       # the corpus is replayed by every shard
                continue
            seen[key] = True
            if f["sig"] in ("C07:value-differs", "C07:exec-differs", "C07:exec-more-after-restart", "C07:exec-reads-differ") and n_attr < 24:
                n_attr += 1
                cls, why = classify_restart_difference(ctx, f["case"], str(n_attr))
                f["desc"] += f" [{why}]"
                if cls == "order-choice":
                    res.distribution["restart_differences_explained_by_set_walk_order"] = res.distribution.get("restart_differences_explained_by_set_walk_order", 0) + 1
                    continue
                if cls == "dirtied-effect":
                    f["sig"] = "C07:F20:restart-resets-dirtied-set-after-F1"
            res.oracle_failures.append(f)
    # from-scratch failures are C01's unless the run without restarts does not have them — then the harness has
    # reported the difference above.  Unexplained ones (no toggle repairs them and the model does not predict them)
    # are reported here too.
    for a in an:
        for r in a["impl_fail_unexplained"]:
            res.oracle_failures.append({"sig": "C07:value-unexplained", "desc": f"{r['line']} -> {r['impl']} expected {r['expected']} (not predicted by the model, not repaired by a known-finding toggle)", "case": r["case"]})
    if not ctx.replay:
        f8_scenario(ctx, res)
    if not ctx.quick() and not ctx.replay:
        rocks(ctx, res, "c07")
    return res


def f8_scenario(ctx, res):
    """DESIGN F8: the one concurrent scenario of this check (everything else is sequential): a session opened while a
    reader is still publishing.  Reported under its own signature; disappears when the F5 reordering is applied."""
    binpath = os.environ.get("VERIF_PERSIST_BIN") or os.path.join(vlib.HARNESS, "target", "release", "persist")
    d = os.path.join(ctx.work, "f8")
    os.makedirs(d, exist_ok=True)
    p = subprocess.run([binpath, "--mode", "f8", "--out", d], stdout=subprocess.PIPE, stderr=subprocess.STDOUT, text=True, timeout=300)
    if p.returncode != 0:
        res.disagreements.append({"harness-error": f"f8 scenario exited {p.returncode}: {p.stdout[-500:]}"})
        return
    rep = json.load(open(os.path.join(d, "report.json")))
    res.evaluations += rep["evaluations"]
    for k, v in rep["distribution"].items(): res.distribution[k] = v
    for f in rep["oracle_failures"]:
        res.oracle_failures.append(f)


def rocks(ctx, res, which):
    """thorough tier: a sample on the real RocksDB backend, incl. kill -9 (supporting validation only)"""
    binpath = os.environ.get("VERIF_PERSIST_BIN") or os.path.join(vlib.HARNESS, "target", "release", "persist")
    def one(i):
        d = os.path.join(ctx.work, f"rocks-{i}")
        os.makedirs(d, exist_ok=True)
        p = subprocess.run([binpath, "--seed", str(ctx.seed * 1000 + 500 + i), "--tier", ctx.tier, "--out", d, "--mode", "rocks-" + which, "--n", "12"],
                           stdout=subprocess.PIPE, stderr=subprocess.STDOUT, text=True, timeout=3000)
        if p.returncode != 0:
            return {"error": f"harness exited {p.returncode}: {p.stdout[-500:]}"}
        return json.load(open(os.path.join(d, "report.json")))
    reps = vlib.shard_map(one, list(range(8)), 8)
    agg = {"evaluations": 0, "distribution": {}}
    for rep in reps:
        if "error" in rep:
            ctx.notes.append("RocksDB sample: " + rep["error"])
            res.disagreements.append({"harness-error": rep["error"]})
            continue
        agg["evaluations"] += rep["evaluations"]
        for k, v in rep["distribution"].items(): agg["distribution"][k] = agg["distribution"].get(k, 0) + v
        for f in rep["oracle_failures"]:
            res.oracle_failures.append(f)
    res.extra["rocksdb_supporting_validation"] = agg
    res.evaluations += agg["evaluations"]


def search(ctx, res):
    ctx.notes.append("boosted search after broken proof/correspondence")
    res2, an, reps = collect(ctx, "c07", 1100, 6000)
    out = []
    for r in reps:
        out += r["oracle_failures"]
    return out[:3]
