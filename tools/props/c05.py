"""C05 — cancellation or an executor panic never corrupts the engine (DESIGN §5.5)."""
import json, os, re, sys, tempfile
sys.path.insert(0, os.path.dirname(os.path.dirname(os.path.abspath(__file__))))
import vlib

PID = "C05"
LEAN_MODULES = ["QbiceVerif.Props.C05", "QbiceVerif.Props.NonVacuity.C05"]
DRIVER = "drv_cancel"
HARNESS_BIN = "cancel"
HARNESS_FEATURES = ""
PARTIAL = [
    "no_stall is proved under the static-rank assumption (ReachableR: every `call` goes to a smaller key — acyclic programs; without "
    "it the model has cyclic waits, theorem cyclic_calls_can_deadlock; in the engine that is `exit_scc`/CyclicError, C06): "
    "deadlock_free (a state with a task left has an enabled completing event, whatever was cancelled or panicked), "
    "completing_decreases (the explicit variant `variant n s` strictly decreases on EVERY completing event: hit, wake, gEnter, batchNew, "
    "submit, finish, resume, bpUp, sAcquire, sBump, sCommit, sFinish), completing_run_bounded, maximal_completing_run_quiescent (every "
    "maximal run of completing events ends with no task left), all_complete / no_stall (such a run exists from every reachable state and "
    "ends in Q). What is NOT claimed: finiteness of runs that keep starting new work — the LTS has no program, `call` / `lock` / `write` / "
    "`spawn` / `sStart` / `sWrite` are enabled again and again, so 'every maximal run is finite' is false for it; the statement is about "
    "the runs in which started work is carried to its end. The trace driver rejects a `reg` whose callee is not below its caller, so the "
    "validated traces are runs of ReachableR",
    "cancel_then_sound is proved on the model side (erase_faults, cancel_then_sound): every run of the repaired configuration from init "
    "with any cancels / panics that ends without a task has the same publication log (completed node publications, epoch bumps, input "
    "writes, in order), the same store (version, epoch) and the same (empty) tables as a run WITHOUT cancel / panic that consists of "
    "complete sequential requests — one single-frame query per completed publication, one session per bump; only submit / sBump / sWrite "
    "change the store (step_store). Composition with C01's core_history_sound is by the publication log; not covered: the model has no "
    "values and no dependency relation, so that the log read as a C01 history asks for every node after its callees is argued (a frame's "
    "guarded block runs after the frames above it were popped) but not a theorem",
    "cancel_restores / session_excludes_queries are theorems of the repaired configuration (f11 f12 f40 = 111), which is the code "
    "now that F11, F12, F40 are fixed in /repo (the plugin derives the bits from known_findings.json and the traces of the real code are "
    "validated against that configuration); for the original orders the model keeps cancel_restores_asis_partial (Q without its batch "
    "clause, every configuration) and the refutations f11_asis_aborts, f12_original_aborts, f40_asis_session_overlaps_publication",
    "Q's clause 'every registered callee of a live computation belongs to a read in progress' is modelled (regs, armed undo, "
    "unregAt / defuseAt) and validated against the code item by item in the drop-glue comparison, but not stated as an invariant theorem",
    "F41 (a dropped set_input whose continuation ran after commit panicked; fixed) is outside the model: session calls are atomic "
    "model steps; it is pinned by the harness only (corpus C05-f41-*)",
    "a read cancelled BY THE EXECUTOR that issued it (select! / timeout / speculative read inside an executor, while the executor carries "
    "on) is not an event of the model (the model drops whole tasks); what the model states about it is the glue it shares with the drop of "
    "a task: removing an aborted registration leaves the other registered callees in their relative order and removes nothing else "
    "(eraseReg_sublist, eraseReg_length, eraseReg_mem_of_ne, cancel_preserves_registration_order). The hook trace does not carry the "
    "order vector, so for the code this is judged by the oracle only: harness family `spec*` (an executor starts a read of a slow node, "
    "polls it once - pending -, reads a guard and, only if the guard is non-zero, a node that divides by it, then drops the speculative "
    "read; the history flips the guard to 0 and back): later queries must return the from-scratch value, must not panic, and a round may "
    "execute only nodes the from-scratch evaluation of its roots reaches",
    "waiters of a backward-projection entry have no hook (`get_backward_projection_lock_guard`): their wake-up after a cancel is judged by "
    "the oracle (termination of the other callers) only, not by the trace tie",
]
ASSUMPTIONS = [
    "state-invariant oracle (no model run exists for these histories): at every quiescent point named in the harness (after the fault has settled and the detached continuations finished, after the re-issued target, after every later op, after the final all-keys round; runs that keep a continuation suspended (`hold`) and the fault-free counting runs are not dumped) the digest of every key of the real engine (eng::state_digest through the read-only hook qbice::verif::dump_node) is judged (a) in the harness by three model-free consequences of the engine invariant: every node verified in the current epoch stores the from-scratch value for the committed inputs, the backward-edge sets are exactly the inverse of the recorded dependencies, the firewall set of a verified node is the union over its dependencies of ({d} if d is a firewall else tfc(d)) [sigs C05:state-invariant:value|back|tfc], and (b) by the Lean checker of the PROVED invariant (`drv_engine inv` on inv_ops.txt: `inv FAIL <clause> <key>` = oracle failure C05:state-invariant:inv:<clause>); acyclic programs of at most 64 keys; not the family whose executors drop their own reads (its expression nodes are unknown to the checker); an input whose last write was cut may have either value: the stored value of its node decides",
    "acyclic programs: no strongly connected component is in progress (with `is_in_scc` the engine replaces the panic by the SCC value; C06)",
    "a future is dropped only at an await point; every drop of a task's future drops the whole stack of nested `query_for` frames at once "
    "(sub-futures dropped by an executor's own `select!` are not events of the model; see PARTIAL: oracle side and the glue theorem)",
    "`tokio::spawn` is available when a guarded future is dropped, and a spawned continuation is eventually scheduled",
    "JoinSet children (transitive-firewall repair, backward projection, unordered repair groups, refresh) are tasks of their own; their "
    "abort by the parent's drop is a later `cancel` of the child",
    "no panic inside a guarded section (the code would resume unwinding in a detached task; outside the model, DESIGN §5.5)",
]
TRUSTED_EXTRA = [
    "modelled, not verified: tokio (RwLock, Notify, JoinSet abort, spawn), scc::HashMap entry operations as atomic steps, Rust drop order "
    "of an async fn's live locals (innermost awaited future first, then locals in reverse declaration order)",
    "the value-level content of a publication is not in this model (it is C01's model); the model tracks whether a publication was started, "
    "how many of its writes happened and whether it was completed, and which phase guard the publishing code holds",
    "trace validation: hook events carry the tokio task id; events the code emits from `Drop` impls are compared with the model's drop glue "
    "item by item; the drop of a write batch itself has no hook (storage crate) and is observed through the created/submitted counters and, "
    "on the write-behind variant, through the panic / abort of the child process",
    "the harness decides *where* a future may be dropped: exactly at the `verif_pause!` points it owns (each adjacent to a real await of the "
    "code); a `hold` run keeps the spawned continuation of a guarded block suspended at its first await until the caller has committed one "
    "more session (a schedule tokio permits: a spawned task has no deadline)",
    "the model has no separate notification (`wake` is enabled iff the entry is gone); the tie for `notify_waiters()` is made from the "
    "waiter's side: hooks `cl.wait` / `cl.woken` around the two `Notified` awaits (`computing_lock_guard`, `exit_scc`) of the other callers "
    "the harness starts; the driver wakes every parked caller in the model when the model removes the entry and requires the code's "
    "`cl.woken` before the next `settled` / `end` marker",
]

RULE = ("one evaluation = one generated history (3-8 keys, inputs / normal / firewall / projection / external nodes, conditional and "
        "unordered reads; sessions with set_input / world+refresh; rounds) replayed on a fresh engine with ONE fault at one target op: "
        "the target's future dropped at pause point i (all points if <= 24 (thorough 64), else a seeded sample containing the first of every "
        "label), the twin run that keeps a detached guarded continuation suspended across the next commit, the twin run with OTHER CALLERS IN "
        "FLIGHT (round targets: when the cut point is reached, up to four more tasks are started in a seeded order that ask for the same roots, for a "
        "key whose computing entry the target owns, for a dependent of such a key, for an owned firewall; they run until parked on the "
        "target's entries, then the target is dropped; every one of them must complete with the from-scratch value), or one executor "
        "panicking (alone, and with such callers parked on the entries of the panicking task); then "
        "[some cases (quick: 8, thorough: a quarter) are of the family in which an EXECUTOR DROPS ONE OF ITS OWN READS - speculative read of a slow node polled once and "
        "dropped after a guard read and a guarded read (a division by the guard), guard flipped to 0 and back by the history; for these the "
        "history without any injected fault is an evaluation of its own, and every judged round also checks that only nodes the "
        "from-scratch evaluation reaches were executed] "
        "the cut-short op again, the rest of the history, a final all-keys round, shutdown; variants: InMemoryStorageEngine and "
        "DbBacked<in-memory KvDatabase> (write-behind; re-open and query after shutdown); every case in a child process. Oracle: "
        "from-scratch values (failures that the same history shows without the fault are counted separately and not attributed to C05), "
        "panic hook, termination (2.5 s per call), resource accounting (computing entries, batches created/submitted, guarded blocks "
        "entered/completed), shutdown. Non-trivial = the fault point was reached.")


def _cfg_bits():
    bits = {"F11": "0", "F12": "0", "F40": "0"}
    for p in (os.path.join(vlib.VERIF, "known_findings.json"), os.path.join(vlib.VERIF, "known_findings.d", "C05.json")):
        try:
            for e in json.load(open(p)).get("findings", []):
                if e.get("property") == "C05" and e.get("id") in bits and e.get("status") == "fixed":
                    bits[e["id"]] = "1"
        except OSError:
            pass
    return bits["F11"] + bits["F12"] + bits["F40"]


def _replay_text(path):
    """A replay is either the harness's own text (`#fault …` + case) or the JSON vlib wrote (field `case`)."""
    raw = open(path, encoding="utf-8").read()
    try:
        obj = json.loads(raw)
        raw = obj.get("case", "")
    except ValueError:
        pass
    f = tempfile.NamedTemporaryFile("w", suffix=".txt", delete=False)
    f.write(raw)
    f.close()
    return f.name


def _shard(args):
    ctx, binp, seed, n, idx, cfg, shards = args
    out = os.path.join(ctx.work, f"s{idx}")
    os.makedirs(out, exist_ok=True)
    # every run is judged by the oracle; the hook trace of every run (thorough: of every 5th run, to bound the
    # size of the work files) is replayed through the model
    cmd = [binp, "--seed", str(seed), "--tier", ctx.tier, "--out", out, "--n", str(n), "--cfg", cfg,
           "--trace-every", "1" if ctx.quick() else "5",
           # the "executor drops one of its own reads" family: quick = one case on every second shard, thorough = n/3 per shard
           "--spec-cases", str((1 - idx % 2) if ctx.quick() else (n + 2) // 3)]
    # state dumps at every quiescent point of every run with an injected fault (no model run exists for these): judged in
    # the harness by the state-invariant oracle (eng::state_invariant_check, sigs C05:state-invariant:*) and written to
    # inv_ops.txt for the Lean checker of the PROVED engine invariant (`drv_engine inv`)
    state = not os.environ.get("VERIF_NO_STATE_TIE")
    if state: cmd += ["--state"]
    if ctx.replay:
        cmd += ["--replay", _replay_text(ctx.replay)]
    else:
        cmd += ["--corpus-shard", f"{idx}/{shards}"]
    rc, log = vlib.sh(cmd, timeout=3400)
    if rc != 0:
        return {"dir": out, "error": f"harness exit {rc}: {log[-600:]}"}
    rc, err = vlib.run_driver(DRIVER, os.path.join(out, "ops.txt"), os.path.join(out, "model.txt"))
    if rc != 0:
        return {"dir": out, "error": f"driver exit {rc}: {err[-400:]}"}
    inv = None
    if state and os.path.exists(os.path.join(out, "inv_ops.txt")):
        rc, err = vlib.run_driver("drv_engine", os.path.join(out, "inv_ops.txt"), os.path.join(out, "inv_out.txt"), ["inv"])
        if rc != 0:
            return {"dir": out, "error": f"drv_engine inv exit {rc}: {err[-400:]}"}
        try: hf = json.load(open(os.path.join(out, "report.json")))["oracle_failures"]
        except (OSError, ValueError, KeyError): hf = []
        inv = inv_results(out, "C05", hf)
    return {"dir": out, "inv": inv}


F70_SIG = "C05:F70:orphaned-pending-projection"


def _reads_of(case_text):
    """key -> keys its executor can read (from the `node` lines of a case text)"""
    reads = {}
    for l in case_text.split("\n"):
        t = l.split()
        if len(t) >= 5 and t[0] == "node":
            rs, e, i = set(), t[4:], 0
            while i < len(e):
                if e[i] in ("r", "X") and i + 1 < len(e): rs.add(int(e[i + 1])); i += 2
                elif e[i] == "S" and i + 1 < len(e): n = int(e[i + 1]); rs.update(int(x) for x in e[i + 2:i + 2 + n]); i += 2 + n
                elif e[i] in ("c", "w"): i += 2
                else: i += 1
            reads[int(t[1])] = rs
    return reads


def _depends_on(reads, key, k):
    """`key` transitively reads `k` (key != k)"""
    seen, todo = set(), list(reads.get(key, ()))
    while todo:
        x = todo.pop()
        if x == k: return True
        if x not in seen: seen.add(x); todo += list(reads.get(x, ()))
    return False


def inv_results(out, pid, harness_failures=()):
    """Aligns the output of `drv_engine inv` (one line per `#D` line) with inv_ops.txt (one block per run, header
    `# <case file> <name> <variant> <target> <fault…>`), and ATTRIBUTES failures to the known finding F70 (orphaned pending
    projection after a cut).  A failure is attributed only if ALL hold:
      * the run had an injected CUT (a dropped request), not a panic;
      * the Lean checker answers `inv FAIL pjCause k` at the settle point right after the fault (the dump with index
        <target>: one dump per op before the target) — projection k has a pending flag although no recorded callee of k has one;
        K = the keys of all pjCause answers of the run from there on;
      * the failing item is (a) a pending-flag clause (`pjCause` / `pjBroken`) about a key of K at or after the settle point, or
        (b) a wrong value (`C05:value`, `C05:state-invariant:value`, `inv FAIL cur|trace|solid|clean`) at or after the settle
        point of a key that transitively reads a key of K in the program (the keys of K themselves excluded).
    Everything else keeps its own signature (a VIOLATION).  Returns counts, the failures of the checker, and the harness
    failures with the attributed ones re-labelled."""
    lines = _read(os.path.join(out, "inv_ops.txt"))
    res = _read(os.path.join(out, "inv_out.txt"))
    n_d = sum(1 for l in lines if l.startswith("#D"))
    if n_d != len(res):
        return {"counts": {"misaligned": 1}, "fails": [{"sig": f"{pid}:state-invariant:inv:misaligned", "desc": f"{n_d} #D lines, {len(res)} answers", "case": ""}], "harness": list(harness_failures)}
    runs, cur, j, last_op, counts = [], None, 0, "", {}
    for l in lines:
        if l.startswith("# "):
            h = l[2:].split(" ", 3)
            cur = {"header": l[2:], "ci": h[0], "name": h[1] if len(h) > 1 else "", "variant": h[2] if len(h) > 2 else "", "tag": h[3] if len(h) > 3 else "", "dumps": []}
            runs.append(cur)
        elif l.startswith("#D"):
            r = res[j]; j += 1
            key = " ".join(r.split()[:2])
            counts[key] = counts.get(key, 0) + 1
            if cur is not None: cur["dumps"].append((last_op, r, l))
        elif not l.startswith(("case", "node")): last_op = l
    def parse(r):
        t = r.split()
        if len(t) >= 4 and t[0] == "inv" and t[1] in ("FAIL", "FAIL-nonshape"):
            try: return t[2], int(t[3])
            except ValueError: return t[2], None
        return None, None
    fails, by_run = [], {}
    for run in runs:
        tg = run["tag"].split()
        try: target = int(tg[0])
        except (ValueError, IndexError): target = None
        is_cut = len(tg) > 1 and tg[1] in ("cut", "cutat")
        orphans = set()
        if is_cut and target is not None and len(run["dumps"]) > target and parse(run["dumps"][target][1])[0] == "pjCause":
            orphans = {parse(d[1])[1] for d in run["dumps"][target:] if parse(d[1])[0] == "pjCause"} - {None}
        try: text = open(os.path.join(out, "cases", run["ci"] + ".txt")).read()
        except OSError: text = ""
        reads = _reads_of(text)
        run.update(target=target, orphans=orphans, reads=reads)
        by_run[(run["name"], run["variant"], run["tag"])] = run
        case = (f"#fault {run['variant']} {run['tag']}\n" if run["tag"] else "") + text
        for i, (op, r, dl) in enumerate(run["dumps"]):
            if not (r.startswith("inv FAIL") or r.startswith("inv bad-digest")): continue
            clause, key = parse(r)
            f70 = bool(orphans) and i >= target and key is not None and (
                (clause in ("pjCause", "pjBroken") and key in orphans) or
                (clause in ("cur", "trace", "solid", "clean") and key not in orphans and any(_depends_on(reads, key, k) for k in orphans)))
            sig = F70_SIG if f70 else f"{pid}:state-invariant:inv:" + ":".join(r.split()[1:3])
            if sum(1 for f in fails if f["sig"] == sig) < 2:
                fails.append({"sig": sig, "desc": f"[{run['header']}] after `{op[:80]}` the Lean checker of the proved engine invariant answers `{r}` on the dumped state {dl[3:400]}", "case": case})
            counts["attributed_to_F70" if f70 else "inv_failures_not_attributed"] = counts.get("attributed_to_F70" if f70 else "inv_failures_not_attributed", 0) + 1
    # the harness's own value failures of the same runs
    harness, n_attr = [], 0
    for f in harness_failures:
        f = dict(f)
        m = re.match(r"\[(\S+) (\S+)\] (.*)", f.get("desc", ""), flags=re.S)
        first = f.get("case", "").split("\n", 1)[0]
        key = op = None
        if m and first.startswith("#fault ") and f["sig"] in ("C05:value", "C05:state-invariant:value"):
            tag = first[len("#fault "):].split(" ", 1)[1] if " " in first[len("#fault "):] else ""
            run = by_run.get((m.group(1), m.group(2), tag))
            if f["sig"] == "C05:value":
                mm = re.match(r"op (\d+) key (\d+) got", m.group(3))
                if mm: op, key = int(mm.group(1)), int(mm.group(2))
            else:
                mm = re.match(r"op (\d+) .*?: node (\d+) is verified", m.group(3), flags=re.S)
                if mm: op, key = int(mm.group(1)), int(mm.group(2))
            if run and run["orphans"] and key is not None and op is not None and op >= run["target"] and key not in run["orphans"] \
                    and any(_depends_on(run["reads"], key, k) for k in run["orphans"]):
                f["desc"] += f" [attributed to F70: the Lean checker reports the orphaned pending projection(s) {sorted(run['orphans'])} from the settle point of this cut on, and key {key} reads them transitively]"
                f["sig"] = F70_SIG
                n_attr += 1
        harness.append(f)
    if n_attr: counts["harness_value_failures_attributed_to_F70"] = n_attr
    # keep the lists short: at most 2 attributed, at most 3 of every other signature
    def cap(fs):
        out_, seen = [], {}
        for f in fs:
            lim = 2 if f["sig"] == F70_SIG else 3
            if seen.get(f["sig"], 0) < lim: out_.append(f)
            seen[f["sig"]] = seen.get(f["sig"], 0) + 1
        return out_
    return {"counts": counts, "fails": cap(fails), "harness": cap(harness)}


def _read(p):
    a = open(p, encoding="utf-8", errors="replace").read().split("\n")
    if a and a[-1] == "": a.pop()
    return a


def run(ctx, boost=1):
    res = vlib.Result()
    res.rule = RULE
    ok, log, dt, binp = vlib.cargo_build(HARNESS_BIN, HARNESS_FEATURES)
    ctx.notes.append(f"cargo build {dt:.1f}s")
    if not ok:
        res.disagreements.append({"line": 0, "op": "cargo build", "impl": log[-1500:], "model": ""})
        return res
    if not os.environ.get("VERIF_NO_STATE_TIE"):
        okb, logb, _ = vlib.lean_build(["drv_engine"])
        if not okb:
            res.disagreements.append({"line": 0, "op": "lake build drv_engine", "impl": logb[-1500:], "model": ""})
            return res
    cfg = _cfg_bits()
    ctx.notes.append(f"model configuration (f11 f12 f40) = {cfg} (from known_findings.json / known_findings.d/C05.json: fixed => 1)")
    shards = 1 if ctx.replay else ctx.jobs
    n = (3 if ctx.quick() else 18) * boost
    jobs = [(ctx, binp, ctx.seed * 1000 + i, n, i, cfg, shards) for i in range(shards)]
    outs = vlib.shard_map(_shard, jobs, ctx.jobs)
    dist, traces, bad = {}, 0, 0
    for o in outs:
        if "error" in o:
            res.disagreements.append({"line": 0, "op": o["dir"], "impl": o["error"], "model": ""})
            continue
        d = o["dir"]
        rep = json.load(open(os.path.join(d, "report.json")))
        res.evaluations += rep["evaluations"]
        res.distinct_nontrivial += rep["distinct_nontrivial"]
        for k, v in rep["distribution"].items(): dist[k] = dist.get(k, 0) + v
        if len(res.samples) < 6: res.samples += rep["samples"][:1]
        if o.get("inv"):
            # the harness's failures with those of the known finding F70 re-labelled (see inv_results), then the checker's
            res.oracle_failures += o["inv"]["harness"]
            for k, v in o["inv"]["counts"].items(): dist["state_dumps_checked_by_drv_engine_inv:" + k] = dist.get("state_dumps_checked_by_drv_engine_inv:" + k, 0) + v
            res.oracle_failures += o["inv"]["fails"]
        else:
            res.oracle_failures += rep["oracle_failures"][:40]
            try: os.remove(os.path.join(d, "inv_out.txt")); os.remove(os.path.join(d, "inv_ops.txt")) if not o["inv"]["fails"] else None
            except OSError: pass
        ops, imp, mod = _read(os.path.join(d, "ops.txt")), _read(os.path.join(d, "impl.txt")), _read(os.path.join(d, "model.txt"))
        res.lines_compared += len(ops)
        start, case_bad = 0, False
        for i in range(max(len(ops), len(imp), len(mod))):
            op = ops[i] if i < len(ops) else "<missing>"
            if op.startswith("run "):
                if i > 0:
                    traces += 1; bad += case_bad
                start, case_bad = i, False
            x = imp[i] if i < len(imp) else "<missing>"
            y = mod[i] if i < len(mod) else "<missing>"
            if x != y:
                if not case_bad and len(res.disagreements) < 20:
                    res.disagreements.append({"line": i + 1, "shard": d, "op": op[:200], "impl": x[:300], "model": y[:300],
                                              "run": ops[start][:200], "trace_prefix": ops[start:i + 1][-30:]})
                case_bad = True
        if ops:
            traces += 1; bad += case_bad
        if not any(x.get("shard") == d for x in res.disagreements):
            for f in ("ops.txt", "impl.txt", "model.txt"):
                try: os.remove(os.path.join(d, f))
                except OSError: pass
    res.traces_validated = traces - bad
    res.distribution = dist
    res.extra["model_configuration_f11_f12_f40"] = cfg
    return res


def search(ctx, res):
    """The proof or the tie broke and the oracle found nothing: more cases, other seeds."""
    ctx2 = vlib.Ctx.__new__(vlib.Ctx)
    ctx2.__dict__.update(ctx.__dict__)
    ctx2.seed = ctx.seed + 7919
    ctx2.work = os.path.join(ctx.work, "search")
    os.makedirs(ctx2.work, exist_ok=True)
    r2 = run(ctx2, boost=4)
    return r2.oracle_failures


if __name__ == "__main__":
    sys.exit(vlib.main(sys.modules[__name__], sys.argv[1:]))
