"""C16 — the admission cache (TinyLFU) never evicts pinned entries and stays bounded.

Proof part: QbiceVerif.Props.C16 (model QbiceVerif.Model.TinyLfu).  Correspondence: the real
`qbice_storage::tiny_lfu::TinyLFU` is driven through its public API on one thread (harness bin `lfu`)
and the same lines go through the Lean driver `drv_lfu`; every answer and every question the
removal closure asks the listener (i.e. the exact eviction order) is compared.  Oracle: reference map
minus listener-approved evictions, pinned residents stay, resident bound, no panic; plus
multi-threaded cache runs and a lock-table stress (oracle only).  Notify (protocol followed) is also judged by the
sharper bound of bounded_notify_buffered (resident <= capacity + currently pinned + messages buffered since the last
maintenance pass; right after a pass with nothing pinned: resident <= capacity, i.e. every resident unpinned entry is
tracked by the policy), and a write-behind family (write pinned / flush / re-write before the next maintenance pass /
flush, keys >> capacity, quiesced at the end) runs on every check; `search` boosts that family first.
Multi-thread family "remove vs re-insert" (oracle only): see ASSUMPTIONS (message order under concurrency).
"""
import json, os, subprocess, vlib

PID = "C16"
LEAN_MODULES = ["QbiceVerif.Props.C16", "QbiceVerif.Lemmas.TinyLfuUnpinSeed", "QbiceVerif.Lemmas.TinyLfuMsgOrder"]
DRIVER = "drv_lfu"
HARNESS_BIN = "lfu"
HARNESS_FEATURES = ""

# Nothing partial: C16_bounded proves C16_bounded_full_statement (both strategies, S = 32).  For UnpinStrategy::Poll the
# property's "fixed slack over the currently pinned count" is read with the term "releases since the last maintenance
# round" (see ASSUMPTIONS); bounded_poll_partial (|pinned region| in place of the pinned count) is kept as a general
# lemma for arbitrary listeners (value tokens / the lock table), not as the Poll headline.
PARTIAL = []
ASSUMPTIONS = [
    "MESSAGE ORDER UNDER CONCURRENCY (one key): message_order_is_storage_order / tracked_iff_resident_after_drain are about an LTS "
    "(Lemmas/TinyLfuMsgOrder) in which the storage access of entry(k) and the push of Insert(k) / Removed(k) are ONE step, i.e. the "
    "bucket lock of scc::HashMap::entry_sync is MODELLED as mutual exclusion per key, not verified, and the maintenance pass consumes "
    "the write buffer in FIFO order; any number of threads and interleavings; eviction by the policy is not in the LTS. Whether the "
    "real code pushes under the lock is checked by the oracle-only multi-thread family 'remove vs re-insert' (1 remover + 3-7 "
    "inserters per group on one current key, nothing pinned, judged at quiescence by bounded_quiescent: resident <= window + main "
    "capacity exactly; signature mt-leak:resident-untracked-after-remove-reinsert); witness of the unlocked variant: removed_after_unlock_leaks",
    "single-threaded, piggy-backed maintenance (try_lock always succeeds; the calling thread's read-buffer shard holds 16 "
    "entries); concurrent maintenance and the DedicatedThread mode are exercised by the oracle-only multi-thread runs, not modelled",
    "lru.rs's intrusive list + HashMap are modelled as four duplicate-free lists (regions_within_capacity proves the model keeps "
    "them duplicate-free and disjoint); memory safety of the unsafe pointer code is not claimed",
    "bounded_notify assumes the documented Notify protocol: the pin token is the key and every release is notified "
    "(TinyLFU::unpin); without it the bound for arbitrary listeners, bounded_poll_partial (|pinned region| in place of the "
    "pinned count), applies",
    "POLL, HONEST READING OF 'fixed slack over the currently pinned count': bounded_poll / C16_bounded state resident <= window + "
    "main capacity + currently pinned + 32 + r, r = releases since the last maintenance round (Cache.rel, a ghost field no "
    "operation reads; the harness counts the same thing: unpin/unpinn operations since the last pass). Under Poll releases are "
    "silent by design and the listener is only asked during a maintenance round, so a polling cache cannot know about a release "
    "before it polls again: for the cache an entry released since the last round is still pinned. Without r no bound exists for "
    "any polling cache (pin n entries, insert them, release them all without calling the cache: n resident, 0 pinned, the cache "
    "has not run). Everything released before the last round is reclaimed by that round (whole-region trim, finding F15 fixed); "
    "the bound needs pin token = key (for value tokens / the lock table: bounded_poll_partial)",
    "FIXED finding F15 (Poll trim stopped at the first still-pinned entry): the model default is the code since the fix "
    "(Cfg.fixTrim = true, driver default; --no-fix-trim runs the old loop). HISTORICAL witnesses with fixTrim := false: "
    "bounded_poll_slack32_refuted (57 > 2 + 2 + 32) and bounded_poll_needs_whole_region_trim (95 > 2 + 5 + 32 + 33 releases); "
    "the adversary histories are replayed on the real cache on every run and must stay within the bound of bounded_poll "
    "(signatures bound-poll:excess-grows-with-blockers / bound-poll:history-exceeds-capacity+pinned+32 are plain violations)",
    "ATOMIC EVICTION ATTEMPT: the pin question (LifecycleListener::is_pinned) and the removal of an eviction attempt are one "
    "atomic step with respect to get/entry (remove_closure does both under one write lock of the scc bucket). The sequential "
    "model has this built in (removeClosure is one function) and lock_table_same_lock / pinned_never_evicted rely on it; "
    "same_lock_needs_atomic_eviction_holds and same_lock_fails_when_eviction_is_split (two-step check/remove LTS, Lemmas/TinyLfuAtomic) "
    "state that it is exactly what is needed. Whether the real code keeps it is NOT provable from the single-thread "
    "correspondence; it is checked by the oracle-only multi-thread runs, in particular the thread stress of the lock table "
    "(capacity 1-3, 4-8 keys, 8-16 threads, live-instance registry; 128 runs and ~2*10^7 acquisitions per quick check)",
    "the lock-table theorem is about the model of get_lock_instance; the real QueryLockManager is crate-private, the harness "
    "stresses a replica of its 20-line glue over the real TinyLFU (a cfg(qbice_verif) re-export would allow driving the original)",
]
TRUSTED_EXTRA = [
    "model of scc::HashMap as an association list and of crossbeam queues as FIFO lists (single thread)",
    "Policy::new's float arithmetic is modelled by integer ceilings; cross-checked against IEEE f64 for capacities 1..2000 (20000 thorough) on every run",
    "FxBuildHasher::hash_one(u64) is modelled as k * 0x517cc1b727220a95 mod 2^64; cross-checked against the fxhash crate on 2000 keys per shard",
    "Policy::unpin is modelled with Cfg.fixF4 = true, which is the code as it is since the fix: commit for F4 (no_panic is about "
    "that code; asis_unpin_panics / fixed_unpin_survives remain as the historical witness of the repaired defect, whose history "
    "(corpus/C16-F4-unpin-empty-probation.txt) is replayed first on every run and must run clean)",
    "sketch.rs is modelled exactly (bloom bitmap, packed 4-bit counters, SWAR halving) and tied by the eviction order of every compared case; the theorems hold for any sketch",
]

def _run_shard(args):
    binp, seed, tier, outdir, n, replay = args[:6]
    extra_env = args[6] if len(args) > 6 else None
    os.makedirs(outdir, exist_ok=True)
    cmd = [binp, "--seed", str(seed), "--tier", tier, "--out", outdir]
    if n is not None and (n or extra_env): cmd += ["--n", str(n)]
    if replay: cmd += ["--replay", replay]
    env = dict(os.environ, **extra_env) if extra_env else None
    p = subprocess.run(cmd, stdout=subprocess.PIPE, stderr=subprocess.STDOUT, text=True, timeout=3600, env=env)
    if p.returncode != 0 or not os.path.exists(os.path.join(outdir, "report.json")):
        return {"seed": seed, "error": f"harness rc={p.returncode}: {p.stdout[-800:]}"}
    ops, imp, mod = (os.path.join(outdir, f) for f in ("ops.txt", "impl.txt", "model.txt"))
    # /repo carries the fix: commits for F4 and F15: the model of the code as it is now is Cfg.fixF4 (--fix) and the
    # whole-region Poll trim (Cfg.fixTrim, the driver default; --no-fix-trim = the code before that fix)
    rc, err = vlib.run_driver(DRIVER, ops, mod, args=("--fix",))
    if rc != 0:
        return {"seed": seed, "error": f"driver rc={rc}: {err[-800:]}"}
    n_lines, diffs = vlib.diff_streams(imp, mod, ops)
    rep = json.load(open(os.path.join(outdir, "report.json")))
    reasons = [l for l in err.splitlines() if l.startswith("panic-reason")]
    for d in diffs: d["seed"] = seed
    # keep the disk small: the streams are only needed when something differs
    if not diffs:
        for f in (ops, imp, mod):
            try: os.remove(f)
            except OSError: pass
    return {"seed": seed, "lines": n_lines, "diffs": diffs, "report": rep, "model_panics": reasons}


def _merge_dist(acc, d):
    for k, v in d.items():
        if isinstance(v, dict):
            acc.setdefault(k, {})
            for kk, vv in v.items():
                if k.startswith("poll_adversary"): acc[k][kk] = vv
                else: acc[k][kk] = acc[k].get(kk, 0) + vv
        elif k.startswith("max"):
            acc[k] = max(acc.get(k, v), v)
        else:
            acc[k] = acc.get(k, 0) + v


def _collect(ctx, res, shards):
    for sh in shards:
        if "error" in sh:
            res.disagreements.append({"line": 0, "op": None, "impl": "harness/driver failure", "model": sh["error"][:400], "seed": sh["seed"]})
            continue
        res.lines_compared += sh["lines"]
        res.disagreements += sh["diffs"]
        rep = sh["report"]
        res.evaluations += rep["evaluations"]
        res.distinct_nontrivial += rep["distinct_nontrivial"]
        res.rule = rep["rule"]
        if len(res.samples) < 6: res.samples += rep["samples"][:2]
        _merge_dist(res.distribution, rep["distribution"])
        res.distribution["model_panics"] = res.distribution.get("model_panics", 0) + len(sh["model_panics"])
        for f in rep["oracle_failures"]:
            # every failure is a violation (F4 and F15 are fixed; a fixed entry suppresses nothing): panics, bound-notify
            # (S = 32), bound-poll:* (bounded_poll: S = 32 + releases since the last maintenance round), bound-partial
            # (|pinned region| bound of bounded_poll_partial), bound-notify-buffered / unevictable-residue.
            f = dict(f); f["seed"] = sh["seed"]
            res.oracle_failures.append(f)
    # one line per distinct signature is enough; keep those that carry a replayable case first
    res.oracle_failures.sort(key=lambda f: (f["sig"], 0 if f.get("case") else 1, len(f.get("case", ""))))
    seen, out = {}, []
    for f in res.oracle_failures:
        seen[f["sig"]] = seen.get(f["sig"], 0) + 1
        if seen[f["sig"]] <= 2: out.append(f)
    res.extra["oracle_failures_by_signature"] = seen
    res.oracle_failures = out


def run(ctx):
    res = vlib.Result()
    ok, out, dt, binp = vlib.cargo_build(HARNESS_BIN, HARNESS_FEATURES)
    ctx.notes.append(f"cargo build {dt:.1f}s")
    if not ok:
        res.disagreements.append({"line": 0, "op": None, "impl": "cargo build failed", "model": out[-1500:]})
        return res
    if not os.path.exists(vlib.driver_path(DRIVER)):
        res.disagreements.append({"line": 0, "op": None, "impl": "driver missing", "model": "lake build did not produce drv_lfu"})
        return res
    if ctx.replay:
        shards = [_run_shard((binp, ctx.seed, ctx.tier, os.path.join(ctx.work, "replay"), None, ctx.replay))]
    else:
        n = 1500 if ctx.quick() else 9000
        jobs = [(binp, ctx.seed * 1000 + i, ctx.tier, os.path.join(ctx.work, f"s{i}"), n, None) for i in range(16)]
        shards = vlib.shard_map(_run_shard, jobs, ctx.jobs)
    _collect(ctx, res, shards)
    return res


def search(ctx, res):
    """Boosted search when a proof or the correspondence broke and the oracle saw nothing.
    Stage 1: the write-behind family alone (Notify re-pin between the unpin notification and the maintenance pass;
    the random generator reaches that window only by luck), many more and longer histories, fresh seeds, no random
    cases and no thread stress.  Stage 2 (only if stage 1 found nothing): 10x random cases, fresh seeds."""
    ok, out, dt, binp = vlib.cargo_build(HARNESS_BIN, HARNESS_FEATURES)
    if not ok: return []
    known = {s for e in vlib.load_known(PID) for s in e.get("signatures", [])}
    wb = 250 if ctx.quick() else 1000
    env = {"LFU_WB": str(wb), "LFU_WB_LONG": "1", "LFU_SKIP_MT": "1"}
    jobs = [(binp, ctx.seed * 1000 + 700 + i, ctx.tier, os.path.join(ctx.work, f"w{i}"), 0, None, env) for i in range(16)]
    shards = vlib.shard_map(_run_shard, jobs, ctx.jobs)
    r1 = vlib.Result()
    _collect(ctx, r1, shards)
    res.extra["boosted_search_write_behind"] = {"evaluations": r1.evaluations, "lines": r1.lines_compared, "disagreements": len(r1.disagreements),
                                                "histories_per_shard": wb}
    found = [f for f in r1.oracle_failures if f["sig"] not in known]
    if found: return found
    n = 15000 if ctx.quick() else 40000
    jobs = [(binp, ctx.seed * 1000 + 500 + i, ctx.tier, os.path.join(ctx.work, f"b{i}"), n, None) for i in range(16)]
    shards = vlib.shard_map(_run_shard, jobs, ctx.jobs)
    r2 = vlib.Result()
    _collect(ctx, r2, shards)
    res.extra["boosted_search"] = {"evaluations": r2.evaluations, "lines": r2.lines_compared, "disagreements": len(r2.disagreements)}
    return [f for f in r2.oracle_failures if f["sig"] not in known]
