"""Shared correspondence driver for the engine-level properties (C01, C03, C06).

One harness run (real engine, in-process) produces ops.txt / impl.txt / expect.txt / report.json per
shard; the Lean driver `drv_engine` is run on the same ops as: the as-is full model, the full model
with each known-finding toggle and with all of them (attribution, DESIGN §2.4), and the core model
(the one the C01/C03 theorems are about; answers `skip` outside its fragment).
"""
import json, os, subprocess, sys
sys.path.insert(0, os.path.dirname(os.path.dirname(os.path.abspath(__file__))))
import vlib

ALL_TOGGLES = ["f1", "f2", "f3", "f14"]


def split_cases(ops):
    """indices [start,end) of each case in the op stream"""
    starts = [i for i, l in enumerate(ops) if l.startswith("case")]
    return [(s, (starts[j + 1] if j + 1 < len(starts) else len(ops))) for j, s in enumerate(starts)]


def vals(line):
    return line.split(" |")[0]


def strip(line):
    """drops the order-sensitivity marker"""
    return line[:-2] if line.endswith(" ~") else line


def run_shard(binpath, mode, seed, tier, n, outdir, replay=None, toggles_sets=(), core=True):
    os.makedirs(outdir, exist_ok=True)
    cmd = [binpath, "--seed", str(seed), "--tier", tier, "--out", outdir, "--mode", mode, "--n", str(n)]
    if replay: cmd += ["--replay", replay]
    p = subprocess.run(cmd, stdout=subprocess.PIPE, stderr=subprocess.STDOUT, text=True, timeout=7200)
    if p.returncode != 0:
        return {"error": f"harness exited {p.returncode}: {p.stdout[-2000:]}"}
    outs = {}
    for name, args in [("asis", []), ("desc", ["desc"])] + [(" ".join(t), list(t)) for t in toggles_sets] + ([("core", ["core"])] if core else []):
        path = os.path.join(outdir, "model_" + name.replace(" ", "_") + ".txt")
        rc, err = vlib.run_driver("drv_engine", os.path.join(outdir, "ops.txt"), path, args)
        if rc != 0:
            return {"error": f"driver {name} exited {rc}: {err[-1000:]}"}
        outs[name] = open(path).read().split("\n")
    rd = lambda f: open(os.path.join(outdir, f)).read().split("\n")
    return {"ops": rd("ops.txt"), "impl": rd("impl.txt"), "expect": rd("expect.txt"), "models": outs,
            "report": json.load(open(os.path.join(outdir, "report.json")))}


def analyse(sh, single_toggles):
    """Per-case classification. Returns dict with lists of case records."""
    ops, impl, exp, models = sh["ops"], sh["impl"], sh["expect"], sh["models"]
    raw = models["asis"]
    asis = [strip(l) for l in raw]
    desc = [strip(l) for l in models["desc"]]
    for k in list(models):
        if k not in ("core",): models[k] = [strip(l) for l in models[k]]
    allname = " ".join(ALL_TOGGLES)
    rep_all = models.get(allname)
    res = {"cases": 0, "lines": 0, "impl_fail_cases": [], "disagree": [], "excused_disagree": 0,
           "core_lines": 0, "core_cases": 0, "core_disagree": [], "attributed": {}, "unexplained": [],
           "exec_disagree": [], "model_asis_unsound_cases": 0, "order_sensitive_cases": 0,
           "order_matched_desc": 0, "order_unresolved": 0}
    for (a, b) in split_cases(ops):
        if b - a <= 1: continue
        res["cases"] += 1
        idx = [i for i in range(a, b) if ops[i].startswith(("session", "round"))]
        res["lines"] += len(idx)
        impl_ok = all(vals(impl[i]) == exp[i] for i in idx)
        model_ok = all(vals(asis[i]) == exp[i] for i in idx)
        rep_ok = rep_all is not None and all(vals(rep_all[i]) == exp[i] for i in idx)
        text = "\n".join(ops[a:b])
        if not model_ok: res["model_asis_unsound_cases"] += 1
        if not impl_ok:
            bad = next(i for i in idx if vals(impl[i]) != exp[i])
            rec = {"case": text, "line": ops[bad], "impl": impl[bad], "expected": exp[bad]}
            res["impl_fail_cases"].append(rec)
            # attribution (DESIGN §2.4): (a) the as-is model — the formal description of the known
            # behaviour, walked in ascending or descending set order — predicts exactly this failure, or
            # (b) the model with a known finding's toggle switched to "repaired" meets the oracle here.
            who = None
            for t in single_toggles:
                m = models.get(t)
                if m is not None and all(vals(m[i]) == exp[i] for i in idx): who = t; break
            if who is None and rep_ok: who = "+".join(single_toggles)
            if who is None and (all(vals(impl[i]) == vals(asis[i]) for i in idx) or all(vals(impl[i]) == vals(desc[i]) for i in idx)):
                who = "model"
            if who is None: res["unexplained"].append(rec)
            else: res["attributed"].setdefault(who, []).append(rec)
        # tie: as-is model vs implementation
        dis = [i for i in idx if impl[i] != asis[i]]
        order_sensitive = any(raw[i].endswith(" ~") for i in idx) or any(models["desc"][i] != asis[i] for i in idx)
        if order_sensitive: res["order_sensitive_cases"] += 1
        if dis:
            i = dis[0]
            rec = {"case": text, "op": ops[i], "impl": impl[i], "model": asis[i]}
            if order_sensitive and all(impl[j] == desc[j] for j in idx):
                res["order_matched_desc"] += 1
            elif order_sensitive:
                # the code walked a >=2-element firewall/projection set in hash order; the model cannot
                # reproduce that order: judged by the oracle only
                res["order_unresolved"] += 1
            elif rep_ok and (not impl_ok or not model_ok):
                res["excused_disagree"] += 1     # known finding manifests on one side only (hash-set order)
            elif all(vals(impl[j]) == vals(asis[j]) for j in dis):
                res["exec_disagree"].append(rec)
            else:
                res["disagree"].append(rec)
        # core model
        core = models.get("core")
        if core is not None:
            cidx = [i for i in idx if core[i] != "skip"]
            if cidx and len(cidx) == len(idx): res["core_cases"] += 1
            res["core_lines"] += len(cidx)
            for i in cidx:
                if core[i] != impl[i]:
                    res["core_disagree"].append({"case": text, "op": ops[i], "impl": impl[i], "model": core[i]}); break
    return res


def run_all(ctx, mode, n_quick, n_thorough, single_toggles):
    ok, out, dt, binpath = vlib.cargo_build("engine")
    ctx.notes.append(f"cargo build engine {dt:.1f}s")
    if not ok:
        return None, f"harness build failed:\n{out[-3000:]}"
    n = n_quick if ctx.quick() else n_thorough
    shards = list(range(ctx.jobs))
    tsets = [[t] for t in single_toggles] + [ALL_TOGGLES]
    if ctx.replay:
        shards = [0]
    def one(i):
        return run_shard(binpath, mode, ctx.seed * 1000 + i, ctx.tier, n, os.path.join(ctx.work, f"{mode}-{i}"),
                         replay=ctx.replay, toggles_sets=tsets, core=(mode != "cyclic"))
    results = vlib.shard_map(one, shards, ctx.jobs)
    for r in results:
        if "error" in r: return None, r["error"]
    return results, None
