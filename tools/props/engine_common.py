"""Shared correspondence driver for the engine-level properties (C01, C03, C06).

One harness run (real engine, in-process) produces ops.txt / impl.txt / expect.txt / report.json per
shard; the Lean driver `drv_engine` is run on the same ops as: the as-is full model, the full model
with each known-finding toggle and with all of them (attribution, DESIGN §2.4), and the core model
(the one the C01/C03 theorems are about; answers `skip` outside its fragment).
"""
import json, os, subprocess, sys
sys.path.insert(0, os.path.dirname(os.path.dirname(os.path.abspath(__file__))))
import vlib

ALL_TOGGLES = ["f3"]   # f1p f1q f1r f14 (F1, F14), f2, f16, f33 are fixed in /repo: part of the as-is model now


def split_cases(ops):
    """indices [start,end) of each case in the op stream"""
    starts = [i for i, l in enumerate(ops) if l.startswith("case")]
    return [(s, (starts[j + 1] if j + 1 < len(starts) else len(ops))) for j, s in enumerate(starts)]


def vals(line):
    return line.split(" |")[0]


def strip(line):
    """drops the order-sensitivity marker"""
    return line[:-2] if line.endswith(" ~") else line


STATE_SEP = " #S "
STATE_MAX_CASES = 2000      # per shard: digests for the first N cases of a shard (quick shards have ~410 cases: all of them)


def run_shard(binpath, mode, seed, tier, n, outdir, replay=None, toggles_sets=(), core=True, state=False):
    """state=True (acyclic modes): the harness also writes state_impl.txt (a digest of the real engine's
    persistent bookkeeping after every session / round, read through the read-only hook
    qbice::verif::dump_node) and the as-is / descending model runs append ` #S <digest of St>` to their
    lines; the digests are split off here and compared in `analyse`."""
    os.makedirs(outdir, exist_ok=True)
    cmd = [binpath, "--seed", str(seed), "--tier", tier, "--out", outdir, "--mode", mode, "--n", str(n)]
    if replay: cmd += ["--replay", replay]
    if state: cmd += ["--state", "--state-max", str(STATE_MAX_CASES)]
    p = subprocess.run(cmd, stdout=subprocess.PIPE, stderr=subprocess.STDOUT, text=True, timeout=7200)
    if p.returncode != 0:
        return {"error": f"harness exited {p.returncode}: {p.stdout[-2000:]}"}
    outs, mstates = {}, {}
    st = ["state", f"statemax={STATE_MAX_CASES}"] if state else []
    for name, args in [("asis", st), ("desc", ["desc"] + st)] + [(" ".join(t), list(t)) for t in toggles_sets] + ([("core", ["core", "corefull"])] if core else []):
        path = os.path.join(outdir, "model_" + name.replace(" ", "_") + ".txt")
        rc, err = vlib.run_driver("drv_engine", os.path.join(outdir, "ops.txt"), path, args)
        if rc != 0:
            return {"error": f"driver {name} exited {rc}: {err[-1000:]}"}
        lines = open(path).read().split("\n")
        if "state" in args:
            parts = [l.split(STATE_SEP, 1) for l in lines]
            lines = [p[0] for p in parts]
            mstates[name] = [(p[1] if len(p) == 2 else None) for p in parts]
        outs[name] = lines
    rd = lambda f: open(os.path.join(outdir, f)).read().split("\n")
    sh = {"ops": rd("ops.txt"), "impl": rd("impl.txt"), "expect": rd("expect.txt"), "models": outs,
          "report": json.load(open(os.path.join(outdir, "report.json")))}
    if state:
        if not os.path.exists(os.path.join(outdir, "state_impl.txt")):
            return {"error": "harness did not write state_impl.txt (--state)"}
        sh["state_impl"] = rd("state_impl.txt")
        sh["model_states"] = mstates
        if len(sh["state_impl"]) != len(sh["ops"]):
            return {"error": f"state_impl.txt has {len(sh['state_impl'])} lines, ops.txt {len(sh['ops'])}"}
    return sh


def run_model_on_case(case_lines, args):
    """runs drv_engine on one case (list of op lines) with extra args; returns stripped output lines"""
    p = subprocess.run([vlib.driver_path("drv_engine"), *args], input="\n".join(case_lines) + "\n",
                       stdout=subprocess.PIPE, stderr=subprocess.PIPE, text=True, timeout=120)
    return [strip(l) for l in p.stdout.split("\n")[:len(case_lines)]]


def tapes(budget=240):
    """order tapes for the model's choice points (Lehmer indices), shortest first"""
    import itertools
    out = [()]
    for n in (1, 2, 3):
        out += list(itertools.product(range(6), repeat=n))
    return out[:budget]


def find_order(case_lines, impl_lines, idx0, values_only, extra=()):
    """searches an order of the as-is model that reproduces the implementation's lines of this case"""
    for t in tapes():
        args = list(extra) + (["tape=" + ",".join(map(str, t))] if t else [])
        out = run_model_on_case(case_lines, args)
        if len(out) < len(case_lines): continue
        if all((vals(out[i]) == vals(impl_lines[i])) if values_only else (out[i] == impl_lines[i]) for i in idx0):
            return t
    return None


def inv_check(outdir, pid):
    """Pipes outdir/inv_ops.txt (case / node lines, op lines each followed by `#D <digest of the real engine's state>`)
    through the Lean checker of the PROVED engine invariant (`drv_engine inv`: one answer per `#D` line).  Returns
    {"counts": {answer: n}, "fails": [oracle failures]}; the case of a failure is the block of the file it occurs in."""
    src = os.path.join(outdir, "inv_ops.txt")
    if not os.path.exists(src): return None
    dst = os.path.join(outdir, "inv_out.txt")
    rc, err = vlib.run_driver("drv_engine", src, dst, ["inv"])
    if rc != 0: return {"error": f"drv_engine inv exited {rc}: {err[-600:]}"}
    lines = open(src).read().split("\n")
    res = [l for l in open(dst).read().split("\n") if l != ""]
    n_d = sum(1 for l in lines if l.startswith("#D"))
    if n_d != len(res): return {"error": f"drv_engine inv: {n_d} #D lines but {len(res)} answers"}
    counts, fails, j, start, last_op = {}, [], 0, 0, ""
    for i, l in enumerate(lines):
        if l.startswith("case"): start = i
        elif l.startswith("#D"):
            r = res[j]; j += 1
            key = " ".join(r.split()[:2])
            counts[key] = counts.get(key, 0) + 1
            if r.startswith(("inv FAIL", "inv bad-digest")):
                sig = f"{pid}:state-invariant:inv:" + ":".join(r.split()[1:3])
                if sum(1 for f in fails if f["sig"] == sig) < 2:
                    end = next((k for k in range(i + 1, len(lines)) if lines[k].startswith("case")), len(lines))
                    fails.append({"sig": sig, "desc": f"after `{last_op[:80]}` the Lean checker of the proved engine invariant answers `{r}` on the dumped state {l[3:500]}",
                                  "case": "\n".join(x for x in lines[start:end] if not x.startswith("#D"))})
        elif not l.startswith(("node", "#", "cfg")): last_op = l
    return {"counts": counts, "fails": fails}


def state_diff(model, impl):
    """first differing node of two digests: (key, differing field names, model node, impl node)"""
    mp = {x.split(":", 1)[0]: x for x in model.split(" ; ") if x}
    ip = {x.split(":", 1)[0]: x for x in impl.split(" ; ") if x}
    for k in sorted(set(mp) | set(ip), key=lambda x: int(x) if x.isdigit() else -1):
        a, b = mp.get(k), ip.get(k)
        if a == b: continue
        if a is None or b is None: return k, ["node-presence"], a, b
        names = ["key", "kind", "verified", "val", "deps", "obs", "dirty", "tfc", "pend", "back"]
        fa, fb = a.split(":"), b.split(":")
        return k, [names[j] if j < len(names) else "?" for j in range(max(len(fa), len(fb))) if (fa[j:j + 1] != fb[j:j + 1])], a, b
    return None, [], None, None


def analyse(sh, single_toggles):
    """Per-case classification (DESIGN §2.4, §10.2).

    tie:         a case without order choice points must agree line by line (values and executor
                 invocations) with the as-is model; a case with choice points must agree with SOME
                 order of the as-is model (ascending, descending, or an order found by the tape
                 search); if none reproduces it the case is judged by the oracle only.
    attribution: an oracle failure of the implementation is attributed to the known engine findings
                 only if some order of the AS-IS model reproduces exactly the values the
                 implementation returned (the formal model of the known behaviour predicts this
                 failure); the finding's name comes from which toggle repairs that run.
    """
    ops, impl, exp, models = sh["ops"], sh["impl"], sh["expect"], sh["models"]
    raw = models["asis"]
    asis = [strip(l) for l in raw]
    desc = [strip(l) for l in models["desc"]]
    for k in list(models):
        if k not in ("core",): models[k] = [strip(l) for l in models[k]]
    res = {"cases": 0, "lines": 0, "impl_fail_cases": [], "disagree": [], "excused_disagree": 0,
           "core_lines": 0, "core_cases": 0, "core_disagree": [], "attributed": {}, "unexplained": [],
           "exec_disagree": [], "model_asis_unsound_cases": 0, "order_sensitive_cases": 0,
           "order_matched_desc": 0, "order_matched_tape": 0, "order_unresolved": 0, "order_values_only": 0,
           "state_lines": 0, "state_cases": 0, "state_skipped_cases": 0, "state_skipped_lines": 0, "state_disagree": [],
           "state_os_match_asc": 0, "state_os_match_desc": 0, "state_os_match_neither": 0, "state_nodes": 0, "state_cases_without_digest": 0}
    st_impl = sh.get("state_impl")
    st_asis = (sh.get("model_states") or {}).get("asis")
    st_desc = (sh.get("model_states") or {}).get("desc")
    for (a, b) in split_cases(ops):
        if b - a <= 1: continue
        res["cases"] += 1
        idx = [i for i in range(a, b) if ops[i].startswith(("session", "round"))]
        res["lines"] += len(idx)
        impl_ok = all(vals(impl[i]) == exp[i] for i in idx)
        model_ok = all(vals(asis[i]) == exp[i] for i in idx)
        case_lines = ops[a:b]
        text = "\n".join(case_lines)
        idx0 = [i - a for i in idx]
        impl_case = impl[a:b]
        if not model_ok: res["model_asis_unsound_cases"] += 1
        dis = [i for i in idx if impl[i] != asis[i]]
        # scheduling the sequential model cannot express: >= 2-element firewall / projection sets walked
        # in hash order by spawned tasks (choice points), and unordered read groups whose members are
        # read concurrently (join_all) inside one executor
        unordered = "unordered" in ops[a]
        order_sensitive = unordered or any(raw[i].endswith(" ~") for i in idx) or any(desc[i] != asis[i] for i in idx)
        if order_sensitive: res["order_sensitive_cases"] += 1
        reproduced_values = not any(vals(impl[i]) != vals(asis[i]) for i in idx)   # as-is (ascending) predicts impl's values
        # STATE-LEVEL tie: after every session / round that both sides completed, the digest of the real
        # engine's persistent bookkeeping (kind, verified-this-epoch, stored value, recorded dependencies in
        # order, observations and whether they are still current, dirty edges, firewall set, pending flag,
        # callers) must EQUAL the digest of the model state.  Strict for cases without order choice points;
        # cases with choice points are not judged (counted; matching the ascending / descending run is recorded).
        if st_impl is not None and st_asis is not None:
            sidx = [i for i in idx if st_asis[i] is not None and st_impl[i] not in ("", "crash", "-")]
            if not sidx: res["state_cases_without_digest"] += 1
            elif not order_sensitive:
                res["state_cases"] += 1
                for i in sidx:
                    res["state_lines"] += 1
                    res["state_nodes"] += st_impl[i].count(" ; ") + 1
                    if st_impl[i] != st_asis[i]:
                        k, fields, mnode, inode = state_diff(st_asis[i], st_impl[i])
                        res["state_disagree"].append({"case": text, "op": ops[i], "impl": f"state after the op, node {k}: {inode}",
                                                      "model": f"state after the op, node {k}: {mnode}", "fields": fields})
                        break
            else:
                res["state_skipped_cases"] += 1
                res["state_skipped_lines"] += len(sidx)
                if all(st_impl[i] == st_asis[i] for i in sidx): res["state_os_match_asc"] += 1
                elif st_desc is not None and all(st_desc[i] is not None and st_impl[i] == st_desc[i] for i in sidx): res["state_os_match_desc"] += 1
                else: res["state_os_match_neither"] += 1
        label_args = []
        if dis:
            i = dis[0]
            rec = {"case": text, "op": ops[i], "impl": impl[i], "model": asis[i]}
            if not order_sensitive:
                if all(vals(impl[j]) == vals(asis[j]) for j in dis): res["exec_disagree"].append(rec)
                else: res["disagree"].append(rec)
            elif all(impl[j] == desc[j] for j in idx):
                res["order_matched_desc"] += 1; reproduced_values = True; label_args = ["desc"]
            else:
                t = find_order(case_lines, impl_case, idx0, values_only=False)
                if t is not None:
                    res["order_matched_tape"] += 1; reproduced_values = True; label_args = ["tape=" + ",".join(map(str, t))]
                else:
                    t = find_order(case_lines, impl_case, idx0, values_only=True)
                    if t is not None:
                        res["order_values_only"] += 1; reproduced_values = True; label_args = ["tape=" + ",".join(map(str, t))]
                    else:
                        # no order of the model reproduces the implementation: judged by the oracle only
                        res["order_unresolved"] += 1
        if not impl_ok:
            bad = next(i for i in idx if vals(impl[i]) != exp[i])
            rec = {"case": text, "line": ops[bad], "impl": impl[bad], "expected": exp[bad]}
            res["impl_fail_cases"].append(rec)
            who = None
            if reproduced_values:
                who = "model"
                for t in single_toggles:
                    out = run_model_on_case(case_lines, label_args + [t]) if label_args else [strip(l) for l in models[t][a:b]]
                    if len(out) >= len(case_lines) and all(vals(out[i]) == exp[a + i] for i in idx0): who = t; break
            elif order_sensitive:
                # no order of the sequential model reproduces this run (the engine's own tasks interleave);
                # rule (b) of DESIGN 2.4: a known finding's toggle repairs the case in the model
                for t in single_toggles:
                    m = models.get(t)
                    if m is not None and all(vals(m[i]) == exp[i] for i in idx): who = t + "(interleaved)"; break
            if who is None: res["unexplained"].append(rec)
            else: res["attributed"].setdefault(who, []).append(rec)
        # core model
        core = models.get("core")
        if core is not None:
            cidx = [i for i in idx if core[i] != "skip"]
            if cidx and len(cidx) == len(idx): res["core_cases"] += 1
            res["core_lines"] += len(cidx)
            for i in cidx:
                # order-sensitive cases (>= 2-element firewall/projection sets, unordered groups): values only
                same = (vals(core[i]) == vals(impl[i])) if order_sensitive else (strip(core[i]) == impl[i])
                if not same:
                    res["core_disagree"].append({"case": text, "op": ops[i], "impl": impl[i], "model": core[i]}); break
    return res


def run_all(ctx, mode, n_quick, n_thorough, single_toggles, state=True):
    ok, out, dt, binpath = vlib.cargo_build("engine")
    ctx.notes.append(f"cargo build engine {dt:.1f}s")
    if not ok:
        return None, f"harness build failed:\n{out[-3000:]}"
    n = n_quick if ctx.quick() else n_thorough
    shards = list(range(ctx.jobs))
    tsets = [[t] for t in single_toggles] + [ALL_TOGGLES]
    if ctx.replay:
        shards = [0]
    def one(i):
        return run_shard(binpath, mode, ctx.seed * 1000 + i, ctx.tier, n, os.path.join(ctx.work, f"{mode}-{i}"),
                         replay=ctx.replay, toggles_sets=tsets, core=(mode != "cyclic"),
                         # VERIF_NO_STATE_TIE=1: diagnostic switch used only to measure what the state tie adds
                         state=(state and mode != "cyclic" and not os.environ.get("VERIF_NO_STATE_TIE")))
    results = vlib.shard_map(one, shards, ctx.jobs)
    for r in results:
        if "error" in r: return None, r["error"]
    return results, None
