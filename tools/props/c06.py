"""C06 — dependency cycles are detected: they terminate with cycle defaults (DESIGN §5.6).

Three ties on every run, all over the same generated cases (`engine --mode cyclic`: random programs with
forward references = cycles, self-loops, several SCCs, cycles through firewalls/projections, histories of
sessions that switch conditional cycle edges on and off; canonical replays of corpus/engine-cyclic first):

  1. fresh evaluation: the implementation vs the cycle model the theorems are about (`drv_engine cyc`,
     Model/Cycle.lean) on every line up to the second session of each case — strict, every line;
  2. whole histories: the implementation vs the as-is full model (`drv_engine`, Model/Engine.lean, which
     models panics as unwinding through drop guards and `catch_unwind`) — strict except for cases where the
     code walks a >=2-element hash set (order-sensitive, marked by the model);
  3. the independent oracle in the harness (depth-first from-scratch cycle semantics) judges the
     implementation; every failing case must be attributed to a recorded finding: a toggled ("repaired")
     model meets the oracle on the whole case, or the as-is model predicts exactly what the implementation did.

A second harness bin (`cycle`) covers fresh evaluation systematically: every digraph on 3 keys, random
digraphs on 4-6 keys and random conditional programs, each run once per PERMUTATION of its roots on a fresh
engine; its oracle checks the from-scratch semantics and that all permutations agree key by key ("all choices
of the queried roots": proved for the model as `cycle_order_independent`, Props/C06.lean — any two root lists,
every key both evaluate, value and mark; here it is checked on the implementation); every line is tied to both
Lean models, strictly.

Env: VERIF_ENGINE_BIN / VERIF_CYCLE_BIN = prebuilt harness binaries (used to evaluate patches and mutations on a
private copy of the repo without touching /repo).
"""
import os, re, sys
sys.path.insert(0, os.path.dirname(os.path.dirname(os.path.abspath(__file__))))
import vlib
from props import engine_common as ec

PID = "C06"
LEAN_MODULES = ["QbiceVerif.Props.C06", "QbiceVerif.Props.C06Inc", "QbiceVerif.Props.NonVacuity.C06"]
DRIVER = "drv_engine"
HARNESS_BIN = "engine"
HARNESS_FEATURES = ""

# toggle sets tried for attribution, most specific first.  F3/F31/F32 were repaired in /repo by 1f41826 (model
# toggles f34 f35 f36, on by default): no known finding is left for C06, nothing is attributed any more; the
# historical toggles f3 / f31 / f32 (earlier candidate repairs) stay in the model for Props/C06Inc.lean only.
TOGGLE_SETS = []

PARTIAL = [
    "cycle_incremental (values after edits that create/remove cycles equal the from-scratch values) is NOT a theorem: "
    "it is decided by the correspondence (full model = implementation line by line, incl. the state-level tie) and "
    "the from-scratch oracle on generated cyclic programs x edit histories. It was FALSE for the code as found: "
    "findings F2, F16, F33 (fixed 531aeb1, 3fbfd09, 4685b5a), F30 (gone with 2abe9f6) and F3, F31, F32, repaired by "
    "1f41826 (a run that ends inside an SCC records no observations, carries itself in its transitive-firewall set "
    "and propagates like a firewall): the design was found with the model as a testbed (toggles f34 f35 f36: 0 "
    "failing lines on 720 000 lines of the cyclic stream under both walk orders, 2 370 before), the patched "
    "implementation equals that model on 30 000 cyclic cases incl. executor sets, acyclic behaviour is unchanged. "
    "Kernel-checked witnesses for every historical defect and for its repair are in Props/C06Inc.lean "
    "(cycle_incremental_asis_fails_* / _fixed_*). No known finding is left: any wrong value, panic or hang on a "
    "cyclic case is a VIOLATION.",
    "concurrent requests (two tasks entering one SCC from two sides) are outside these sequential models (C02's LTS); "
    "this includes the interleaving of the engine's own spawned repair tasks when a query has >= 2 transitive firewall "
    "callees or backward projections (cases marked order-sensitive). Finding F33 (a hang of check_cyclic_internal in "
    "exactly that situation) was fixed in /repo (4685b5a: visited set); its replay "
    "corpus/engine-cyclic/F33-hang-in-spawned-task.txt is a regression case that must run clean on every shard: a "
    "hang there, or any hang of the implementation that no order of the model shows, is a VIOLATION.",
]
ASSUMPTIONS = [
    "state-level tie (incremental stream): on every generated case whose values and executor invocations agree strictly "
    "with the as-is full model (no order choice point; this includes the cases where both show a known finding), the digest "
    "of the real engine's persistent bookkeeping after every session / round (engine_common / eng::state_digest) must equal "
    "the digest of the model state; the model's `sccRun` bit (not stored by the code) is not in the digest; other cases are "
    "counted, not judged",
    "fingerprints are injective on the values of a run (value = fingerprint in the models; C13)",
    "sequential driving of the engine (one task at a time, current-thread runtime, YieldFrequency::Never)",
    "executors ask only for keys that exist (WFProgram) and do not catch the cyclic unwinding themselves",
]
TRUSTED_EXTRA = [
    "modelled, not verified: tokio runtime/JoinSet (spawned chunks run one after the other to completion), "
    "scc::HashMap (check_cyclic_internal's walk over callee_queries is modelled with its visited set, 4685b5a; in the "
    "fresh-evaluation model of the theorems the walk is the older one without the set and is PROVED never to exhaust "
    "its fuel), the in-memory storage engine",
    "theorems are about Model/Cycle.lean (fresh evaluation); Model/Engine.lean (incremental) is tied by "
    "correspondence only",
]


def vals(l):
    return l.split(" |")[0]


def strip(l):
    l = re.sub(r" \[[^\]]*\]", "", l)          # model message (msg mode)
    return l[:-2] if l.endswith(" ~") else l


def classify(msg_line):
    if "forward_edge_observation" in msg_line: return "panic-missing-observation"
    if "check_cyclic_internal" in msg_line: return "hang-check-cyclic"
    if "repair_transitive_firewall_callees" in msg_line: return "hang-tfc-recursion"
    if msg_line.startswith("crash panic"): return "panic-other"
    if msg_line.startswith("crash hang"): return "hang-other"
    if msg_line.startswith("crash"): return "crash-other"
    return "value"


def run_shard(binpath, seed, tier, n, outdir, replay):
    import subprocess, json
    os.makedirs(outdir, exist_ok=True)
    cmd = [binpath, "--seed", str(seed), "--tier", tier, "--out", outdir, "--mode", "cyclic", "--n", str(n)]
    if replay: cmd += ["--replay", replay]
    # state-level tie (see engine_common.run_shard): digest of the real engine's persistent bookkeeping after every op
    state = not os.environ.get("VERIF_NO_STATE_TIE")
    if state: cmd += ["--state", "--state-max", str(ec.STATE_MAX_CASES)]
    p = subprocess.run(cmd, stdout=subprocess.PIPE, stderr=subprocess.STDOUT, text=True, timeout=7200)
    if p.returncode != 0:
        return {"error": f"harness exited {p.returncode}: {p.stdout[-2000:]}"}
    outs = {}
    runs = [("asis", ["msg"] + (["state", f"statemax={ec.STATE_MAX_CASES}"] if state else [])), ("desc", ["desc"]), ("cyc", ["cyc"])] + [("+".join(t), list(t)) for t in TOGGLE_SETS]
    mstate = None
    for name, args in runs:
        path = os.path.join(outdir, "model_" + name + ".txt")
        rc, err = vlib.run_driver("drv_engine", os.path.join(outdir, "ops.txt"), path, args)
        if rc != 0:
            return {"error": f"driver {name} exited {rc}: {err[-1000:]}"}
        lines = open(path).read().split("\n")
        if "state" in args:
            parts = [l.split(ec.STATE_SEP, 1) for l in lines]
            lines = [q[0] for q in parts]
            mstate = [(q[1] if len(q) == 2 else None) for q in parts]
        outs[name] = lines
    rd = lambda f: open(os.path.join(outdir, f)).read().split("\n")
    sh = {"ops": rd("ops.txt"), "impl": rd("impl.txt"), "expect": rd("expect.txt"), "models": outs,
          "report": json.load(open(os.path.join(outdir, "report.json")))}
    if state:
        if not os.path.exists(os.path.join(outdir, "state_impl.txt")): return {"error": "harness did not write state_impl.txt (--state)"}
        sh["state_impl"], sh["model_state"] = rd("state_impl.txt"), mstate
    return sh


def analyse(sh):
    ops, impl, exp, models = sh["ops"], sh["impl"], sh["expect"], sh["models"]
    raw = models["asis"]
    asis = [strip(l) for l in raw]
    desc = [strip(l) for l in models["desc"]]
    cyc = models["cyc"]
    res = {"cases": 0, "lines": 0, "cyc_lines": 0, "cyc_disagree": [], "disagree": [], "order_sensitive": 0,
           "order_matched_desc": 0, "order_matched_tape": 0, "order_unresolved": 0, "impl_fail": 0, "attributed": {}, "unexplained": [],
           "classes": {}, "state_lines": 0, "state_cases": 0, "state_cases_not_judged": 0, "state_disagree": []}
    st_i, st_m = sh.get("state_impl"), sh.get("model_state")
    for (a, b) in ec.split_cases(ops):
        if b - a <= 1: continue
        res["cases"] += 1
        idx = [i for i in range(a, b) if ops[i].startswith(("session", "round")) and i < len(impl) and impl[i] != ""]
        res["lines"] += len(idx)
        text = "\n".join(ops[a:b])
        # 1. fresh evaluation vs the cycle model (strict)
        for i in idx:
            if i < len(cyc) and cyc[i] != "skip":
                res["cyc_lines"] += 1
                if cyc[i] != impl[i]:
                    res["cyc_disagree"].append({"case": text, "op": ops[i], "impl": impl[i], "model": cyc[i]}); break
        # 2. whole history vs the as-is model
        osens = any(raw[i].endswith(" ~") for i in idx) or any(desc[i] != asis[i] for i in idx)
        if osens: res["order_sensitive"] += 1
        dis = [i for i in idx if impl[i] != asis[i]]
        same_asis = not dis
        same_desc = all(impl[i] == desc[i] for i in idx)
        same_tape = False
        if dis:
            if osens and same_desc: res["order_matched_desc"] += 1
            elif osens:
                # some other order of the two hash-set walks (order tape, engine_common.find_order)
                k0 = [i - a for i in idx]
                t = ec.find_order(ops[a:b], impl[a:b], k0, values_only=False)
                if t is None: t = ec.find_order(ops[a:b], impl[a:b], k0, values_only=True)
                if t is not None: res["order_matched_tape"] += 1; same_tape = True
                else: res["order_unresolved"] += 1
            else: res["disagree"].append({"case": text, "op": ops[dis[0]], "impl": impl[dis[0]], "model": asis[dis[0]]})
        # 2b. STATE-LEVEL tie, only on cases whose values and executor invocations agree STRICTLY with the as-is model
        # (no order choice point, every line equal — including the cases where both show a known finding F3/F31/F32):
        # after every op the digest of the real engine's persistent bookkeeping equals the digest of the model state
        # (the model's `sccRun` bit, which the code does not store, is not part of the digest)
        if st_i is not None and st_m is not None:
            if osens or dis: res["state_cases_not_judged"] += 1
            else:
                sidx = [i for i in idx if i < len(st_m) and st_m[i] is not None and i < len(st_i) and st_i[i] not in ("", "crash", "-")]
                if sidx: res["state_cases"] += 1
                for i in sidx:
                    res["state_lines"] += 1
                    if st_i[i] != st_m[i]:
                        k, fields, mnode, inode = ec.state_diff(st_m[i], st_i[i])
                        res["state_disagree"].append({"tie": "state digest, full as-is model", "case": text, "op": ops[i], "fields": fields,
                                                      "impl": f"state after the op, node {k}: {inode}", "model": f"state after the op, node {k}: {mnode}"})
                        break
        # 3. oracle + attribution
        bad = [i for i in idx if vals(impl[i]) != (exp[i] if i < len(exp) else None)]
        if bad:
            res["impl_fail"] += 1
            i = bad[0]
            rec = {"case": "\n".join(ops[a:i + 1]), "line": ops[i], "impl": impl[i], "expected": exp[i] if i < len(exp) else None}
            who = None
            # a failure is attributable to a recorded finding only if SOME order of the as-is model
            # reproduces what the implementation did on this case …
            reproduced = same_asis or same_desc or same_tape
            # … and then to the smallest set of findings whose repair makes the model meet the oracle
            for t in (TOGGLE_SETS if reproduced else []):
                m = [strip(l) for l in models["+".join(t)]]
                if all(vals(m[j]) == exp[j] for j in idx if j < len(exp)): who = "attributed:" + "+".join(t); break
            if who is None and (same_asis or same_desc):
                src = raw if same_asis else models["desc"]
                who = "model:" + classify(src[i] if impl[i].startswith("crash") else "value")
            if who is None: res["unexplained"].append(rec)
            else: res["attributed"].setdefault(who, []).append(rec)
            cl = classify(raw[i]) if impl[i].startswith("crash") else "value"
            res["classes"][cl] = res["classes"].get(cl, 0) + 1
    return res


def run_fresh(binpath, ctx, i, n):
    """the `cycle` bin: fresh evaluation under every permutation of the roots"""
    import subprocess, json
    outdir = os.path.join(ctx.work, f"fresh-{i}")
    os.makedirs(outdir, exist_ok=True)
    cmd = [binpath, "--seed", str(ctx.seed * 1000 + i), "--tier", ctx.tier, "--out", outdir, "--n", str(n),
           "--shard", str(i), "--shards", str(ctx.jobs)]
    if ctx.replay: cmd += ["--replay", ctx.replay]
    p = subprocess.run(cmd, stdout=subprocess.PIPE, stderr=subprocess.STDOUT, text=True, timeout=7200)
    if p.returncode != 0:
        return {"error": f"cycle harness exited {p.returncode}: {p.stdout[-2000:]}"}
    res = {"report": json.load(open(os.path.join(outdir, "report.json"))), "diffs": [], "lines": 0}
    for name, args in [("cycle model (Model/Cycle.lean)", ["cyc"]), ("full as-is (Model/Engine.lean)", [])]:
        path = os.path.join(outdir, "model_" + (args[0] if args else "asis") + ".txt")
        rc, err = vlib.run_driver("drv_engine", os.path.join(outdir, "ops.txt"), path, args)
        if rc != 0:
            return {"error": f"driver {name} exited {rc}: {err[-1000:]}"}
        n_lines, diffs = vlib.diff_streams(os.path.join(outdir, "impl.txt"), path, os.path.join(outdir, "ops.txt"), limit=2)
        res["lines"] += n_lines
        res["diffs"] += [{"which": name + ", fresh evaluation under all root orders", **d} for d in diffs]
    return res


def collect(ctx, n_quick=450, n_thorough=4000):
    res = vlib.Result()
    binpath = os.environ.get("VERIF_ENGINE_BIN")
    if binpath:
        ctx.notes.append(f"prebuilt harness binary {binpath}")
    else:
        ok, out, dt, binpath = vlib.cargo_build("engine")
        ctx.notes.append(f"cargo build engine {dt:.1f}s")
        if not ok:
            res.disagreements.append({"harness-error": out[-2000:]})
            return res, []
    n = n_quick if ctx.quick() else n_thorough
    shards = [0] if ctx.replay else list(range(ctx.jobs))
    one = lambda i: run_shard(binpath, ctx.seed * 1000 + i, ctx.tier, n, os.path.join(ctx.work, f"cyclic-{i}"), ctx.replay)
    results = vlib.shard_map(one, shards, ctx.jobs)
    for r in results:
        if "error" in r:
            res.disagreements.append({"harness-error": r["error"][:2000]})
            return res, []
    an = [analyse(r) for r in results]
    reps = [r["report"] for r in results]
    res.evaluations = sum(r["evaluations"] for r in reps)
    res.distinct_nontrivial = sum(r["distinct_nontrivial"] for r in reps)
    res.rule = reps[0]["rule"]
    res.samples = reps[0]["samples"][:3]
    res.lines_compared = sum(a["lines"] for a in an) + sum(a["cyc_lines"] for a in an)
    dist = {}
    for r in reps:
        for k, v in r["distribution"].items(): dist[k] = dist.get(k, 0) + v
    dist["lines_compared_with_as_is_full_model"] = sum(a["lines"] for a in an)
    dist["lines_compared_with_cycle_model_(fresh_evaluation)"] = sum(a["cyc_lines"] for a in an)
    dist["cases_with_order_choice_points"] = sum(a["order_sensitive"] for a in an)
    dist["order_sensitive_cases_matching_descending_model"] = sum(a["order_matched_desc"] for a in an)
    dist["order_sensitive_cases_matching_an_order_found_by_the_tape_search"] = sum(a["order_matched_tape"] for a in an)
    dist["order_sensitive_cases_matching_no_order_(oracle_only)"] = sum(a["order_unresolved"] for a in an)
    dist["cases_compared_strictly_with_as_is_model"] = sum(a["cases"] - a["order_sensitive"] for a in an)
    dist["cases_where_impl_violates_oracle"] = sum(a["impl_fail"] for a in an)
    if not os.environ.get("VERIF_NO_STATE_TIE"):
        dist["state_lines_compared"] = sum(a["state_lines"] for a in an)
        dist["state_cases_compared_(values_and_invocations_agree_strictly_with_as_is_model)"] = sum(a["state_cases"] for a in an)
        dist["state_cases_not_judged_(order_sensitive_or_value_tie_differs)"] = sum(a["state_cases_not_judged"] for a in an)
        dist["state_disagreements"] = sum(len(a["state_disagree"]) for a in an)
    cl = {}
    for a in an:
        for k, v in a["classes"].items(): cl[k] = cl.get(k, 0) + v
    dist["impl_failures_by_class"] = cl
    at = {}
    for a in an:
        for k, v in a["attributed"].items(): at[k] = at.get(k, 0) + len(v)
    dist["impl_failures_by_attribution"] = at
    # fresh evaluation under every permutation of the roots
    cbin = os.environ.get("VERIF_CYCLE_BIN")
    if not cbin:
        ok, out, dt, cbin = vlib.cargo_build("cycle")
        ctx.notes.append(f"cargo build cycle {dt:.1f}s")
        if not ok:
            res.disagreements.append({"harness-error": out[-2000:]})
            return res, []
    fresh = vlib.shard_map(lambda i: run_fresh(cbin, ctx, i, 150 if ctx.quick() else 1500), shards, ctx.jobs)
    fd = {}
    for f in fresh:
        if "error" in f:
            res.disagreements.append({"harness-error": f["error"][:2000]})
            return res, []
        res.evaluations += f["report"]["evaluations"]
        res.distinct_nontrivial += f["report"]["distinct_nontrivial"]
        res.lines_compared += f["lines"]
        res.disagreements += f["diffs"]
        res.oracle_failures += f["report"]["oracle_failures"]
        for k, v in f["report"]["distribution"].items(): fd[k] = fd.get(k, 0) + v
    fd["engine_runs_(one_per_permutation_of_the_roots)"] = sum(f["report"]["evaluations"] for f in fresh)
    fd["lines_compared_with_both_models"] = sum(f["lines"] for f in fresh)
    dist["fresh_evaluation_all_root_orders"] = fd
    res.rule = res.rule + " || " + fresh[0]["report"]["rule"]
    res.samples = res.samples[:2] + fresh[0]["report"]["samples"][:1]
    res.distribution = dist
    return res, an


def fill(res, an):
    for a in an:
        for who, recs in a["attributed"].items():
            for r in recs[:1]:
                res.oracle_failures.append({"sig": "C06:" + who, "desc": f"{r['line']} -> {r['impl']} expected {r['expected']}", "case": r["case"]})
        for r in a["unexplained"]:
            res.oracle_failures.append({"sig": "C06:unexplained", "desc": f"{r['line']} -> {r['impl']} expected {r['expected']} (not reproduced by any order of the as-is model, or not repaired by a known finding's toggles)", "case": r["case"]})
        for d in a["disagree"]:
            res.disagreements.append({"which": "full as-is (Model/Engine.lean)", **d})
        for d in a["cyc_disagree"]:
            res.disagreements.append({"which": "cycle model (Model/Cycle.lean)", **d})
        for d in a["state_disagree"][:3]:
            res.disagreements.append({"which": "full as-is (Model/Engine.lean), state digest", **d})


def run(ctx):
    res, an = collect(ctx)
    fill(res, an)
    return res


def search(ctx, res):
    ctx.notes.append("boosted search after broken proof/correspondence")
    res2, an = collect(ctx, n_quick=3000, n_thorough=12000)
    out = []
    for a in an:
        for r in a["unexplained"]:
            out.append({"sig": "C06:unexplained", "desc": f"{r['line']} -> {r['impl']} expected {r['expected']}", "case": r["case"]})
    return out[:3]
