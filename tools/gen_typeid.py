#!/usr/bin/env python3
"""C14 translator.

Reads, on every run,
  $QBICE_REPO/crates/stable_type_id/src/lib.rs          (every `impl … Identifiable for …`, including
                                                         the ones produced by the three macro_rules)
  $QBICE_REPO/crates/identifiable_derive_lib/src/lib.rs (the id computation `#[derive(Identifiable)]`
                                                         and `#[derive(Query)]` expand to)
and extracts the table   constructor ↦ name string(s) ↦ generic parameters ↦ combine-expression.
From the table it writes
  lean/QbiceVerif/Gen/TypeIdTable.lean   the table + a constructor-closed universe of type expressions
                                          + the swap / nesting / array-length / tuple-association pair
                                          families (the objects the C14 theorems are stated about)
  harness/gen/typeid_universe.rs          the same universe as Rust types (same order, same canonical
                                          strings) + the `#[derive(Identifiable)]` test types
Files are only rewritten when their content changes (keeps lake's / cargo's caches).

The translator is deliberately strict: any impl body, macro or derive code shape it does not
recognise raises TranslateError (the check then reports that it can no longer follow the source).
It also carries an independent Python implementation of the id functions, used by `search` to name
a colliding pair when the kernel proof of distinctness fails.
"""
import os, re, sys, json, random

VERIF = os.path.dirname(os.path.dirname(os.path.abspath(__file__)))
REPO = os.environ.get("QBICE_REPO", "/repo")
LEAN_OUT = os.path.join(VERIF, "lean", "QbiceVerif", "Gen", "TypeIdTable.lean")
RUST_OUT = os.path.join(VERIF, "harness", "gen", "typeid_universe.rs")
SRC_LIB = "crates/stable_type_id/src/lib.rs"
SRC_DERIVE = "crates/identifiable_derive_lib/src/lib.rs"
FEATURES = {"smallvec", "bitvec"}          # harness is built with feature `extras`
NSLICES = 8
HARNESS_BIN_CRATE = "typeid"               # module_path!() root of harness/src/bin/typeid.rs


class TranslateError(Exception):
    pass


# ------------------------------------------------------------------ reference implementation (Python)
M = 1 << 64
K0, K1, K2, K3 = 0x736f6d6570736575, 0x646f72616e646f6d, 0x6c7967656e657261, 0x7465646279746573
G0, G1 = 0x9e3779b97f4a7c15, 0xc2b2ae3586d40f00
A0, A1 = 0x1f83d9abfb41bd6b, 0x5be0cd19137e2179


def _rotl(x, k): return ((x << k) | (x >> (64 - k))) & (M - 1)


def _sipround(v0, v1, v2, v3):
    v0 = (v0 + v1) % M; v1 = _rotl(v1, 13); v1 ^= v0; v0 = _rotl(v0, 32)
    v2 = (v2 + v3) % M; v3 = _rotl(v3, 16); v3 ^= v2
    v0 = (v0 + v3) % M; v3 = _rotl(v3, 21); v3 ^= v0
    v2 = (v2 + v1) % M; v1 = _rotl(v1, 17); v1 ^= v2; v2 = _rotl(v2, 32)
    return v0, v1, v2, v3


def py_from_name(b):
    n = len(b)
    v = [K0 ^ n, K1 ^ ((n * G0) % M), K2, K3]
    i = 0
    while i + 8 <= n:
        w = int.from_bytes(b[i:i + 8], "little")
        v[0] ^= w; v = list(_sipround(*_sipround(*v))); v[3] ^= w; i += 8
    w = int.from_bytes(b[i:], "little") if i < n else 0
    v[0] ^= w; v = list(_sipround(*_sipround(*v))); v[3] ^= w
    for _ in range(4): v = list(_sipround(*v))
    v[0] ^= v[2]; v[1] ^= v[3]
    v = _sipround(*_sipround(*v))
    return (v[0] ^ v[1], v[2] ^ v[3])


def py_combine(a, b):
    v = [a[0] ^ K0, a[1] ^ K1, b[0] ^ K2, b[1] ^ K3]
    v = list(_sipround(*_sipround(*v)))
    v[0] ^= A0; v[1] ^= A1
    v = list(_sipround(*_sipround(*v)))
    v[0] ^= v[2]; v[1] ^= v[3]
    v[2] ^= (v[0] * G0) % M; v[3] ^= (v[1] * G1) % M
    v = _sipround(*v)
    return (v[0] ^ v[1], v[2] ^ v[3])


# ------------------------------------------------------------------ a small Rust tokenizer
TOKEN = re.compile(r"""
    (?P<ws>\s+)
  | (?P<lc>//[^\n]*)
  | (?P<bc>/\*.*?\*/)
  | (?P<str>"(?:\\.|[^"\\])*")
  | (?P<life>'[A-Za-z_][A-Za-z0-9_]*(?!'))
  | (?P<chr>'(?:\\.|[^'\\])')
  | (?P<id>[A-Za-z_][A-Za-z0-9_]*)
  | (?P<num>[0-9][0-9a-zA-Z_]*)
  | (?P<p>::|=>|->|\#|\$|[{}()\[\]<>,;:=.&*+\-!?/|^%@~])
""", re.S | re.X)


class Tok:
    __slots__ = ("k", "s")
    def __init__(self, k, s): self.k, self.s = k, s
    def __repr__(self): return self.s


def tokenize(src, what):
    out, i = [], 0
    while i < len(src):
        m = TOKEN.match(src, i)
        if not m:
            raise TranslateError(f"{what}: cannot tokenize at offset {i}: {src[i:i+40]!r}")
        k = m.lastgroup
        if k not in ("ws", "lc", "bc"):
            out.append(Tok(k, m.group()))
        i = m.end()
    return out


OPEN = {"{": "}", "(": ")", "[": "]"}


def match_close(toks, i):
    """toks[i] is an opening bracket; returns index of its partner."""
    depth = 0
    want = []
    for j in range(i, len(toks)):
        s = toks[j].s
        if toks[j].k == "p" and s in OPEN:
            want.append(OPEN[s])
        elif toks[j].k == "p" and s in (")", "]", "}"):
            if not want or want[-1] != s:
                raise TranslateError("unbalanced brackets")
            want.pop()
            if not want:
                return j
    raise TranslateError("unbalanced brackets (eof)")


def text(toks):
    """Re-render tokens compactly but unambiguously."""
    out = ""
    for t in toks:
        if out and (out[-1].isalnum() or out[-1] in "_'") and (t.s[0].isalnum() or t.s[0] in "_'"):
            out += " "
        out += t.s
    return out


def unquote(s):
    body = s[1:-1]
    if "\\" in body:
        body = bytes(body, "utf-8").decode("unicode_escape")
    return body


# ------------------------------------------------------------------ macro_rules (three shapes only)
def split_top(toks, sep):
    parts, cur, depth = [], [], 0
    for t in toks:
        if t.k == "p" and t.s in "([{<" and t.s != "<": depth += 1
        if t.k == "p" and t.s in ")]}": depth -= 1
        if t.k == "p" and t.s == sep and depth == 0:
            parts.append(cur); cur = []
        else:
            cur.append(t)
    if cur: parts.append(cur)
    return parts


def parse_macro_def(name, toks):
    """toks = inside of `macro_rules! name { … }`.  One rule `(pattern) => { body }`."""
    if toks[0].s != "(": raise TranslateError(f"macro {name}: unrecognised rule shape")
    j = match_close(toks, 0)
    pat = toks[1:j]
    if toks[j + 1].s != "=>" or toks[j + 2].s != "{": raise TranslateError(f"macro {name}: unrecognised rule shape")
    k = match_close(toks, j + 2)
    rest = toks[k + 1:]
    if [t.s for t in rest] not in ([], [";"]): raise TranslateError(f"macro {name}: more than one rule")
    body = toks[j + 3:k]
    p = text(pat)
    m = re.fullmatch(r"\$\(\$(\w+):ty=>\$(\w+):expr\),\*\$\(,\)\?", p)
    if m: return {"shape": "pairs", "vars": [m.group(1), m.group(2)], "body": body}
    m = re.fullmatch(r"\$\(\$(\w+):ident\)\+", p)
    if m: return {"shape": "idents", "vars": [m.group(1)], "body": body}
    raise TranslateError(f"macro {name}: unrecognised pattern {p}")


def subst(toks, env):
    out, i = [], 0
    while i < len(toks):
        if toks[i].s == "$" and i + 1 < len(toks) and toks[i + 1].k == "id":
            v = toks[i + 1].s
            if v not in env: raise TranslateError(f"macro body uses unknown variable ${v}")
            out += env[v]; i += 2
        else:
            out.append(toks[i]); i += 1
    return out


def expand_body(body, iters):
    out, i = [], 0
    while i < len(body):
        if body[i].s == "$" and i + 1 < len(body) and body[i + 1].s == "(":
            j = match_close(body, i + 1)
            inner = body[i + 2:j]
            k = j + 1
            sep = None
            if body[k].s in (",", ";"): sep = body[k]; k += 1
            if body[k].s not in ("*", "+"): raise TranslateError("macro body: unrecognised repetition")
            for n, env in enumerate(iters):
                if n and sep: out.append(sep)
                out += subst(expand_body(inner, [env]) if any(t.s == "$" and inner[x + 1].s == "(" for x, t in enumerate(inner[:-1])) else inner, env)
            i = k + 1
        elif body[i].s == "$":
            raise TranslateError("macro body: variable outside a repetition")
        else:
            out.append(body[i]); i += 1
    return out


def expand_macro(name, mdef, inv):
    if mdef["shape"] == "pairs":
        iters = []
        for part in split_top(inv, ","):
            idx = [n for n, t in enumerate(part) if t.s == "=>"]
            if len(idx) != 1: raise TranslateError(f"macro {name}!: bad `ty => name` pair {text(part)}")
            iters.append({mdef["vars"][0]: part[:idx[0]], mdef["vars"][1]: part[idx[0] + 1:]})
    else:
        if any(t.k != "id" for t in inv): raise TranslateError(f"macro {name}!: expected identifiers")
        iters = [{mdef["vars"][0]: [t]} for t in inv]
    return expand_body(mdef["body"], iters)


# ------------------------------------------------------------------ impl parsing
def parse_generics(toks, what):
    """`T: A + ?Sized, const N: usize` → list of dicts."""
    out = []
    for part in split_top_angle(toks):
        if not part: continue
        if part[0].s == "const":
            if text(part[2:]) != ":usize": raise TranslateError(f"{what}: const generic of unsupported type {text(part)}")
            out.append({"name": part[1].s, "kind": "const", "bounds": [], "unsized_ok": False})
        elif part[0].k == "life":
            raise TranslateError(f"{what}: lifetime generic")
        else:
            name = part[0].s
            bounds = []
            if len(part) > 1:
                if part[1].s != ":": raise TranslateError(f"{what}: generics {text(part)}")
                bounds = [text(b) for b in split_plus(part[2:])]
            out.append({"name": name, "kind": "type", "bounds": [b for b in bounds if b != "?Sized"],
                        "unsized_ok": "?Sized" in bounds})
    return out


def split_top_angle(toks):
    parts, cur, depth = [], [], 0
    for t in toks:
        if t.k == "p" and t.s in "([{<": depth += 1
        if t.k == "p" and t.s in ")]}>": depth -= 1
        if t.k == "p" and t.s == "," and depth == 0:
            parts.append(cur); cur = []
        else:
            cur.append(t)
    if cur: parts.append(cur)
    return parts


def split_plus(toks):
    parts, cur, depth = [], [], 0
    for t in toks:
        if t.k == "p" and t.s in "([{<": depth += 1
        if t.k == "p" and t.s in ")]}>": depth -= 1
        if t.k == "p" and t.s == "+" and depth == 0:
            parts.append(cur); cur = []
        else:
            cur.append(t)
    if cur: parts.append(cur)
    return parts


class ExprParser:
    """Symbolic evaluation of the right-hand side of `const STABLE_TYPE_ID`."""
    def __init__(self, toks, generics, what):
        self.t, self.i, self.g, self.what = toks, 0, generics, what

    def err(self, msg):
        raise TranslateError(f"{self.what}: unrecognised id computation ({msg}) near `{text(self.t[max(0,self.i-3):self.i+6])}`")

    def peek(self, n=0): return self.t[self.i + n].s if self.i + n < len(self.t) else None

    def eat(self, s):
        if self.peek() != s: self.err(f"expected `{s}`")
        self.i += 1

    def param_index(self, name, kind):
        for n, g in enumerate(self.g):
            if g["name"] == name:
                if g["kind"] != kind: self.err(f"`{name}` used as a {kind} parameter")
                return n
        self.err(f"`{name}` is not a generic parameter")

    def block(self, env):
        self.eat("{")
        env = dict(env)
        while self.peek() == "let":
            self.i += 1
            if self.peek() == "mut": self.err("mutable binding")
            name = self.peek(); self.i += 1
            self.eat("=")
            env[name] = self.expr(env)
            self.eat(";")
        e = self.expr(env)
        self.eat("}")
        return e

    def primary(self, env):
        s = self.peek()
        if s == "{": return self.block(env)
        if s == "unsafe":
            self.i += 1
            return self.block(env)
        if s == "StableTypeID" and self.peek(1) == "::":
            f = self.peek(2); self.i += 3
            if f == "from_unique_type_name":
                self.eat("(")
                if self.t[self.i].k != "str": self.err("name is not a string literal")
                name = unquote(self.t[self.i].s); self.i += 1
                if self.peek() == ",": self.i += 1
                self.eat(")")
                return ("name", name)
            if f == "from_raw_parts":
                self.eat("(")
                n = self.peek(); self.i += 1
                self.eat("as"); self.eat("u64"); self.eat(","); self.eat("0"); self.eat(")")
                return ("param", self.param_index(n, "const"))
            self.err(f"StableTypeID::{f}")
        if self.t[self.i].k == "id":
            if self.peek(1) == "::" and self.peek(2) == "STABLE_TYPE_ID":
                self.i += 3
                return ("param", self.param_index(s, "type"))
            if s in env:
                self.i += 1
                return env[s]
        self.err("expression")

    def expr(self, env):
        e = self.primary(env)
        while self.peek() == ".":
            if self.peek(1) != "combine": self.err("method other than combine")
            self.i += 2
            self.eat("(")
            a = self.expr(env)
            self.eat(")")
            e = ("combine", e, a)
        return e


def parse_impl(toks, start, cfg, out, what):
    """toks[start] == impl.  Returns index after the item."""
    i = start + 1
    generics = []
    if toks[i].s == "<":
        depth, j = 0, i
        while True:
            if toks[j].s == "<": depth += 1
            if toks[j].s == ">": depth -= 1
            if depth == 0: break
            j += 1
        generics = parse_generics(toks[i + 1:j], what)
        i = j + 1
    # trait path … for
    j = i
    depth = 0
    while not (toks[j].s == "for" and depth == 0) and not (toks[j].s == "{" and depth == 0):
        if toks[j].s in "<(": depth += 1
        if toks[j].s in ">)": depth -= 1
        j += 1
    if toks[j].s == "{":                       # inherent impl (impl StableTypeID { … })
        return match_close(toks, j) + 1
    trait = text(toks[i:j])
    i = j + 1
    j = i
    depth = 0
    while not (depth == 0 and toks[j].s in ("where", "{")):
        if toks[j].s in "<([": depth += 1
        if toks[j].s in ">)]": depth -= 1
        j += 1
    self_ty = toks[i:j]
    where = []
    if toks[j].s == "where":
        k = j + 1
        while toks[k].s != "{": k += 1
        where = toks[j + 1:k]
        j = k
    end = match_close(toks, j)
    body = toks[j + 1:end]
    if trait.split("::")[-1] != "Identifiable":
        return end + 1
    what = f"{what}: impl Identifiable for {text(self_ty)}"
    # body: const STABLE_TYPE_ID : StableTypeID = EXPR ;
    if [t.s for t in body[:5]] != ["const", "STABLE_TYPE_ID", ":", "StableTypeID", "="] or body[-1].s != ";":
        raise TranslateError(f"{what}: unrecognised impl body")
    p = ExprParser(body[5:-1], generics, what)
    expr = p.expr({})
    if p.i != len(p.t): p.err("trailing tokens")
    extra_where = []
    for part in split_top_angle(where):
        if part: extra_where.append(text(part))
    out.append({"self_ty": self_ty, "generics": generics, "where": extra_where, "cfg": cfg, "expr": expr})
    return end + 1


def parse_items(toks, out, macros, uses, what):
    i, cfg = 0, None
    while i < len(toks):
        s = toks[i].s
        if s == "#":
            j = i + 1
            if toks[j].s == "!": j += 1
            k = match_close(toks, j)
            attr = text(toks[j + 1:k])
            m = re.fullmatch(r'cfg\(feature="(\w+)"\)', attr)
            if m: cfg = m.group(1)
            elif attr.startswith("cfg"): raise TranslateError(f"{what}: unsupported cfg attribute {attr}")
            i = k + 1
            continue
        if s == "impl":
            i = parse_impl(toks, i, cfg, out, what); cfg = None; continue
        if s == "macro_rules" and toks[i + 1].s == "!":
            name = toks[i + 2].s
            k = match_close(toks, i + 3)
            macros[name] = parse_macro_def(name, toks[i + 4:k])
            i = k + 1; cfg = None; continue
        if toks[i].k == "id" and i + 2 < len(toks) and toks[i + 1].s == "!" and toks[i + 2].s in OPEN and s in macros:
            k = match_close(toks, i + 2)
            exp = expand_macro(s, macros[s], toks[i + 3:k])
            parse_items(exp, out, macros, uses, f"{what}: {s}!")
            i = k + 1
            if i < len(toks) and toks[i].s == ";": i += 1
            cfg = None; continue
        if s in ("pub", "use"):
            j = i
            while toks[j].s != "use" and toks[j].s not in ("struct", "trait", "fn", "const", "static", "mod", "enum", "type"):
                j += 1
            if toks[j].s == "use":
                k = j
                while toks[k].s != ";": k += 1
                parse_use(toks[j + 1:k], uses)
                i = k + 1; cfg = None; continue
        # any other item: skip to `;` or over a `{…}` block at depth 0
        j = i
        while True:
            if toks[j].s == ";": j += 1; break
            if toks[j].s == "{": j = match_close(toks, j) + 1; break
            if toks[j].s in ("(", "["): j = match_close(toks, j) + 1; continue
            j += 1
        i = j; cfg = None


def parse_use(toks, uses):
    t = text(toks)
    m = re.fullmatch(r"([\w:]+)::\{([\w,\s]+)\}", t)
    if m:
        for n in m.group(2).split(","):
            n = n.strip()
            if n: uses[n] = m.group(1) + "::" + n
        return
    m = re.fullmatch(r"([\w:]+)::\*", t)
    if m:
        uses.setdefault("*", []).append(m.group(1)); return
    m = re.fullmatch(r"([\w:]+)::(\w+)", t)
    if m:
        uses[m.group(2)] = t; return
    # anything else (renames etc.) is irrelevant for the self types we need


# ------------------------------------------------------------------ the constructor table
UNSIZED_KEYS = {"str", "slice", "std::path::Path", "std::ffi::OsStr", "std::ffi::CStr"}
# `?Sized` constructors that only hold a pointer to their argument (always Sized).  Every other `?Sized`
# constructor is taken to store its argument by value (Cell<str>, Mutex<[u8]> … are themselves unsized).
POINTER_LIKE = {"std::sync::Arc", "Box", "std::rc::Rc", "std::sync::Weak", "std::rc::Weak", "ref", "refmut",
                "ptrconst", "ptrmut", "std::ptr::NonNull", "std::borrow::Cow", "std::marker::PhantomData"}
RUST_PRELUDE = {"String", "Vec", "Box", "Option", "Result", "str", "bool", "char", "u8", "u16", "u32", "u64",
                "u128", "usize", "i8", "i16", "i32", "i64", "i128", "isize", "f32", "f64"}


def self_ty_key_and_template(self_ty, generics, uses, what):
    names = [g["name"] for g in generics]
    t = text(self_ty)
    # resolve a leading bare imported identifier
    if self_ty[0].k == "id" and (len(self_ty) == 1 or self_ty[1].s != "::") and self_ty[0].s not in names \
            and self_ty[0].s not in RUST_PRELUDE:
        head = self_ty[0].s
        if head in uses: full = uses[head]
        elif uses.get("*"): full = uses["*"][0] + "::" + head
        else: raise TranslateError(f"{what}: cannot resolve type `{head}`")
        t = full + t[len(head):]
    tmpl = t.replace("'_", "'static")
    tmpl = re.sub(r"&mut\s*", "&'static mut ", tmpl)
    tmpl = re.sub(r"&(?!'static mut)", "&'static ", tmpl)
    # key
    if t == "()": key = "unit"
    elif t.startswith("("):
        key = f"tuple{len(generics)}"
    elif re.fullmatch(r"\[\w+\]", t): key = "slice"
    elif re.fullmatch(r"\[\w+;\w+\]", t): key = "array"
    elif t.startswith("&mut"): key = "refmut"
    elif t.startswith("&"): key = "ref"
    elif t.startswith("*const"): key = "ptrconst"
    elif t.startswith("*mut"): key = "ptrmut"
    else:
        key = re.sub(r"<.*$", "", t)
    if not re.fullmatch(r"[\w:]+", key): raise TranslateError(f"{what}: cannot derive a key from `{t}`")
    return key, tmpl


def expr_names(e):
    if e[0] == "name": return [e[1]]
    if e[0] == "combine": return expr_names(e[1]) + expr_names(e[2])
    return []


def expr_params(e):
    if e[0] == "param": return [e[1]]
    if e[0] == "combine": return expr_params(e[1]) + expr_params(e[2])
    return []


def extract_builtin_table():
    path = os.path.join(REPO, SRC_LIB)
    toks = tokenize(open(path, encoding="utf-8").read(), SRC_LIB)
    impls, macros, uses = [], {}, {}
    parse_items(toks, impls, macros, uses, SRC_LIB)
    if len(impls) < 20: raise TranslateError(f"{SRC_LIB}: only {len(impls)} Identifiable impls found")
    table, skipped = [], []
    for im in impls:
        what = f"{SRC_LIB}: impl for {text(im['self_ty'])}"
        if im["cfg"] and im["cfg"] not in FEATURES:
            skipped.append(f"{text(im['self_ty'])}: cfg(feature={im['cfg']}) not enabled in the harness"); continue
        key, tmpl = self_ty_key_and_template(im["self_ty"], im["generics"], uses, what)
        used = set(expr_params(im["expr"]))
        table.append({"key": key, "rust": tmpl, "generics": im["generics"], "where": im["where"],
                      "expr": im["expr"], "origin": "builtin", "unused_params": [g["name"] for n, g in enumerate(im["generics"]) if n not in used]})
    keys = [c["key"] for c in table]
    dup = sorted({k for k in keys if keys.count(k) > 1})
    if dup: raise TranslateError(f"{SRC_LIB}: two impls map to the same constructor key {dup}")
    return table, skipped


# ------------------------------------------------------------------ the derive macro
def norm(s): return re.sub(r"\s+", "", s)


def extract_derive_rule():
    """Returns {"pieces": [...], "order": "param_first"|"hash_first"} describing what
    implements_identifiable generates, or raises TranslateError."""
    src = open(os.path.join(REPO, SRC_DERIVE), encoding="utf-8").read()
    toks = tokenize(src, SRC_DERIVE)
    t = text(toks)
    # the two concat!(…) name computations must be the same list of pieces
    concats = re.findall(r"concat!\((.*?)\);", t)
    if len(concats) != 2: raise TranslateError(f"{SRC_DERIVE}: expected two concat!(…) name computations, found {len(concats)}")
    pieces_all = []
    for c in concats:
        c = c.rstrip(",")
        pieces = []
        for p in re.findall(r'env!\("\w+"\)|module_path!\(\)|stringify!\(#name\)|"(?:\\.|[^"\\])*"|[^,]+', c):
            if p.startswith('"'): pieces.append(("lit", unquote(p)))
            elif p == 'env!("CARGO_PKG_NAME")': pieces.append(("pkg",))
            elif p == 'env!("CARGO_PKG_VERSION")': pieces.append(("ver",))
            elif p == "module_path!()": pieces.append(("mod",))
            elif p == "stringify!(#name)": pieces.append(("name",))
            else: raise TranslateError(f"{SRC_DERIVE}: unrecognised piece `{p}` in concat!")
        pieces_all.append(pieces)
    if pieces_all[0] != pieces_all[1]:
        raise TranslateError(f"{SRC_DERIVE}: generic and non-generic branches build different names")
    n = norm(t)
    need = [
        ("generics.params.is_empty()", "branch on generics.params.is_empty()"),
        ("lettype_params=generics.type_params().map(|x|&x.ident);", "iteration over all type parameters"),
        ("#stable_type_id::from_unique_type_name(unique_type_name)", "base id from the unique name"),
        ("letmuthash=#stable_type_id::from_unique_type_name(unique_type_name);", "hash initialised from the unique name"),
        ("constSTABLE_TYPE_ID:#stable_type_id=#stable_type_id_computation;", "const STABLE_TYPE_ID = computation"),
    ]
    for frag, desc in need:
        if norm(frag) not in n: raise TranslateError(f"{SRC_DERIVE}: cannot find `{desc}`")
    m = re.search(r"#\(hash=(.*?);\)\*hash\}", n)
    if not m: raise TranslateError(f"{SRC_DERIVE}: cannot find the per-parameter fold `#( hash = …; )* hash`")
    step = m.group(1)
    p = "<#type_paramsas#identifiable_trait>::STABLE_TYPE_ID"
    if step == p + ".combine(hash)": order = "param_first"
    elif step == "hash.combine(" + p + ")": order = "hash_first"
    else: raise TranslateError(f"{SRC_DERIVE}: unrecognised per-parameter fold `{step}`")
    if n.count("generics.lifetimes().next()") != 1 or n.count("generics.const_params().next()") != 1:
        raise TranslateError(f"{SRC_DERIVE}: lifetime/const parameter rejection changed")
    return {"pieces": pieces_all[0], "order": order}


def harness_pkg():
    toml = open(os.path.join(VERIF, "harness", "Cargo.toml"), encoding="utf-8").read()
    pkg = re.search(r'^\[package\](.*?)^\[', toml, re.S | re.M).group(1)
    return re.search(r'^name\s*=\s*"(.*?)"', pkg, re.M).group(1), re.search(r'^version\s*=\s*"(.*?)"', pkg, re.M).group(1)


# derived test types of the harness:  (module, struct name, number of type parameters, derive used)
DERIVED = [
    ("m1", "Plain", 0, "Identifiable"), ("m1", "Wrap", 1, "Identifiable"), ("m1", "Pair", 2, "Identifiable"),
    ("m1", "Triple", 3, "Identifiable"), ("m1", "Other", 0, "Identifiable"), ("m1", "Wrap2", 1, "Identifiable"),
    ("m2", "Plain", 0, "Identifiable"), ("m2", "Wrap", 1, "Identifiable"), ("m2", "Pair", 2, "Identifiable"),
    ("m2::inner", "Plain", 0, "Identifiable"), ("m2::inner", "Wrap", 1, "Identifiable"),
    ("q", "KeyA", 0, "Query"), ("q", "KeyB", 0, "Query"), ("q", "KeyG", 1, "Query"),
    ("q::sub", "KeyA", 0, "Query"),
]


def derived_table(rule):
    pkg, ver = harness_pkg()
    out = []
    for mod, name, n, how in DERIVED:
        mp = HARNESS_BIN_CRATE + "::" + mod
        uniq = "".join({"lit": lambda p: p[1], "pkg": lambda p: pkg, "ver": lambda p: ver, "mod": lambda p: mp,
                        "name": lambda p: name}[p[0]](p) for p in rule["pieces"])
        e = ("name", uniq)
        for i in range(n):
            e = ("combine", ("param", i), e) if rule["order"] == "param_first" else ("combine", e, ("param", i))
        gens = [{"name": "ABCDEFGH"[i], "kind": "type", "unsized_ok": False,
                 "bounds": ["Identifiable"] + (["QueryKeyParam"] if how == "Query" else [])} for i in range(n)]
        rust = f"{mod}::{name}" + ("<" + ",".join(g["name"] for g in gens) + ">" if n else "")
        out.append({"key": f"derive:{mod}::{name}", "rust": rust, "generics": gens, "where": [], "expr": e,
                    "origin": "derive", "module": mod, "struct": name, "how": how, "unused_params": []})
    return out


# ------------------------------------------------------------------ type instances
class Uni:
    """Universe builder over a table."""
    def __init__(self, table):
        self.table = table
        self.idx = {c["key"]: n for n, c in enumerate(table)}
        self.notes = []
        self._idc = {}

    # instances are ("c", idx, (args…)) or ("n", value)
    def mk(self, key, *args):
        return ("c", self.idx[key], tuple(args))

    def has(self, key): return key in self.idx

    def sexpr(self, t):
        if t[0] == "n": return f"#{t[1]}"
        k = self.table[t[1]]["key"]
        if not t[2]: return k
        return "( " + k + " " + " ".join(self.sexpr(a) for a in t[2]) + " )"

    def rust(self, t):
        if t[0] == "n": return str(t[1])
        c = self.table[t[1]]
        names = [g["name"] for g in c["generics"]]
        if not names: return c["rust"]
        args = {n: self.rust(a) for n, a in zip(names, t[2])}
        return re.sub(r"\b(" + "|".join(map(re.escape, names)) + r")\b(?!::|')", lambda m: args[m.group(1)], c["rust"])

    def lean(self, t):
        if t[0] == "n": return f"(.lit {t[1]})"
        a = [self.lean(x) for x in t[2]]
        if len(a) == 0: return f"(t0 {t[1]})"
        if len(a) <= 3: return f"(t{len(a)} {t[1]} " + " ".join(a) + ")"
        return f"(tn {t[1]} [" + ", ".join(x[1:-1] if x.startswith("(") else x for x in a) + "])"

    def depth(self, t):
        if t[0] == "n" or not t[2]: return 1
        return 1 + max(self.depth(a) for a in t[2])

    def sized(self, t):
        if t[0] != "c": return True
        c = self.table[t[1]]
        if c["key"] in UNSIZED_KEYS: return False
        if c["key"] in POINTER_LIKE: return True
        return all(self.sized(a) for a in t[2])

    def pyid(self, t):
        if t in self._idc: return self._idc[t]
        if t[0] == "n":
            r = (t[1] % M, 0)
        else:
            ps = [self.pyid(a) for a in t[2]]
            r = self._ev(self.table[t[1]]["expr"], ps)
        self._idc[t] = r
        return r

    def _ev(self, e, ps):
        if e[0] == "name": return py_from_name(e[1].encode("utf-8"))
        if e[0] == "param": return ps[e[1]]
        return py_combine(self._ev(e[1], ps), self._ev(e[2], ps))

    # ---- admissibility of an argument for parameter p of constructor c (Rust well-formedness)
    def hint_ok(self, bound, arg):
        s = self.sexpr(arg)
        if bound == "Identifiable": return True
        if bound == "ToOwned":
            return s in {"u8", "u64", "bool", "char", "String", "str", "std::path::Path", "std::ffi::OsStr",
                         "std::ffi::CStr", "( slice u8 )", "( Vec u8 )", "( Option u8 )", "unit"}
        if bound == "Array":
            return arg[0] == "c" and self.table[arg[1]]["key"] == "array"
        if bound == "BitStore": return s in {"u8", "u16", "u32", "u64", "usize"}
        if bound == "BitOrder": return s in {"bitvec::order::Lsb0", "bitvec::order::Msb0"}
        if bound == "QueryKeyParam": return s in {"u8", "u16", "u32", "u64", "bool", "char", "String"}
        return None

    def admissible(self, ci, pi, arg):
        g = self.table[ci]["generics"][pi]
        if g["kind"] == "const": return arg[0] == "n"
        if arg[0] == "n": return False
        if not self.sized(arg) and not g["unsized_ok"]: return False
        for b in g["bounds"]:
            r = self.hint_ok(b, arg)
            if r is None: return False
            if not r: return False
        return True

    def usable(self, ci):
        c = self.table[ci]
        for g in c["generics"]:
            for b in g["bounds"]:
                if self.hint_ok(b, ("c", 0, ())) is None:
                    return False, f"{c['key']}: unknown bound `{b}` — constructor left out of the universe"
        for w in c["where"]:
            if not re.fullmatch(r"\w+::Owned:Identifiable", w):
                return False, f"{c['key']}: unknown where-clause `{w}` — constructor left out of the universe"
        return True, ""

    def app(self, ci, args):
        """instance or None if not admissible"""
        c = self.table[ci]
        if len(args) != len(c["generics"]): return None
        for pi, a in enumerate(args):
            if not self.admissible(ci, pi, a): return None
        return ("c", ci, tuple(args))


def build_universe(table):
    """Returns (uni, families: list of (name, [instances]), pair families: dict name → [(a, b)])."""
    U = Uni(table)
    usable = []
    for ci in range(len(table)):
        ok, why = U.usable(ci)
        if ok: usable.append(ci)
        else: U.notes.append(why)
    nullary = [ci for ci in usable if not table[ci]["generics"]]
    def tparams(ci): return [g for g in table[ci]["generics"]]
    unary = [ci for ci in usable if len(tparams(ci)) == 1 and tparams(ci)[0]["kind"] == "type"]
    multi = [ci for ci in usable if len(tparams(ci)) >= 2 and all(g["kind"] == "type" for g in tparams(ci))]
    withconst = [ci for ci in usable if any(g["kind"] == "const" for g in tparams(ci))]
    base = [("c", ci, ()) for ci in nullary]
    fam = []
    fam.append(("base", list(base)))

    def pick(keys):
        return [U.mk(k) for k in keys if U.has(k) and not table[U.idx[k]]["generics"]]
    small = pick(["u8", "u16", "String", "unit", "bool", "i64", "char", "std::time::Duration"])
    tiny = small[:3]
    elem = small[0] if small else base[0]

    # arrays first (SmallVec needs them as arguments)
    arrays = []
    lens = [0, 1, 2, 3, 7, 8, 16, 255, 256, 65535, 65536, 4294967295, 4294967296]
    for ci in withconst:
        gs = tparams(ci)
        if [g["kind"] for g in gs] != ["type", "const"]:
            U.notes.append(f"{table[ci]['key']}: generic shape {[g['kind'] for g in gs]} not instantiated"); continue
        for e in tiny[:2] + pick(["unit"]):
            for n in lens:
                if n > 65536 and U.sexpr(e) not in ("u8", "unit"): continue
                t = U.app(ci, [e, ("n", n)])
                if t: arrays.append(t)
        # nested arrays: [[T; a]; b] vs [[T; b]; a]
        for a, b in [(2, 3), (3, 2), (1, 2), (2, 1), (2, 2)]:
            inner = U.app(ci, [elem, ("n", a)])
            t = U.app(ci, [inner, ("n", b)]) if inner else None
            if t: arrays.append(t)
    fam.append(("array", arrays))
    arr_args = [t for t in arrays if t[2][0] == elem and t[2][1][1] in (0, 1, 2, 3, 8, 16)]

    # depth 2, one type parameter: every admissible base type
    d2 = []
    for ci in unary:
        cands = base + arr_args
        got = [t for t in (U.app(ci, [a]) for a in cands) if t]
        if not got: U.notes.append(f"{table[ci]['key']}: no admissible base argument found")
        d2 += got
    fam.append(("depth2_unary", d2))

    # depth 2, several type parameters: all argument vectors over a small base set (contains every swap)
    dm = []
    for ci in multi:
        k = len(tparams(ci))
        if k == 2:
            pool = small
            vecs = [[a, b] for a in pool for b in pool]
        elif k == 3:
            pool = tiny
            vecs = [[a, b, c] for a in pool for b in pool for c in pool]
        else:
            x, y = tiny[0], tiny[1]
            vecs = [[x] * k]
            for p in range(k):
                v = [x] * k; v[p] = y; vecs.append(v)          # position sensitivity
            v = [x] * k; v[0], v[1] = y, tiny[2]; vecs.append(v)
            v = [x] * k; v[0], v[1] = tiny[2], y; vecs.append(v)
        # constructors with restricted parameters (BitVec<T: BitStore, O: BitOrder>): use what is admissible
        got = [t for t in (U.app(ci, v) for v in vecs) if t]
        if not got:
            pools = [[a for a in base if U.admissible(ci, pi, a)] for pi in range(k)]
            if all(pools) and k == 2:
                got = [U.app(ci, [a, b]) for a in pools[0] for b in pools[1]]
            else:
                U.notes.append(f"{table[ci]['key']}: no admissible argument vector found")
        dm += got
    fam.append(("depth2_multi", dm))

    # nesting: U1<U2<elem>> for all unary U1, U2  (contains F<G<A>> vs G<F<A>>)
    nest = []
    for c2 in unary:
        inner = U.app(c2, [elem])
        if not inner: continue
        for c1 in unary:
            t = U.app(c1, [inner])
            if t: nest.append(t)
    fam.append(("nest_unary", nest))

    # depth 3/4 chains over a few common wrappers and mixed nestings with binary constructors
    wr = [ci for ci in unary if table[ci]["key"] in ("Vec", "Option", "Box", "std::sync::Arc", "slice", "ref", "derive:m1::Wrap")]
    deep = []
    for e in tiny[:2]:
        for c3 in wr:
            x3 = U.app(c3, [e])
            if not x3: continue
            for c2 in wr:
                x2 = U.app(c2, [x3])
                if not x2: continue
                for c1 in wr:
                    x1 = U.app(c1, [x2])
                    if x1: deep.append(x1)
    bins = [ci for ci in multi if len(tparams(ci)) == 2]
    for ci in bins:
        for w in wr[:4]:
            for a in tiny[:2]:
                for b in tiny[:2]:
                    wa, wb = U.app(w, [a]), U.app(w, [b])
                    cand = [U.app(ci, [wa, b]) if wa else None, U.app(ci, [a, wb]) if wb else None,
                            U.app(ci, [wa, wb]) if wa and wb else None]
                    inner = U.app(ci, [a, b])
                    cand.append(U.app(w, [inner]) if inner else None)
                    deep += [t for t in cand if t]
    fam.append(("deep", deep))

    # tuple association: (A,(B,C)) ((A,B),C) (A,B,C) ((A,),B,C) (A,) ((A,),) …
    assoc = []
    if all(U.has(f"tuple{k}") for k in (1, 2, 3)):
        T = lambda *xs: U.app(U.idx[f"tuple{len(xs)}"], list(xs))
        for a in tiny:
            assoc += [T(a), T(T(a)), T(T(T(a)))]
            for b in tiny:
                assoc += [T(T(a), b), T(a, T(b)), T(T(a, b)), T(T(a), T(b))]
                for c in tiny:
                    assoc += [T(a, T(b, c)), T(T(a, b), c), T(a, b, c), T(T(a), b, c), T(a, T(b), c), T(a, b, T(c)),
                              T(T(a, b, c)), T(T(a, b), T(c)), T(T(a), T(b, c))]
    fam.append(("tuple_assoc", [t for t in assoc if t]))

    # derived types against the built-in shapes they could structurally mimic
    der = []
    dwrap = [ci for ci in unary if table[ci]["origin"] == "derive"]
    dpair = [ci for ci in multi if table[ci]["origin"] == "derive"]
    if U.has("tuple1") and U.has("tuple2"):
        for w in dwrap:
            for a in tiny:
                t1 = U.app(U.idx["tuple1"], [a])
                der += [U.app(w, [t1]), U.app(U.idx["tuple1"], [U.app(w, [a])])]
                for w2 in dwrap:
                    der.append(U.app(w, [U.app(w2, [a])]))
        for p in dpair:
            k = len(tparams(p))
            for a in tiny:
                for w in dwrap[:2]:
                    v = [a] * k; v[0] = U.app(w, [a]); der.append(U.app(p, v))
                    v = [a] * k; v[-1] = U.app(w, [a]); der.append(U.app(w, [U.app(p, [a] * k)])); der.append(U.app(p, v))
    fam.append(("derive_mix", [t for t in der if t]))

    # a fixed pseudo-random sample of deeper types (depth ≤ 5)
    rnd = random.Random(20260925)
    rs = []
    ctors_g = unary + multi
    def gen(d):
        if d <= 1 or rnd.random() < 0.25: return rnd.choice(base)
        for _ in range(20):
            ci = rnd.choice(ctors_g)
            t = U.app(ci, [gen(d - 1) for _ in tparams(ci)])
            if t: return t
        return rnd.choice(base)
    for _ in range(400):
        rs.append(gen(rnd.choice([3, 4, 5])))
    fam.append(("random_deep", rs))

    # ---- universe = concatenation, first occurrence kept
    seen, uni, fam_sizes = set(), [], {}
    for name, ts in fam:
        n0 = len(uni)
        for t in ts:
            if t not in seen:
                seen.add(t); uni.append(t)
        fam_sizes[name] = len(uni) - n0

    # ---- pair families (the shapes the property names)
    pairs = {"swap": [], "nesting": [], "array_len": [], "tuple_assoc": []}
    for t in dm + deep:
        a = t[2]
        if len(a) >= 2 and a[0] != a[1]:
            sw = U.app(t[1], [a[1], a[0]] + list(a[2:]))
            if sw and sw in seen and (sw, t) not in pairs["swap"]: pairs["swap"].append((t, sw))
        if len(a) >= 3 and a[-1] != a[-2]:
            sw = U.app(t[1], list(a[:-2]) + [a[-1], a[-2]])
            if sw and sw in seen and (sw, t) not in pairs["swap"]: pairs["swap"].append((t, sw))
    sset = set()
    for t in nest:
        c1, inner = t[1], t[2][0]
        c2 = inner[1]
        if c1 < c2:
            o = U.app(c2, [U.app(c1, [elem])]) if U.app(c1, [elem]) else None
            if o and o in seen: pairs["nesting"].append((t, o))
    by = {}
    for t in arrays:
        if t[2][1][0] == "n": by.setdefault(t[2][0], []).append(t)
    for e, ts in by.items():
        for i in range(len(ts)):
            for j in range(i + 1, len(ts)):
                pairs["array_len"].append((ts[i], ts[j]))
    if all(U.has(f"tuple{k}") for k in (1, 2, 3)):
        T = lambda *xs: U.app(U.idx[f"tuple{len(xs)}"], list(xs))
        for a in tiny:
            pairs["tuple_assoc"] += [(a, T(a)), (T(a), T(T(a)))]
            for b in tiny:
                pairs["tuple_assoc"] += [(T(a, b), T(T(a), b)), (T(a, b), T(a, T(b))), (T(a, b), T(T(a, b)))]
                for c in tiny:
                    pairs["tuple_assoc"] += [(T(a, T(b, c)), T(T(a, b), c)), (T(a, T(b, c)), T(a, b, c)), (T(T(a, b), c), T(a, b, c)),
                                             (T(a, b, c), T(T(a), b, c)), (T(a, b, c), T(T(a, b, c)))]
    for k, ps in pairs.items():
        for a, b in ps:
            assert a in seen and b in seen and a != b, (k, U.sexpr(a), U.sexpr(b))
    # listed in the order of the ids computed here (an untrusted hint for the kernel check, which
    # then only has to compare neighbours); ties (= collisions) keep generation order
    uni.sort(key=lambda t: U.pyid(t))
    return U, uni, fam_sizes, pairs


# ------------------------------------------------------------------ emitters
def lean_str(s): return json.dumps(s, ensure_ascii=False)


def lean_expr(e):
    if e[0] == "name": return "(.name [" + ", ".join(str(b) for b in e[1].encode("utf-8")) + "])"
    if e[0] == "param": return f"(.param {e[1]})"
    return f"(.combine {lean_expr(e[1])} {lean_expr(e[2])})"


def emit_lean(table, U, uni, fam_sizes, pairs, derive_rule):
    L = []
    L.append("/-")
    L.append("GENERATED by tools/gen_typeid.py from")
    L.append(f"  {SRC_LIB}")
    L.append(f"  {SRC_DERIVE}")
    L.append("on every run of `tools/check C14`.  Do not edit.")
    L.append(f"derive rule: name = {derive_rule['pieces']}, fold order = {derive_rule['order']}")
    L.append(f"families: {fam_sizes}")
    L.append("-/")
    L.append("import QbiceVerif.Model.TypeId")
    L.append("")
    L.append("set_option compiler.extract_closed false   -- keeps the generated C small (the driver links this file)")
    L.append("namespace QbiceVerif.TypeId.Gen")
    L.append("open QbiceVerif.TypeId")
    L.append("")
    L.append("/-- constructor ↦ arity ↦ right-hand side of `const STABLE_TYPE_ID` (name bytes are UTF-8). -/")
    L.append("def ctorTable : List Ctor := [")
    for n, c in enumerate(table):
        names = " | ".join(expr_names(c["expr"]))
        L.append(f"  /- {n}: {c['rust']}  ← \"{names}\" -/")
        L.append(f"  ⟨{lean_str(c['key'])}, {len(c['generics'])}, {lean_expr(c['expr'])}⟩" + ("," if n + 1 < len(table) else ""))
    L.append("]")
    L.append("")
    CH = 200
    # the universe, in id order, cut into NSLICES slices; slice k is checked by its own module
    # (Lemmas/TypeIdSlice<k>.lean) so that lake proves them in parallel.  `sliceBound k` is the
    # generator's claim "every key of slices < k is below this, every key of slice k is at or above".
    per = (len(uni) + NSLICES - 1) // NSLICES if uni else 0
    bounds = [0]
    for k in range(NSLICES):
        sl = uni[k * per:(k + 1) * per]
        L.append(f"/-! slice {k}: {len(sl)} types -/")
        chunks = [sl[i:i + CH] for i in range(0, len(sl), CH)]
        for n, ch in enumerate(chunks):
            L.append(f"def uni{k}_{n} : List Ty := [")
            L.append(",\n".join("  " + U.lean(t)[1:-1] for t in ch))
            L.append("]")
        L.append(f"def slice{k} : List Ty := " + (" ++ ".join(f"uni{k}_{n}" for n in range(len(chunks))) or "[]"))
        if sl:
            i = U.pyid(sl[-1]); bounds.append(max(bounds[-1], i[0] * M + i[1] + 1))
        else:
            bounds.append(bounds[-1])
        L.append("")
    for k, b in enumerate(bounds):
        L.append(f"def sliceBound{k} : Nat := {b}")
    L.append("")
    L.append(f"/-- the universe: {len(uni)} type expressions (listed in the order of the ids the generator computed). -/")
    L.append("def typeUniverse : List Ty := " + " ++ ".join(f"slice{k}" for k in range(NSLICES)))
    L.append(f"def universeSize : Nat := {len(uni)}")
    L.append("")
    for k, ps in pairs.items():
        pc = [ps[i:i + CH] for i in range(0, len(ps), CH)] or [[]]
        for n, ch in enumerate(pc):
            L.append(f"def {k}Pairs{n} : List (Ty × Ty) := [")
            L.append(",\n".join(f"  ({U.lean(a)}, {U.lean(b)})" for a, b in ch))
            L.append("]")
        L.append(f"/-- family `{k}`: {len(ps)} pairs. -/")
        L.append(f"def {k}Pairs : List (Ty × Ty) := " + " ++ ".join(f"{k}Pairs{n}" for n in range(len(pc))))
        L.append("")
    L.append("end QbiceVerif.TypeId.Gen")
    return "\n".join(L) + "\n"


def emit_rust(table, U, uni, fam_sizes, pairs):
    R = []
    R.append("// GENERATED by tools/gen_typeid.py from the Identifiable impls of /repo — do not edit.")
    R.append("// Same universe, same order and same canonical strings as lean/QbiceVerif/Gen/TypeIdTable.lean.")
    mods = {}
    for c in table:
        if c["origin"] != "derive": continue
        mods.setdefault(c["module"], []).append(c)
    def emit_mod(path, depth):
        ind = "    " * depth
        name = path.split("::")[-1]
        R.append(f"{ind}#[allow(dead_code, unused_imports)]")
        R.append(f"{ind}pub mod {name} {{")
        R.append(f"{ind}    use qbice::{{Identifiable, StableHash, Encode, Decode, Query}};")
        for c in mods.get(path, []):
            n = len(c["generics"])
            gen = "<" + ", ".join(g["name"] for g in c["generics"]) + ">" if n else ""
            if c["how"] == "Identifiable":
                R.append(f"{ind}    #[derive(Identifiable)]")
                if n == 0: R.append(f"{ind}    pub struct {c['struct']};")
                else: R.append(f"{ind}    pub struct {c['struct']}{gen}(" + ", ".join("pub " + g["name"] for g in c["generics"]) + ");")
            else:
                R.append(f"{ind}    #[derive(Debug, Clone, PartialEq, Eq, Hash, StableHash, Encode, Decode, Query)]")
                R.append(f"{ind}    #[value(u64)]")
                if n == 0: R.append(f"{ind}    pub struct {c['struct']}(pub u64);")
                else:
                    bounds = " + ".join(["Identifiable", "StableHash", "Encode", "Decode", "std::fmt::Debug", "Clone", "Eq", "std::hash::Hash", "Send", "Sync", "'static"])
                    R.append(f"{ind}    pub struct {c['struct']}<" + ", ".join(f"{g['name']}: {bounds}" for g in c["generics"]) + ">(pub u64, " +
                             ", ".join(f"pub std::marker::PhantomData<{g['name']}>" for g in c["generics"]) + ");")
        for sub in sorted(m for m in mods if m.startswith(path + "::") and m.count("::") == path.count("::") + 1):
            emit_mod(sub, depth + 1)
        R.append(f"{ind}}}")
    for top in sorted(m for m in mods if "::" not in m):
        emit_mod(top, 0)
    R.append("")
    R.append(f"pub const FAMILIES: &[(&str, usize)] = &[" + ", ".join(f'("{k}", {v})' for k, v in fam_sizes.items()) + "];")
    R.append("")
    R.append("pub static UNIVERSE: &[(&str, qbice_stable_type_id::StableTypeID)] = &[")
    for t in uni:
        R.append(f'    ("{U.sexpr(t)}", <{U.rust(t)} as qbice_stable_type_id::Identifiable>::STABLE_TYPE_ID),')
    R.append("];")
    R.append("")
    R.append("/// (family, canonical a, canonical b) — the pair families of the Lean file")
    R.append("pub static PAIRS: &[(&str, &str, &str)] = &[")
    for k, ps in pairs.items():
        for a, b in ps:
            R.append(f'    ("{k}", "{U.sexpr(a)}", "{U.sexpr(b)}"),')
    R.append("];")
    return "\n".join(R) + "\n"


def write_if_changed(path, content):
    os.makedirs(os.path.dirname(path), exist_ok=True)
    if os.path.exists(path) and open(path, encoding="utf-8").read() == content:
        return False
    tmp = path + ".tmp"
    open(tmp, "w", encoding="utf-8").write(content)
    os.replace(tmp, path)
    return True


def expr_shape(e, k):
    """'N' plain name, 'L' base.combine(P0)…combine(Pk-1), 'R' Pk-1.combine(…P0.combine(base)), else 'other'
    (the shapes Lemmas/TypeIdStruct.lean's `classify` recognises)."""
    def lfold(j, n): return ("name", n) if j == 0 else ("combine", lfold(j - 1, n), ("param", j - 1))
    def rfold(j, n): return ("name", n) if j == 0 else ("combine", ("param", j - 1), rfold(j - 1, n))
    names = expr_names(e)
    if not names: return "other"
    n = names[0]
    if k == 0: return "N" if e == ("name", n) else "other"
    if e == lfold(k, n): return "L"
    if e == rfold(k, n): return "R"
    return "other"


def collisions(U, uni):
    """pairs of distinct universe members with equal Python-computed ids"""
    seen, out = {}, []
    for t in uni:
        i = U.pyid(t)
        if i in seen: out.append((seen[i], t, i))
        else: seen[i] = t
    return out


def generate(write=True):
    """Returns a summary dict; raises TranslateError."""
    builtin, skipped = extract_builtin_table()
    rule = extract_derive_rule()
    table = builtin + derived_table(rule)
    U, uni, fam_sizes, pairs = build_universe(table)
    lean = emit_lean(table, U, uni, fam_sizes, pairs, rule)
    rust = emit_rust(table, U, uni, fam_sizes, pairs)
    changed = []
    if write:
        if write_if_changed(LEAN_OUT, lean): changed.append(os.path.relpath(LEAN_OUT, VERIF))
        if write_if_changed(RUST_OUT, rust): changed.append(os.path.relpath(RUST_OUT, VERIF))
    names = [n for c in builtin for n in expr_names(c["expr"])]
    return {
        "constructors": len(table), "builtin": len(builtin), "derived": len(table) - len(builtin),
        "universe": len(uni), "families": fam_sizes, "pair_families": {k: len(v) for k, v in pairs.items()},
        "derive_rule": {"order": rule["order"], "pieces": ["".join(p[1:]) if p[0] == "lit" else "<" + p[0] + ">" for p in rule["pieces"]]},
        "skipped": skipped, "notes": U.notes, "changed": changed,
        "unused_params": [f"{c['key']}: {c['unused_params']}" for c in table if c["unused_params"]],
        "distinct_name_strings": len(set(names)), "name_strings": len(names),
        "shapes": {sh: sum(1 for c in table if expr_shape(c["expr"], len(c["generics"])) == sh) for sh in ("N", "L", "R", "other")},
        "shape_other": [c["key"] for c in table if expr_shape(c["expr"], len(c["generics"])) == "other"],
        "max_depth": max(U.depth(t) for t in uni),
        "_U": U, "_uni": uni, "_pairs": pairs, "_table": table,
    }


if __name__ == "__main__":
    try:
        s = generate(write="--dry" not in sys.argv)
    except TranslateError as e:
        print("TRANSLATE-ERROR:", e); sys.exit(1)
    U, uni = s.pop("_U"), s.pop("_uni"); s.pop("_pairs"); s.pop("_table")
    print(json.dumps(s, indent=1))
    col = collisions(U, uni)
    for a, b, i in col[:10]:
        print("COLLISION", U.sexpr(a), "==", U.sexpr(b), "id=%016x%016x" % i)
    print("collisions:", len(col))
