#!/usr/bin/env python3
"""Regenerates MANIFEST.json from tools/manifest_src.json (claimed checks) — every property that is
not claimed there is listed under not_applicable with the reason given in manifest_src.json."""
import json, os
V = os.path.dirname(os.path.dirname(os.path.abspath(__file__)))
src = json.load(open(os.path.join(V, "tools", "manifest_src.json")))
props = [json.loads(l) for l in open(os.path.join(V, "properties.jsonl"))]
checks = []
for p in props:
    c = src["claimed"].get(p["id"])
    if not c: continue
    checks.append({
        "property_id": p["id"],
        "quick_cmd": f"tools/check {p['id']} --tier quick",
        "thorough_cmd": f"tools/check {p['id']} --tier thorough",
        "evidence_file": f"/verif/evidence/{p['id']}.json",
        "replay_cmd_template": f"tools/check {p['id']} --replay {{path}}",
        "engine": c["engine"],
        "level_claimed": {"category": "proof", "text": c["text"], "design_ref": c["design_ref"]},
        "level_note": c["note"],
        "technique": c["technique"],
    })
na = [{"property_id": p["id"], "reason": src["unclaimed"].get(p["id"], "check not built yet in this session; see DESIGN.md §9 build order")}
      for p in props if p["id"] not in src["claimed"]]
m = {
    "version": 1,
    "setup_cmd": src["setup_cmd"],
    "hooks": src["hooks"],
    "engines": src["engines"],
    "checks": checks,
    "notes": src["notes"],
    "not_applicable": na,
}
json.dump(m, open(os.path.join(V, "MANIFEST.json"), "w"), indent=1)
print("claimed", [c["property_id"] for c in checks], "unclaimed", [n["property_id"] for n in na])
