"""Common machinery for /verif/tools/check.  See DESIGN.md §2.3.

A property plugin (tools/props/cXX.py) defines:
  PID            "C12"
  LEAN_MODULES   ["QbiceVerif.Props.C12"]        modules whose theorems are the obligations
  DRIVER         "drv_codec" or None               lean_exe target
  HARNESS_BIN    "codec" or None                   bin of /verif/harness
  HARNESS_FEATURES ""                              cargo features for that bin
  def pre(ctx)   optional: regenerate files from /repo source before the Lean build
  def run(ctx) -> Result                           correspondence + oracle
  def search(ctx, why) -> list[Failure]            optional boosted search when a proof/tie breaks
"""
import json, os, re, subprocess, sys, time, hashlib, shutil, concurrent.futures as cf

VERIF = os.path.dirname(os.path.dirname(os.path.abspath(__file__)))
LEAN = os.path.join(VERIF, "lean")
# VERIF_HARNESS_DIR / QBICE_REPO let tools/seedtest.py run a check against a scratch copy of the
# repository (with a seeded change applied) without touching /repo; default: the real things.
HARNESS = os.environ.get("VERIF_HARNESS_DIR", os.path.join(VERIF, "harness"))
REPO = os.environ.get("QBICE_REPO", "/repo")
EVIDENCE_DIR = os.environ.get("VERIF_EVIDENCE_DIR", os.path.join(VERIF, "evidence"))
REPLAY_DIR = os.environ.get("VERIF_REPLAY_DIR", os.path.join(VERIF, "replays"))
ALLOWED_AXIOMS = {"propext", "Classical.choice", "Quot.sound"}
TRUSTED_BASE = [
    "Lean 4.33.0 kernel",
    "axioms: subset of {propext, Classical.choice, Quot.sound} (audited by Audit.lean on every run)",
    "hand-written Lean model (QbiceVerif/Model) tied to /repo by differential correspondence on every run",
    "Rust harness (generators, oracle) and tools/check",
]
FORBIDDEN = re.compile(r"\b(sorry|admit|native_decide|bv_decide|implemented_by|unsafe)\b|^\s*axiom\s|maxHeartbeats\s+0\b")


class Ctx:
    def __init__(self, pid, tier, seed, replay=None):
        self.pid, self.tier, self.seed, self.replay = pid, tier, seed, replay
        self.t0 = time.time()
        self.work = os.path.join(os.environ.get("VERIF_WORK_DIR", os.path.join(VERIF, "work")), pid.lower())
        shutil.rmtree(self.work, ignore_errors=True)
        os.makedirs(self.work, exist_ok=True)
        self.notes = []
        self.jobs = int(os.environ.get("VERIF_JOBS", "16"))

    def quick(self):
        return self.tier == "quick"


def sh(cmd, cwd=None, env=None, timeout=None, stdin=None, capture=True):
    e = dict(os.environ)
    e.update({"CARGO_NET_OFFLINE": "true"})
    if env:
        e.update(env)
    p = subprocess.run(cmd, cwd=cwd, env=e, shell=isinstance(cmd, str), timeout=timeout,
                       stdin=stdin, stdout=subprocess.PIPE if capture else None,
                       stderr=subprocess.STDOUT if capture else None, text=True, errors="replace")
    if p.returncode == -11 and stdin is None:
        # SIGSEGV of a harness process.  Seen three times in ~10^5 shard runs under heavy load, always at the same
        # instruction: glibc's pthread_detach reading the descriptor of a thread that has just exited and unmapped its
        # own stack (the harnesses create and drop one runtime per case, i.e. thousands of short-lived threads) - the
        # faulting address is inside libc.so.6 (dmesg), not in qbice or the harness.  The process is run ONCE more
        # with the same arguments (same seed) and the retry is recorded in the evidence notes; a second death is an
        # error of the check (and a crash inside qbice would reproduce with the same seed).
        SIGNAL_RETRIES.append(" ".join(map(str, cmd))[:200] if not isinstance(cmd, str) else cmd[:200])
        p = subprocess.run(cmd, cwd=cwd, env=e, shell=isinstance(cmd, str), timeout=timeout,
                           stdin=stdin, stdout=subprocess.PIPE if capture else None,
                           stderr=subprocess.STDOUT if capture else None, text=True, errors="replace")
    return p.returncode, (p.stdout or "")


SIGNAL_RETRIES = []


# ---------------------------------------------------------------- Lean side
def strip_comments(src):
    # remove /- ... -/ (nested) and -- comments; good enough for the forbidden-token grep
    out, i, depth = [], 0, 0
    while i < len(src):
        if src.startswith("/-", i):
            depth += 1; i += 2; continue
        if depth and src.startswith("-/", i):
            depth -= 1; i += 2; continue
        if depth:
            if src[i] == "\n": out.append("\n")
            i += 1; continue
        if src.startswith("--", i):
            while i < len(src) and src[i] != "\n": i += 1
            continue
        out.append(src[i]); i += 1
    return "".join(out)


def grep_forbidden():
    hits = []
    for root, _, files in os.walk(LEAN):
        if ".lake" in root: continue
        for f in files:
            if not f.endswith(".lean") or f == "Audit.lean": continue
            p = os.path.join(root, f)
            body = strip_comments(open(p, encoding="utf-8").read())
            # string literals may mention the words; drop them
            body = re.sub(r'"(\\.|[^"\\])*"', '""', body)
            for n, line in enumerate(body.split("\n"), 1):
                if FORBIDDEN.search(line):
                    hits.append(f"{os.path.relpath(p, LEAN)}:{n}: {line.strip()[:120]}")
    return hits


def lean_build(targets):
    t = time.time()
    rc, out = sh(["lake", "build"] + targets, cwd=LEAN, timeout=3600)
    return rc == 0, out, time.time() - t


def lean_audit(module):
    rc, out = sh(["lake", "env", "lean", "--run", "Audit.lean", module], cwd=LEAN, timeout=1800)
    thms, lemmas, bad = [], [], []
    for line in out.splitlines():
        if line.startswith("THEOREM "):
            m = re.match(r"THEOREM (\S+) AXIOMS ?(.*)", line)
            axs = [a for a in m.group(2).split(",") if a]
            thms.append({"name": m.group(1), "axioms": axs})
            if not set(axs) <= ALLOWED_AXIOMS: bad.append(m.group(1))
        elif line.startswith("LEMMA "):
            lemmas.append(line.split()[1])
    ok = ("SUMMARY" in out) and not bad and rc == 0
    return ok, thms, lemmas, bad, out


def leanchecker(module):
    rc, out = sh(["lake", "env", "leanchecker", module], cwd=LEAN, timeout=3600)
    return rc == 0, out


# ---------------------------------------------------------------- Rust side
def cargo_build(bin_name, features=""):
    if not os.path.exists(os.path.join(HARNESS, "Cargo.lock")) or \
            os.path.getmtime(os.path.join(REPO, "Cargo.lock")) > os.path.getmtime(os.path.join(HARNESS, "Cargo.lock")):
        pass  # the lock file committed in harness/ is a superset; see harness/README
    cmd = ["cargo", "build", "--offline", "--release", "--bin", bin_name]
    if features: cmd += ["--features", features]
    env = {"RUSTFLAGS": "--cfg qbice_verif -Awarnings", "QBICE_REPO": REPO}
    t = time.time()
    rc, out = sh(cmd, cwd=HARNESS, env=env, timeout=3600)
    return rc == 0, out, time.time() - t, os.path.join(HARNESS, "target", "release", bin_name)


def driver_path(name):
    return os.path.join(LEAN, ".lake", "build", "bin", name)


def run_driver(name, ops_path, out_path, args=()):
    with open(ops_path, "rb") as fin, open(out_path, "wb") as fout:
        p = subprocess.run([driver_path(name), *args], stdin=fin, stdout=fout, stderr=subprocess.PIPE, timeout=7200)
    return p.returncode, p.stderr.decode(errors="replace")


def diff_streams(impl_path, model_path, ops_path=None, limit=5):
    """Line-by-line comparison. Returns (n_lines, [ (lineno, op, impl, model) ... ])."""
    a = open(impl_path, encoding="utf-8", errors="replace").read().split("\n")
    b = open(model_path, encoding="utf-8", errors="replace").read().split("\n")
    ops = open(ops_path, encoding="utf-8", errors="replace").read().split("\n") if ops_path else None
    if a and a[-1] == "": a.pop()
    if b and b[-1] == "": b.pop()
    diffs = []
    n = max(len(a), len(b))
    for i in range(n):
        x = a[i] if i < len(a) else "<missing>"
        y = b[i] if i < len(b) else "<missing>"
        if x != y:
            diffs.append({"line": i + 1, "op": (ops[i] if ops and i < len(ops) else None), "impl": x[:400], "model": y[:400]})
            if len(diffs) >= limit: break
    return len(a), diffs


def shard_map(fn, items, jobs):
    with cf.ThreadPoolExecutor(max_workers=jobs) as ex:
        return list(ex.map(fn, items))


# ---------------------------------------------------------------- findings / reporting
def load_known(pid):
    files = [os.path.join(VERIF, "known_findings.json")]
    d = os.path.join(VERIF, "known_findings.d")
    if os.path.isdir(d):
        files += sorted(os.path.join(d, f) for f in os.listdir(d) if f.endswith(".json"))
    out = []
    for p in files:
        if not os.path.exists(p): continue
        out += [e for e in json.load(open(p)).get("findings", []) if e.get("property") == pid and e.get("status") == "known"]
    return out


def write_replay(pid, obj, tag=None):
    os.makedirs(REPLAY_DIR, exist_ok=True)
    blob = json.dumps(obj, sort_keys=True, indent=1)
    h = hashlib.sha1(blob.encode()).hexdigest()[:10]
    path = os.path.join(REPLAY_DIR, f"{pid}-{tag or h}.json")
    open(path, "w").write(blob + "\n")
    return path


class Result:
    """What plugin.run returns."""
    def __init__(self):
        self.evaluations = 0
        self.distinct_nontrivial = 0
        self.rule = ""
        self.samples = []
        self.distribution = {}
        self.traces_validated = None
        self.lines_compared = 0
        self.disagreements = []      # model != implementation (dicts)
        self.oracle_failures = []    # implementation violates the property: {"sig":..., "desc":..., "case":...}
        self.extra = {}
        self.assumptions = []
        self.partial = []            # names of _partial theorems + what is missing


def finish(ctx, plugin, res, proof):
    """Writes evidence, prints KNOWN-FINDING / VIOLATION lines, returns exit code."""
    pid = ctx.pid
    known = load_known(pid)
    violations, printed_known = [], set()
    for f in res.oracle_failures:
        k = next((e for e in known if f.get("sig") and f["sig"] in e.get("signatures", [])), None)
        if k:
            if k["id"] not in printed_known:
                printed_known.add(k["id"])
                print(f"KNOWN-FINDING: property={pid} {k['id']} {k['what']}")
        else:
            violations.append(f)
    lines = []
    for f in violations[:3]:
        path = write_replay(pid, {"kind": "oracle-failure", "property": pid, **f})
        lines.append(f"VIOLATION property={pid} replay={path}")
    tie_broken = bool(res.disagreements) or not proof["ok"]
    if tie_broken and not violations:
        # no failing input found by the oracle (run + boosted search already folded into res by check)
        obj = {"kind": "proof-or-correspondence-broken", "property": pid,
               "proof_ok": proof["ok"], "proof_log_tail": proof.get("log", "")[-3000:],
               "failed_theorems_or_modules": proof.get("failed", []),
               "correspondence": getattr(plugin, "HARNESS_BIN", None),
               "first_disagreements": res.disagreements[:5]}
        path = write_replay(pid, obj)
        lines.append(f"VIOLATION property={pid} replay={path} no-failing-input-found")
    ev = {
        "property_id": pid, "tier": ctx.tier, "seed": ctx.seed, "level": "proof",
        "coverage": {
            "obligations": proof["obligations"], "discharged": proof["discharged"],
            "checker_cmd": proof["checker_cmd"], "trusted_base": TRUSTED_BASE + getattr(plugin, "TRUSTED_EXTRA", []),
            "theorems": proof["theorems"], "lemma_count": proof["lemma_count"],
            "partial": res.partial or getattr(plugin, "PARTIAL", []),
            "evaluations": res.evaluations, "distinct_nontrivial": res.distinct_nontrivial,
            "rule": res.rule, "samples": res.samples[:6],
            "lines_compared_model_vs_impl": res.lines_compared,
            "disagreements_checked": len(res.disagreements),
            "disagreements": res.disagreements[:5],
            "input_distribution": res.distribution,
            "known_findings_seen": sorted(printed_known),
            **({"traces_validated_against_impl": res.traces_validated} if res.traces_validated is not None else {}),
            **res.extra,
        },
        "assumptions": res.assumptions + getattr(plugin, "ASSUMPTIONS", []),
        "wall_s": round(time.time() - ctx.t0, 2),
        "violations": len(violations) + (1 if tie_broken and not violations else 0),
        "notes": ctx.notes + [f"re-run once after SIGSEGV (glibc pthread_detach race, see vlib.sh): {c}" for c in SIGNAL_RETRIES],
    }
    os.makedirs(EVIDENCE_DIR, exist_ok=True)
    with open(os.path.join(EVIDENCE_DIR, f"{pid}.json"), "w") as fh:
        json.dump(ev, fh, indent=1)
        fh.write("\n")
    for l in lines: print(l)
    if not lines:
        print(f"OK property={pid} tier={ctx.tier} obligations={proof['obligations']} discharged={proof['discharged']} "
              f"evaluations={res.evaluations} nontrivial={res.distinct_nontrivial} lines={res.lines_compared} wall={ev['wall_s']}s")
    return 1 if lines else 0


def main(plugin, argv):
    import argparse
    ap = argparse.ArgumentParser()
    ap.add_argument("--tier", default=os.environ.get("VERIF_TIER", "quick"), choices=["quick", "thorough"])
    ap.add_argument("--replay", default=None)
    ap.add_argument("--seed", type=int, default=int(os.environ.get("VERIF_SEED", "1")))
    a = ap.parse_args(argv)
    ctx = Ctx(plugin.PID, a.tier, a.seed, a.replay)
    proof = {"ok": True, "obligations": 0, "discharged": 0, "theorems": [], "lemma_count": 0, "failed": [], "log": ""}
    if hasattr(plugin, "pre"):
        plugin.pre(ctx)
    targets = list(plugin.LEAN_MODULES) + ([plugin.DRIVER] if getattr(plugin, "DRIVER", None) else [])
    proof["checker_cmd"] = f"cd {LEAN} && lake build {' '.join(targets)} && lake env lean --run Audit.lean <module>" + \
        (" && lake env leanchecker <module>" if a.tier == "thorough" else "")
    ok, log, dt = lean_build(targets)
    ctx.notes.append(f"lake build {dt:.1f}s")
    if not ok:
        proof["ok"] = False; proof["log"] = log
        proof["failed"] = re.findall(r"error: (?:.*?)(QbiceVerif[\w/.]*\.lean:\d+:\d+.*)", log)[:10] or ["lake build failed"]
    hits = grep_forbidden()
    if hits:
        proof["ok"] = False; proof["failed"] += ["forbidden token: " + h for h in hits[:10]]
    if ok:
        for m in plugin.LEAN_MODULES:
            aok, thms, lemmas, bad, out = lean_audit(m)
            proof["obligations"] += len(thms) + len(lemmas)
            proof["discharged"] += len(thms) - len(bad) + len(lemmas)
            proof["theorems"] += [t["name"] + (" [axioms: " + ",".join(t["axioms"]) + "]" if t["axioms"] else "") for t in thms]
            proof["lemma_count"] += len(lemmas)
            if not aok:
                proof["ok"] = False; proof["failed"] += ["axiom audit: " + b for b in bad] or ["audit failed: " + out[-500:]]
            if a.tier == "thorough" and os.environ.get("VERIF_LEANCHECKER", "1") == "1":
                cok, cout = leanchecker(m)
                ctx.notes.append(f"leanchecker {m}: {'ok' if cok else 'FAILED ' + cout[-300:]}")
                if not cok:
                    proof["ok"] = False; proof["failed"].append("leanchecker " + m)
    if proof["obligations"] == 0:
        proof["obligations"] = max(1, len(plugin.LEAN_MODULES)); proof["discharged"] = 0
    ctx.proof = proof
    res = plugin.run(ctx)
    if (res.disagreements or not proof["ok"]) and not res.oracle_failures and hasattr(plugin, "search"):
        extra = plugin.search(ctx, res)
        res.oracle_failures += extra
    return finish(ctx, plugin, res, proof)
