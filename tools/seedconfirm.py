#!/usr/bin/env python3
"""seedconfirm.py <seed-src-dir> <id> [--tests "<cargo test args>"] [--workspace]

Independent confirmation of a seeded change produced by a sub-agent (<seed-src-dir> contains
patch.diff, demo/, meta.json): in a fresh scratch worktree of /repo HEAD with a private target dir
 (1) the patch applies and the workspace builds,
 (2) the existing tests still pass with it (the crates given by --tests, or the whole workspace),
 (3) the demonstration FAILS with the patch and (4) PASSES without it.
Writes /verif/seeded/<id>/{patch.diff,demo/,meta.json,confirm.json}; removes the scratch worktree.
"""
import json, os, re, shutil, subprocess, sys, time

V = os.path.dirname(os.path.dirname(os.path.abspath(__file__)))


def sh(cmd, cwd=None, env=None, timeout=3600):
    p = subprocess.run(cmd, shell=True, cwd=cwd, env=env, stdout=subprocess.PIPE, stderr=subprocess.STDOUT, text=True, timeout=timeout)
    return p.returncode, p.stdout


def main():
    src, sid = sys.argv[1], sys.argv[2]
    tests = None
    if "--tests" in sys.argv: tests = sys.argv[sys.argv.index("--tests") + 1]
    workspace = "--workspace" in sys.argv
    meta = json.load(open(os.path.join(src, "meta.json")))
    wt = f"/tmp/sc/{sid}"
    shutil.rmtree(wt, ignore_errors=True)
    os.makedirs("/tmp/sc", exist_ok=True)
    rc, out = sh(f"git -C /repo worktree add -f --detach {wt} HEAD")
    assert rc == 0, out
    conf = {"id": sid, "property": meta.get("property"), "confirmed_at": time.strftime("%Y-%m-%dT%H:%M:%SZ", time.gmtime())}
    try:
        shutil.copytree(src, f"{wt}/SEED", ignore=shutil.ignore_patterns("_*", "*.log", "target"))
        env = dict(os.environ, CARGO_TARGET_DIR=f"{wt}/target", CARGO_NET_OFFLINE="true")
        sh(f"mkdir -p {wt}/target/debug && cp -a /tmp/seed/target/debug/.fingerprint {wt}/target/debug/ && "
           f"cp -al /tmp/seed/target/debug/deps /tmp/seed/target/debug/build {wt}/target/debug/ && find {wt}/crates -name '*.rs' | xargs touch")
        rc, out = sh("git apply SEED/patch.diff", cwd=wt)
        conf["patch_applies"] = rc == 0
        assert rc == 0, out
        demo = re.sub(r"CARGO_TARGET_DIR=\S+\s*", "", meta["demo_command"])
        demo = re.sub(r"export\s+CARGO_NET_OFFLINE=\S+\s*;?", "", demo)
        demo = re.sub(r"^\s*cd\s+\S+\s*&&\s*", "", demo)          # the command is run from the scratch worktree root
        demo = re.sub(r"&&\s*&&", "&&", demo)
        demo = re.sub(r"^\s*&&\s*", "", demo)
        # (2) existing tests with the patch
        tcmd = "cargo test --workspace --no-fail-fast --offline" if workspace else f"cargo test --offline --no-fail-fast {tests}"
        rc, out = sh(tcmd + " 2>&1 | grep -E '^test result|^test .* FAILED|error(\\[|:)' | sort | uniq -c | sort -rn | head -40", cwd=wt, env=env, timeout=7200)
        failed = sorted(set(re.findall(r"test (\S+) \.\.\. FAILED", out)))
        conf["existing_tests_cmd"] = tcmd
        conf["existing_tests_failed"] = failed
        # the only tolerated failure is the test BASELINE.json lists as flaky on the unchanged code
        compile_error = bool(re.search(r"error\[|could not compile", out))
        conf["existing_tests_ok"] = ("test result: ok" in out) and not compile_error and all(f.endswith("asymmetric_diamond_projection_pattern") for f in failed)
        conf["note"] = "asymmetric_diamond_projection_pattern is listed as flaky in /root/.vp/BASELINE.json (fails on the unchanged code too) and is not part of the 152 stable tests"
        conf["existing_tests_summary"] = out[-1500:]
        # (3) demo with the patch
        rc1, out1 = sh(demo, cwd=wt, env=env, timeout=3600)
        conf["demo_cmd"] = demo
        conf["demo_with_patch_rc"] = rc1
        conf["demo_with_patch_tail"] = out1[-1200:]
        # (4) demo without the patch
        sh("git apply -R SEED/patch.diff", cwd=wt)
        rc2, out2 = sh(demo, cwd=wt, env=env, timeout=3600)
        conf["demo_without_patch_rc"] = rc2
        conf["demo_without_patch_tail"] = out2[-600:]
        # a demo command may end with a clean-up step, so also look at the test harness's verdict
        fail1 = rc1 != 0 or "test result: FAILED" in out1
        fail2 = rc2 != 0 or "test result: FAILED" in out2
        conf["demo_fails_with_patch"] = fail1
        conf["demo_passes_without_patch"] = (not fail2) and ("test result: ok" in out2 or rc2 == 0)
        conf["confirmed"] = bool(conf["existing_tests_ok"] and fail1 and conf["demo_passes_without_patch"])
    finally:
        dst = os.path.join(V, "seeded", sid)
        os.makedirs(dst, exist_ok=True)
        for f in ("patch.diff", "meta.json"):
            shutil.copy(os.path.join(src, f), os.path.join(dst, f))
        if os.path.isdir(os.path.join(src, "demo")):
            shutil.rmtree(os.path.join(dst, "demo"), ignore_errors=True)
            shutil.copytree(os.path.join(src, "demo"), os.path.join(dst, "demo"), ignore=shutil.ignore_patterns("target", "_*", "*.log"))
        json.dump(conf, open(os.path.join(dst, "confirm.json"), "w"), indent=1)
        sh(f"git -C /repo worktree remove --force {wt}")
        shutil.rmtree(wt, ignore_errors=True)
    print(json.dumps({k: v for k, v in conf.items() if not k.endswith("_tail") and not k.endswith("_summary")}, indent=1))


if __name__ == "__main__":
    main()
