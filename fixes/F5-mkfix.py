import re,sys,subprocess
COMMENT='''        // Take the exclusive phase lock FIRST. The timestamp must only change
        // while no computation is active: a `tracked()` caller that holds (or
        // obtains) the shared lock after the bump but before the inputs are
        // written would verify nodes at the new timestamp against the old
        // inputs, and those nodes would be trusted after the commit. Creating
        // the write batch after the lock also keeps its epoch above every
        // batch of the computations that ran before this session, and leaves
        // nothing to clean up if this future is dropped while it waits.
'''
def fix(src):
    fn=src.index('async fn acquire_active_input_session_guard')
    body=src.index('{\n', src.index('-> (WriteTransaction<C>, ActiveInputSessionGuard)', fn))+2
    ret=src.index('        (write_buffer, ActiveInputSessionGuard(Arc::new(guard)))', body)
    seg=src[body:ret]
    # the lock block: from the `phase:w:req` hook (or `let guard`) to the end of the segment
    start=seg.find('        crate::verif_point!("phase:w:req"')
    if start<0: start=seg.index('        let guard = self')
    lock=seg[start:].rstrip('\n')+'\n'
    rest=seg[:start].rstrip('\n')+'\n'
    # keep a leading pause hook (phase:w:pre) first
    m=re.match(r'(        crate::verif_pause!\("phase:w:pre", None\);\n)',rest)
    head=m.group(1) if m else ''
    rest=rest[len(head):]
    new=head+COMMENT+lock+'\n'+rest+'\n'
    return src[:body]+new+src[ret:]
p=sys.argv[1]; out=sys.argv[2]
open(out,'w').write(fix(open(p).read()))
