//! Shared pieces of the correspondence harness: seeded PRNG, hex helpers, output files.
#![allow(clippy::all)]
use std::io::Write;

/// splitmix64 — every random choice of a run derives from one state (VERIF_SEED).
#[derive(Clone, Debug)]
pub struct Rng(pub u64);
impl Rng {
    pub fn new(seed: u64) -> Self { Rng(seed.wrapping_mul(0x9E37_79B9_7F4A_7C15) ^ 0xD1B5_4A32_D192_ED03) }
    pub fn next(&mut self) -> u64 {
        self.0 = self.0.wrapping_add(0x9E37_79B9_7F4A_7C15);
        let mut z = self.0;
        z = (z ^ (z >> 30)).wrapping_mul(0xBF58_476D_1CE4_E5B9);
        z = (z ^ (z >> 27)).wrapping_mul(0x94D0_49BB_1331_11EB);
        z ^ (z >> 31)
    }
    pub fn below(&mut self, n: u64) -> u64 { if n == 0 { 0 } else { self.next() % n } }
    pub fn range(&mut self, lo: u64, hi: u64) -> u64 { lo + self.below(hi - lo + 1) }
    pub fn chance(&mut self, num: u64, den: u64) -> bool { self.below(den) < num }
    pub fn pick<'a, T>(&mut self, xs: &'a [T]) -> &'a T { &xs[self.below(xs.len() as u64) as usize] }
    pub fn shuffle<T>(&mut self, xs: &mut [T]) {
        for i in (1..xs.len()).rev() { let j = self.below(i as u64 + 1) as usize; xs.swap(i, j); }
    }
}

pub fn hex(b: &[u8]) -> String {
    let mut s = String::with_capacity(b.len() * 2);
    for x in b { s.push_str(&format!("{:02x}", x)); }
    if s.is_empty() { s.push('-'); }
    s
}
pub fn unhex(s: &str) -> Vec<u8> {
    if s == "-" { return vec![]; }
    (0..s.len() / 2).map(|i| u8::from_str_radix(&s[2 * i..2 * i + 2], 16).unwrap()).collect()
}

/// Command line shared by all harness bins: --seed N --tier quick|thorough --out DIR [--replay FILE] [--n N]
#[derive(Debug, Clone)]
pub struct Args { pub seed: u64, pub tier: String, pub out: String, pub replay: Option<String>, pub n: Option<u64>, pub rest: Vec<String> }
pub fn args() -> Args {
    let mut a = Args { seed: 1, tier: "quick".into(), out: ".".into(), replay: None, n: None, rest: vec![] };
    let v: Vec<String> = std::env::args().skip(1).collect();
    let mut i = 0;
    while i < v.len() {
        match v[i].as_str() {
            "--seed" => { a.seed = v[i + 1].parse().unwrap(); i += 2; }
            "--tier" => { a.tier = v[i + 1].clone(); i += 2; }
            "--out" => { a.out = v[i + 1].clone(); i += 2; }
            "--replay" => { a.replay = Some(v[i + 1].clone()); i += 2; }
            "--n" => { a.n = Some(v[i + 1].parse().unwrap()); i += 2; }
            _ => { a.rest.push(v[i].clone()); i += 1; }
        }
    }
    a
}

/// ops.txt (lines for the Lean driver), impl.txt (what the implementation answered, one line per op).
pub struct Out { pub ops: std::io::BufWriter<std::fs::File>, pub imp: std::io::BufWriter<std::fs::File>, pub dir: String, pub lines: u64 }
impl Out {
    pub fn new(dir: &str) -> Self {
        std::fs::create_dir_all(dir).unwrap();
        Out { ops: std::io::BufWriter::new(std::fs::File::create(format!("{dir}/ops.txt")).unwrap()),
              imp: std::io::BufWriter::new(std::fs::File::create(format!("{dir}/impl.txt")).unwrap()), dir: dir.into(), lines: 0 }
    }
    pub fn line(&mut self, op: &str, imp: &str) {
        debug_assert!(!op.contains('\n') && !imp.contains('\n'));
        writeln!(self.ops, "{op}").unwrap(); writeln!(self.imp, "{imp}").unwrap(); self.lines += 1;
    }
    pub fn finish(mut self, report: &str) {
        self.ops.flush().unwrap(); self.imp.flush().unwrap();
        std::fs::write(format!("{}/report.json", self.dir), report).unwrap();
    }
}

/// Minimal JSON string escaping (the harness writes its reports by hand; no serde offline-dependency needed).
pub fn jstr(s: &str) -> String {
    let mut o = String::from("\"");
    for c in s.chars() {
        match c { '"' => o.push_str("\\\""), '\\' => o.push_str("\\\\"), '\n' => o.push_str("\\n"), '\t' => o.push_str("\\t"),
            c if (c as u32) < 0x20 => o.push_str(&format!("\\u{:04x}", c as u32)), c => o.push(c) }
    }
    o.push('"'); o
}

pub mod eng;
pub mod kvmem;
