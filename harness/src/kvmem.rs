//! `KvMem`: a reusable in-memory `KvDatabase` written against the public storage traits
//! (`qbice_storage::kv_database`), for the engine-level persistence checks (C07 restart, C08 crash).
//!
//! * generic over every column / key / value type: keys and values are stored as the bytes the real
//!   serializer produces (postcard + the engine's plugin, so interned values are encoded exactly as
//!   the real backends would store them), with the same composite-key construction as the Fjall
//!   backend (discriminant prefixed / suffixed; key-of-set = length-prefixed key ++ element);
//! * the *store* (`MemStore`) outlives any number of `KvMem` handles / engines: a restart is "drop
//!   the engine, open a new engine on the same `MemStore`" (the new engine brings its own plugin);
//! * an ordered **commit log**: one entry per physical `WriteBatch::commit`, with the writes in
//!   order and the number of logical write-behind batches that were merged into it, so that a crash
//!   is "a new `MemStore` holding the first p commits" (`MemStore::from_prefix`);
//! * a grouping knob for `WriteBatch::should_write_more` (how many logical batches the write-behind
//!   commit thread merges into one physical commit);
//! * an optional commit gate (commits block until permitted) for concurrent scenarios;
//! * optionally a human-readable description of every write (column / value type names and the
//!   `Debug` rendering of key and value) for canonical dumps of the store content.
use std::collections::{BTreeMap, BTreeSet};
use std::sync::atomic::{AtomicU64, AtomicUsize, Ordering};
use std::sync::{Arc, Condvar, Mutex};

use qbice_serialize::{Decoder, Encode, Encoder, Plugin, PostcardDecoder, PostcardEncoder};
use qbice_stable_type_id::Identifiable;
use qbice_storage::kv_database::{
    DiscriminantEncoding, KeyOfSetColumn, KvDatabase, KvDatabaseFactory, SerializationBuffer, WideColumn, WideColumnValue, WriteBatch,
};

/// Human-readable description of a write (only recorded when `MemStore::describe` is on).
#[derive(Clone, Debug, Default, PartialEq, Eq, PartialOrd, Ord)]
pub struct Desc { pub column: &'static str, pub value_type: &'static str, pub key: String, pub value: String }

#[derive(Clone, Debug, PartialEq, Eq)]
pub enum MemOp {
    /// wide column put: (column id, composite key) -> value bytes
    Put { col: u128, key: Vec<u8>, val: Vec<u8>, desc: Option<Arc<Desc>> },
    Del { col: u128, key: Vec<u8>, desc: Option<Arc<Desc>> },
    /// key-of-set member insert: (column id, length-prefixed key) ∋ element bytes
    InsM { col: u128, key: Vec<u8>, elem: Vec<u8>, desc: Option<Arc<Desc>> },
    DelM { col: u128, key: Vec<u8>, elem: Vec<u8>, desc: Option<Arc<Desc>> },
}

/// One physical commit.
#[derive(Clone, Debug, Default, PartialEq, Eq)]
pub struct Commit { pub ops: Vec<MemOp>, /** logical (write-behind) batches merged into this commit */ pub logical: u64 }

#[derive(Clone, Default)]
pub struct Tables {
    pub wide: BTreeMap<(u128, Vec<u8>), (Vec<u8>, Option<Arc<Desc>>)>,
    pub sets: BTreeMap<(u128, Vec<u8>), BTreeMap<Vec<u8>, Option<Arc<Desc>>>>,
}
impl Tables {
    pub fn apply(&mut self, c: &Commit) {
        for op in &c.ops {
            match op {
                MemOp::Put { col, key, val, desc } => { self.wide.insert((*col, key.clone()), (val.clone(), desc.clone())); }
                MemOp::Del { col, key, .. } => { self.wide.remove(&(*col, key.clone())); }
                MemOp::InsM { col, key, elem, desc } => { self.sets.entry((*col, key.clone())).or_default().insert(elem.clone(), desc.clone()); }
                MemOp::DelM { col, key, elem, .. } => {
                    let k = (*col, key.clone());
                    if let Some(s) = self.sets.get_mut(&k) { s.remove(elem); if s.is_empty() { self.sets.remove(&k); } }
                }
            }
        }
    }
    /// byte-level content, canonical (sorted)
    pub fn content(&self) -> (Vec<((u128, Vec<u8>), Vec<u8>)>, Vec<((u128, Vec<u8>), Vec<Vec<u8>>)>) {
        (self.wide.iter().map(|(k, v)| (k.clone(), v.0.clone())).collect(),
         self.sets.iter().map(|(k, s)| (k.clone(), s.keys().cloned().collect())).collect())
    }
}

#[derive(Default)]
struct Gate { gated: bool, permits: u64 }

#[derive(Default)]
struct State { tables: Tables, log: Vec<Commit> }

/// The durable part: tables + commit log.  Shared by all `KvMem` handles opened on it.
pub struct MemStore {
    state: Mutex<State>,
    gate: Mutex<Gate>,
    gate_cv: Condvar,
    /// `should_write_more` answers true while fewer than `group` logical batches have been merged
    pub group: AtomicUsize,
    pub describe: bool,
    pub reads: AtomicU64,
    pub scans: AtomicU64,
}

impl MemStore {
    pub fn new(group: usize, describe: bool) -> Arc<Self> {
        Arc::new(MemStore { state: Mutex::default(), gate: Mutex::default(), gate_cv: Condvar::new(), group: AtomicUsize::new(group.max(1)), describe,
            reads: AtomicU64::new(0), scans: AtomicU64::new(0) })
    }
    /// a fresh store holding exactly the effect of the first `p` commits of `log` (crash after commit p)
    pub fn from_prefix(log: &[Commit], p: usize, group: usize, describe: bool) -> Arc<Self> {
        let s = Self::new(group, describe);
        { let mut st = s.state.lock().unwrap(); for c in &log[..p] { st.tables.apply(c); } }
        s
    }
    pub fn log(&self) -> Vec<Commit> { self.state.lock().unwrap().log.clone() }
    pub fn log_len(&self) -> usize { self.state.lock().unwrap().log.len() }
    pub fn tables(&self) -> Tables { self.state.lock().unwrap().tables.clone() }
    pub fn set_gated(&self, gated: bool) { let mut g = self.gate.lock().unwrap(); g.gated = gated; self.gate_cv.notify_all(); }
    pub fn permit(&self, n: u64) { let mut g = self.gate.lock().unwrap(); g.permits += n; self.gate_cv.notify_all(); }
    fn commit(&self, c: Commit) {
        {
            let mut g = self.gate.lock().unwrap();
            let t0 = std::time::Instant::now();
            while g.gated && g.permits == 0 {
                let (g2, _) = self.gate_cv.wait_timeout(g, std::time::Duration::from_millis(100)).unwrap();
                g = g2;
                if t0.elapsed() > std::time::Duration::from_secs(120) { panic!("kvmem: commit gate never opened"); }
            }
            if g.gated { g.permits -= 1; }
        }
        if c.ops.is_empty() && c.logical == 0 { return; } // the write-behind's final flush of an empty batch
        let mut st = self.state.lock().unwrap();
        st.tables.apply(&c);
        st.log.push(c);
    }
}

/// A handle = store + the serialization plugin of the engine that opened it.
#[derive(Clone)]
pub struct KvMem { pub store: Arc<MemStore>, plugin: Arc<Plugin> }

impl KvMem {
    pub fn open(store: &Arc<MemStore>, plugin: Plugin) -> Self { KvMem { store: store.clone(), plugin: Arc::new(plugin) } }
}

/// `KvDatabaseFactory` for `DbBackedFactory`
pub struct KvMemFactory(pub Arc<MemStore>);
impl KvDatabaseFactory for KvMemFactory {
    type KvDatabase = KvMem;
    type Error = std::convert::Infallible;
    fn open(self, serialization_plugin: Plugin) -> Result<KvMem, Self::Error> { Ok(KvMem::open(&self.0, serialization_plugin)) }
}

fn enc<T: Encode>(plugin: &Plugin, v: &T, buf: &mut Vec<u8>, non_empty: bool) {
    let start = buf.len();
    let mut e = PostcardEncoder::new(&mut *buf);
    e.encode(v, plugin).expect("kvmem: encoding should not fail");
    if non_empty && buf.len() == start { buf.push(0); }
}
fn enc_len_prefixed<T: Encode>(plugin: &Plugin, v: &T, buf: &mut Vec<u8>) {
    let start = buf.len();
    buf.extend_from_slice(&0u64.to_le_bytes());
    let mut e = PostcardEncoder::new(&mut *buf);
    e.encode(v, plugin).expect("kvmem: encoding should not fail");
    let n = (buf.len() - start - 8) as u64;
    buf[start..start + 8].copy_from_slice(&n.to_le_bytes());
}
fn wide_key<W: WideColumn, C: WideColumnValue<W>>(plugin: &Plugin, key: &W::Key) -> Vec<u8> {
    let mut b = Vec::new();
    if W::discriminant_encoding() == DiscriminantEncoding::Prefixed { enc(plugin, &C::discriminant(), &mut b, false); }
    enc(plugin, key, &mut b, true);
    if W::discriminant_encoding() == DiscriminantEncoding::Suffixed { enc(plugin, &C::discriminant(), &mut b, false); }
    b
}

fn op_put<W: WideColumn, C: WideColumnValue<W>>(db: &KvMem, key: &W::Key, value: &C) -> MemOp {
    let mut val = Vec::new();
    enc(&db.plugin, value, &mut val, false);
    let desc = db.store.describe.then(|| Arc::new(Desc { column: std::any::type_name::<W>(), value_type: std::any::type_name::<C>(), key: format!("{key:?}"), value: format!("{value:?}") }));
    MemOp::Put { col: W::STABLE_TYPE_ID.as_u128(), key: wide_key::<W, C>(&db.plugin, key), val, desc }
}
fn op_del<W: WideColumn, C: WideColumnValue<W>>(db: &KvMem, key: &W::Key) -> MemOp {
    let desc = db.store.describe.then(|| Arc::new(Desc { column: std::any::type_name::<W>(), value_type: std::any::type_name::<C>(), key: format!("{key:?}"), value: String::new() }));
    MemOp::Del { col: W::STABLE_TYPE_ID.as_u128(), key: wide_key::<W, C>(&db.plugin, key), desc }
}
fn set_parts<C: KeyOfSetColumn>(db: &KvMem, key: &C::Key, value: &C::Element) -> (u128, Vec<u8>, Vec<u8>, Option<Arc<Desc>>) {
    let mut k = Vec::new();
    enc_len_prefixed(&db.plugin, key, &mut k);
    let mut e = Vec::new();
    enc(&db.plugin, value, &mut e, false);
    let desc = db.store.describe.then(|| Arc::new(Desc { column: std::any::type_name::<C>(), value_type: "", key: format!("{key:?}"), value: format!("{value:?}") }));
    (C::STABLE_TYPE_ID.as_u128(), k, e, desc)
}

pub struct MemBuf { ops: Vec<MemOp>, db: KvMem }
pub struct MemBatch { ops: Vec<MemOp>, logical: u64, db: KvMem }

macro_rules! impl_ops { () => {
    fn put<W: WideColumn, C: WideColumnValue<W>>(&mut self, key: &W::Key, value: &C) { let op = op_put::<W, C>(&self.db, key, value); self.ops.push(op); }
    fn delete<W: WideColumn, C: WideColumnValue<W>>(&mut self, key: &W::Key) { let op = op_del::<W, C>(&self.db, key); self.ops.push(op); }
    fn insert_member<C: KeyOfSetColumn>(&mut self, key: &C::Key, value: &C::Element) { let (col, key, elem, desc) = set_parts::<C>(&self.db, key, value); self.ops.push(MemOp::InsM { col, key, elem, desc }); }
    fn delete_member<C: KeyOfSetColumn>(&mut self, key: &C::Key, value: &C::Element) { let (col, key, elem, desc) = set_parts::<C>(&self.db, key, value); self.ops.push(MemOp::DelM { col, key, elem, desc }); }
} }
impl SerializationBuffer for MemBuf { impl_ops!(); }
impl WriteBatch for MemBatch {
    type SerializationBuffer = MemBuf;
    impl_ops!();
    fn consume_serialization_buffer(&mut self, buffer: MemBuf) { self.ops.extend(buffer.ops); self.logical += 1; }
    fn commit(self) { self.db.store.commit(Commit { ops: self.ops, logical: self.logical }); }
    fn should_write_more(&self) -> bool { (self.logical as usize) < self.db.store.group.load(Ordering::SeqCst) }
}

pub struct MemScan<C: KeyOfSetColumn> { items: std::vec::IntoIter<Vec<u8>>, plugin: Arc<Plugin>, _m: std::marker::PhantomData<fn() -> C> }
impl<C: KeyOfSetColumn> Iterator for MemScan<C> {
    type Item = C::Element;
    fn next(&mut self) -> Option<C::Element> {
        let b = self.items.next()?;
        let mut d = PostcardDecoder::new(std::io::Cursor::new(&b[..]));
        Some(d.decode::<C::Element>(&self.plugin).expect("kvmem: decoding a set element should not fail"))
    }
}

impl KvDatabase for KvMem {
    type WriteBatch = MemBatch;
    type SerializationBuffer = MemBuf;
    type ScanMemberIterator<C: KeyOfSetColumn> = MemScan<C>;
    fn get_wide_column<W: WideColumn, C: WideColumnValue<W>>(&self, key: &W::Key) -> Option<C> {
        self.store.reads.fetch_add(1, Ordering::Relaxed);
        let k = (W::STABLE_TYPE_ID.as_u128(), wide_key::<W, C>(&self.plugin, key));
        let bytes = self.store.state.lock().unwrap().tables.wide.get(&k).map(|v| v.0.clone())?;
        let mut d = PostcardDecoder::new(std::io::Cursor::new(&bytes[..]));
        Some(d.decode::<C>(&self.plugin).expect("kvmem: decoding a stored value should not fail"))
    }
    fn scan_members<C: KeyOfSetColumn>(&self, key: &C::Key) -> MemScan<C> {
        self.store.scans.fetch_add(1, Ordering::Relaxed);
        let mut k = Vec::new();
        enc_len_prefixed(&self.plugin, key, &mut k);
        let items: Vec<Vec<u8>> = self.store.state.lock().unwrap().tables.sets.get(&(C::STABLE_TYPE_ID.as_u128(), k)).map(|s| s.keys().cloned().collect()).unwrap_or_default();
        MemScan { items: items.into_iter(), plugin: self.plugin.clone(), _m: std::marker::PhantomData }
    }
    fn write_batch(&self) -> MemBatch { MemBatch { ops: Vec::new(), logical: 0, db: self.clone() } }
    fn serialization_buffer(&self) -> MemBuf { MemBuf { ops: Vec::new(), db: self.clone() } }
}

/// canonical, human-readable dump of the store (requires `describe`): sorted lines
pub fn describe_tables(t: &Tables) -> BTreeSet<String> {
    let mut out = BTreeSet::new();
    for (_, (_, d)) in &t.wide { if let Some(d) = d { out.insert(format!("W {} {} {} = {}", short(d.column), short(d.value_type), d.key, d.value)); } }
    for (_, s) in &t.sets { for (_, d) in s { if let Some(d) = d { out.insert(format!("S {} {} ∋ {}", short(d.column), d.key, d.value)); } } }
    out
}
fn short(t: &str) -> String {
    // drop module paths: a::b::C<d::E> -> C<E>
    let mut out = String::new(); let mut seg = String::new();
    for ch in t.chars() {
        if ch.is_alphanumeric() || ch == '_' { seg.push(ch); }
        else if ch == ':' { seg.clear(); }
        else { out.push_str(&seg); seg.clear(); out.push(ch); }
    }
    out.push_str(&seg); out
}
