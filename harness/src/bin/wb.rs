//! C10 harness: runs the REAL `qbice_storage::write_manager::write_behind::WriteBehind` (created
//! through `DbBacked::new_write_manager`, filled through the real `CacheSingleMap` /
//! `CacheKeyOfSetMap`) over an in-memory `KvDatabase` that records every call the pipeline makes
//! into it (buffer creation, buffer writes, buffer consumption, `should_write_more`, `commit`).
//!
//! ops.txt  : the observed events, one per line, in the protocol of `lean/Driver/Wb.lean`
//!            (trace validation: the driver replays them through the model's `step`)
//! impl.txt : what the implementation showed at each event (epoch consumed, content of each physical
//!            commit, final store content)
//! oracle   : independent of the model — commit log is a chunking of creation order, every batch
//!            applied exactly once with exactly its content, everything durable when `drop` returns,
//!            final content = sequential application in creation order.
#![allow(clippy::all)]
use qbice_serialize::{Decode, Encode};
use qbice_stable_type_id::Identifiable;
use qbice_storage::key_of_set_map::KeyOfSetMap;
use qbice_storage::kv_database::{
    DiscriminantEncoding, KeyOfSetColumn, KvDatabase, SerializationBuffer, WideColumn, WideColumnValue,
    WriteBatch,
};
use qbice_storage::single_map::SingleMap;
use qbice_storage::storage_engine::db_backed::{Configuration, DbBacked};
use qbice_storage::storage_engine::StorageEngine;
use qbice_storage::write_manager::write_behind::WriteBehind;
use qbice_verif_harness::{args, jstr, Out, Rng};
use std::any::Any;
use std::collections::{BTreeMap, HashMap, HashSet, VecDeque};
use std::hash::{Hash, Hasher};
use std::io::Write as _;
use std::panic::{catch_unwind, AssertUnwindSafe};
use std::sync::atomic::{AtomicU64, Ordering};
use std::sync::{Arc, Mutex};

// ------------------------------------------------------------------------------------------------
// store keys, ops
// ------------------------------------------------------------------------------------------------

/// Structural store key: (space, column, key, sub).  space 0 = wide-column cell (sub = discriminant),
/// space 1 = set member (sub = element).  Injective by construction.
#[derive(Debug, Clone, Copy, PartialEq, Eq, PartialOrd, Ord, Hash)]
struct SKey(u32, u32, u32, u32);

type Op = (SKey, Option<u64>);

fn show_key(k: &SKey) -> String { format!("{}:{}:{}:{}", k.0, k.1, k.2, k.3) }
fn show_op(o: &Op) -> String {
    match o.1 { Some(v) => format!("{}={}", show_key(&o.0), v), None => format!("{}=-", show_key(&o.0)) }
}
fn show_ops(ops: &[Op]) -> String {
    if ops.is_empty() { "-".into() } else { ops.iter().map(show_op).collect::<Vec<_>>().join(",") }
}
fn show_nats(v: &[u64]) -> String {
    if v.is_empty() { "-".into() } else { v.iter().map(|x| x.to_string()).collect::<Vec<_>>().join(";") }
}

// ------------------------------------------------------------------------------------------------
// column / key / value types.  Keys, elements and values carry the creation index of the batch they
// were written in (`tag`), invisible to Eq/Hash, so that the store can tell which logical batch a
// serialization buffer belongs to without any hook in the write manager.
// ------------------------------------------------------------------------------------------------

#[derive(Debug, Clone, Encode, Decode)]
struct HKey { k: u32, tag: u32 }
impl PartialEq for HKey { fn eq(&self, o: &Self) -> bool { self.k == o.k } }
impl Eq for HKey {}
impl Hash for HKey { fn hash<H: Hasher>(&self, h: &mut H) { self.k.hash(h) } }

#[derive(Debug, Clone, Encode, Decode)]
struct HElem { e: u32, tag: u32 }
impl PartialEq for HElem { fn eq(&self, o: &Self) -> bool { self.e == o.e } }
impl Eq for HElem {}
impl Hash for HElem { fn hash<H: Hasher>(&self, h: &mut H) { self.e.hash(h) } }

#[derive(Debug, Clone, PartialEq, Eq, Encode, Decode)]
struct ValA { v: u64, tag: u32 }
#[derive(Debug, Clone, PartialEq, Eq, Encode, Decode)]
struct ValB { v: u64, tag: u32 }

#[derive(Debug, Clone, Copy, PartialEq, Eq, Hash, Identifiable)]
struct ColA;
impl WideColumn for ColA {
    type Discriminant = u8;
    type Key = HKey;
    fn discriminant_encoding() -> DiscriminantEncoding { DiscriminantEncoding::Suffixed }
}
impl WideColumnValue<ColA> for ValA { fn discriminant() -> u8 { 0 } }
impl WideColumnValue<ColA> for ValB { fn discriminant() -> u8 { 1 } }

#[derive(Debug, Clone, Copy, PartialEq, Eq, Hash, Identifiable)]
struct SetC;
impl KeyOfSetColumn for SetC {
    type Key = HKey;
    type Element = HElem;
}

const COL_A: u32 = 1;
const COL_C: u32 = 2;

// ------------------------------------------------------------------------------------------------
// the recording in-memory KvDatabase
// ------------------------------------------------------------------------------------------------

#[derive(Debug, Clone)]
enum Obs {
    Create(u64),
    Submit(u64),
    BufNew { buf: u64, worker: i64 },
    BufOp { buf: u64 },
    Consume { buf: u64 },
    More(bool),
    Commit { bufs: Vec<u64>, ops: Vec<Op> },
    DropBegin,
    DropEnd,
}

#[derive(Debug, Clone, Copy, PartialEq)]
enum Policy { Never, Always, Threshold(usize), Random(u64, u64) }

struct Inner {
    store: Mutex<BTreeMap<SKey, u64>>,
    trace: Mutex<Vec<Obs>>,
    /// per buffer: (ops in write order, tags seen)
    bufs: Mutex<HashMap<u64, (Vec<Op>, Vec<u32>)>>,
    next_buf: AtomicU64,
    policy: Policy,
    prng: Mutex<Rng>,
    /// serializer jitter: busy-wait before the first write of a buffer, in microseconds, by tag
    jitter: Vec<u64>,
    /// child mode: print every observation as it happens (the process may abort)
    stream: bool,
}

impl Inner {
    /// Record an observation (the caller holds the trace lock).
    fn rec(&self, tr: &mut Vec<Obs>, o: Obs, extra: &str) {
        if self.stream {
            let line = match &o {
                Obs::Create(i) => format!("create {i}"),
                Obs::Submit(i) => format!("submit {i}"),
                Obs::BufNew { buf, worker } => format!("bufnew {buf} {worker}"),
                Obs::BufOp { buf } => format!("bufop {buf} {extra}"),
                Obs::Consume { buf } => format!("consume {buf}"),
                Obs::More(b) => format!("more {}", *b as u8),
                Obs::Commit { bufs, ops } => format!("commit {} {}", show_nats(bufs), show_ops(ops)),
                Obs::DropBegin => "dropbegin".into(),
                Obs::DropEnd => "dropend".into(),
            };
            let so = std::io::stdout();
            let mut l = so.lock();
            let _ = writeln!(l, "{line}");
            let _ = l.flush();
        }
        tr.push(o);
    }
}

fn parse_key(s: &str) -> Option<SKey> {
    let p: Vec<u32> = s.split(':').filter_map(|x| x.parse().ok()).collect();
    if p.len() == 4 { Some(SKey(p[0], p[1], p[2], p[3])) } else { None }
}
fn parse_op(s: &str) -> Option<Op> {
    let (k, v) = s.split_once('=')?;
    Some((parse_key(k)?, if v == "-" { None } else { Some(v.parse().ok()?) }))
}
fn parse_ops(s: &str) -> Vec<Op> { if s == "-" { vec![] } else { s.split(',').filter_map(parse_op).collect() } }
fn parse_nats(s: &str) -> Vec<u64> { if s == "-" { vec![] } else { s.split(';').filter_map(|x| x.parse().ok()).collect() } }

/// Parent side of child mode: rebuild the observations from the child's stdout.
fn parse_stream(txt: &str) -> (Vec<Obs>, HashMap<u64, (Vec<Op>, Vec<u32>)>) {
    let mut tr = vec![];
    let mut bufs: HashMap<u64, (Vec<Op>, Vec<u32>)> = HashMap::new();
    for line in txt.lines() {
        let t: Vec<&str> = line.split(' ').collect();
        match t.as_slice() {
            ["create", i] => tr.push(Obs::Create(i.parse().unwrap())),
            ["submit", i] => tr.push(Obs::Submit(i.parse().unwrap())),
            ["bufnew", b, w] => { let b: u64 = b.parse().unwrap(); bufs.entry(b).or_default(); tr.push(Obs::BufNew { buf: b, worker: w.parse().unwrap() }) }
            ["bufop", b, tag, op] => {
                let b: u64 = b.parse().unwrap();
                let e = bufs.entry(b).or_default();
                e.0.push(parse_op(op).unwrap()); e.1.push(tag.parse().unwrap());
                tr.push(Obs::BufOp { buf: b })
            }
            ["consume", b] => tr.push(Obs::Consume { buf: b.parse().unwrap() }),
            ["more", b] => tr.push(Obs::More(*b == "1")),
            ["commit", bs, ops] => tr.push(Obs::Commit { bufs: parse_nats(bs), ops: parse_ops(ops) }),
            ["dropbegin"] => tr.push(Obs::DropBegin),
            ["dropend"] => tr.push(Obs::DropEnd),
            _ => {}
        }
    }
    (tr, bufs)
}

#[derive(Clone)]
struct HDb(Arc<Inner>);

struct HSerBuf { id: u64, ops: Vec<Op>, db: Arc<Inner>, jittered: bool }

struct HWriteBatch { ops: Vec<Op>, bufs: Vec<u64>, db: Arc<Inner> }

fn spin_us(us: u64) {
    if us == 0 { return; }
    let t = std::time::Instant::now();
    while (t.elapsed().as_micros() as u64) < us { std::hint::spin_loop(); }
}

fn worker_index() -> i64 {
    let t = std::thread::current();
    match t.name() {
        Some(n) if n.starts_with("bg_writer_ser_") => n["bg_writer_ser_".len()..].parse().unwrap_or(-1),
        _ => -1,
    }
}

fn hkey<K: 'static>(k: &K) -> &HKey { (k as &dyn Any).downcast_ref::<HKey>().expect("harness key type") }
fn disc<D: 'static>(d: &D) -> u32 { *(d as &dyn Any).downcast_ref::<u8>().expect("u8 discriminant") as u32 }

impl HSerBuf {
    fn push(&mut self, op: Op, tag: u32) {
        if !self.jittered {
            self.jittered = true;
            let us = self.db.jitter.get(tag as usize).copied().unwrap_or(0);
            spin_us(us);
        }
        self.ops.push(op);
        let mut tr = self.db.trace.lock().unwrap();
        let mut b = self.db.bufs.lock().unwrap();
        let e = b.entry(self.id).or_default();
        e.0.push(op);
        e.1.push(tag);
        self.db.rec(&mut tr, Obs::BufOp { buf: self.id }, &format!("{} {}", tag, show_op(&op)));
    }
}

impl SerializationBuffer for HSerBuf {
    fn put<W: WideColumn, C: WideColumnValue<W>>(&mut self, key: &W::Key, value: &C) {
        let k = hkey(key);
        let d = disc(&C::discriminant());
        let any = value as &dyn Any;
        let (v, tag) = if let Some(a) = any.downcast_ref::<ValA>() { (a.v, a.tag) }
            else if let Some(b) = any.downcast_ref::<ValB>() { (b.v, b.tag) }
            else { panic!("harness value type") };
        assert_eq!(tag, k.tag, "key and value of one write carry the same batch tag");
        self.push((SKey(0, COL_A, k.k, d), Some(v)), tag);
    }
    fn delete<W: WideColumn, C: WideColumnValue<W>>(&mut self, key: &W::Key) {
        let k = hkey(key);
        let d = disc(&C::discriminant());
        self.push((SKey(0, COL_A, k.k, d), None), k.tag);
    }
    fn insert_member<C: KeyOfSetColumn>(&mut self, key: &C::Key, value: &C::Element) {
        let k = hkey(key);
        let e = (value as &dyn Any).downcast_ref::<HElem>().expect("harness element type");
        self.push((SKey(1, COL_C, k.k, e.e), Some(1)), e.tag);
    }
    fn delete_member<C: KeyOfSetColumn>(&mut self, key: &C::Key, value: &C::Element) {
        let k = hkey(key);
        let e = (value as &dyn Any).downcast_ref::<HElem>().expect("harness element type");
        self.push((SKey(1, COL_C, k.k, e.e), None), e.tag);
    }
}

impl WriteBatch for HWriteBatch {
    type SerializationBuffer = HSerBuf;
    fn put<W: WideColumn, C: WideColumnValue<W>>(&mut self, _key: &W::Key, _value: &C) {
        panic!("write-behind never writes into the physical batch directly");
    }
    fn delete<W: WideColumn, C: WideColumnValue<W>>(&mut self, _key: &W::Key) { panic!("direct delete"); }
    fn insert_member<C: KeyOfSetColumn>(&mut self, _key: &C::Key, _value: &C::Element) { panic!("direct insert_member"); }
    fn delete_member<C: KeyOfSetColumn>(&mut self, _key: &C::Key, _value: &C::Element) { panic!("direct delete_member"); }
    fn consume_serialization_buffer(&mut self, buffer: HSerBuf) {
        let mut tr = self.db.trace.lock().unwrap();
        self.ops.extend(buffer.ops.iter().copied());
        self.bufs.push(buffer.id);
        self.db.rec(&mut tr, Obs::Consume { buf: buffer.id }, "");
    }
    fn commit(self) {
        let mut tr = self.db.trace.lock().unwrap();
        let mut st = self.db.store.lock().unwrap();
        for (k, v) in &self.ops {
            match v { Some(v) => { st.insert(*k, *v); } None => { st.remove(k); } }
        }
        self.db.rec(&mut tr, Obs::Commit { bufs: self.bufs.clone(), ops: self.ops.clone() }, "");
    }
    fn should_write_more(&self) -> bool {
        let mut tr = self.db.trace.lock().unwrap();
        let b = match self.db.policy {
            Policy::Never => false,
            Policy::Always => true,
            Policy::Threshold(n) => self.ops.len() < n,
            Policy::Random(num, den) => self.db.prng.lock().unwrap().chance(num, den),
        };
        self.db.rec(&mut tr, Obs::More(b), "");
        b
    }
}

impl KvDatabase for HDb {
    type WriteBatch = HWriteBatch;
    type SerializationBuffer = HSerBuf;
    type ScanMemberIterator<C: KeyOfSetColumn> = std::vec::IntoIter<C::Element>;

    fn get_wide_column<W: WideColumn, C: WideColumnValue<W>>(&self, key: &W::Key) -> Option<C> {
        let k = hkey(key);
        let d = disc(&C::discriminant());
        let v = *self.0.store.lock().unwrap().get(&SKey(0, COL_A, k.k, d))?;
        let boxed: Box<dyn Any> = if d == 0 { Box::new(ValA { v, tag: u32::MAX }) } else { Box::new(ValB { v, tag: u32::MAX }) };
        Some(*boxed.downcast::<C>().expect("harness value type"))
    }
    fn scan_members<C: KeyOfSetColumn>(&self, key: &C::Key) -> Self::ScanMemberIterator<C> {
        let k = hkey(key);
        let st = self.0.store.lock().unwrap();
        let v: Vec<HElem> = st.range(SKey(1, COL_C, k.k, 0)..=SKey(1, COL_C, k.k, u32::MAX))
            .map(|(sk, _)| HElem { e: sk.3, tag: u32::MAX }).collect();
        let boxed: Box<dyn Any> = Box::new(v);
        boxed.downcast::<Vec<C::Element>>().expect("harness element type").into_iter()
    }
    fn write_batch(&self) -> HWriteBatch { HWriteBatch { ops: vec![], bufs: vec![], db: self.0.clone() } }
    fn serialization_buffer(&self) -> HSerBuf {
        let id = self.0.next_buf.fetch_add(1, Ordering::SeqCst);
        let mut tr = self.0.trace.lock().unwrap();
        self.0.bufs.lock().unwrap().entry(id).or_default();
        self.0.rec(&mut tr, Obs::BufNew { buf: id, worker: worker_index() }, "");
        HSerBuf { id, ops: vec![], db: self.0.clone(), jittered: false }
    }
}

// ------------------------------------------------------------------------------------------------
// cases
// ------------------------------------------------------------------------------------------------

/// One logical write as the user issues it.
#[derive(Debug, Clone, Copy, PartialEq)]
enum UOp { PutA(u32, u64), PutB(u32, u64), DelA(u32), DelB(u32), Ins(u32, u32), Rem(u32, u32) }

impl UOp {
    fn skey(&self) -> SKey {
        match *self {
            UOp::PutA(k, _) | UOp::DelA(k) => SKey(0, COL_A, k, 0),
            UOp::PutB(k, _) | UOp::DelB(k) => SKey(0, COL_A, k, 1),
            UOp::Ins(k, e) | UOp::Rem(k, e) => SKey(1, COL_C, k, e),
        }
    }
    fn val(&self) -> Option<u64> {
        match *self { UOp::PutA(_, v) | UOp::PutB(_, v) => Some(v), UOp::Ins(..) => Some(1), _ => None }
    }
}

#[derive(Debug, Clone)]
struct Case {
    n_ser: usize,
    n_threads: usize,
    /// content of the batch created i-th (user ops in issue order; later ops on a key override earlier)
    plan: Vec<Vec<UOp>>,
    policy: Policy,
    jitter: Vec<u64>,
    /// how many batches a thread may hold before it must submit one
    hold: usize,
    thread_seeds: Vec<u64>,
    pre_drop_wait_us: u64,
    /// epochs that are created but never submitted (abort scenarios; run in a child process)
    skip: Vec<u64>,
}

impl Case {
    fn describe(&self) -> String {
        format!("nser={} threads={} batches={} never_submitted={:?} policy={:?} hold={} jitter_max={} wait={}us plan={}",
            self.n_ser, self.n_threads, self.plan.len(), self.skip, self.policy, self.hold,
            self.jitter.iter().max().copied().unwrap_or(0), self.pre_drop_wait_us,
            self.plan.iter().map(|b| format!("[{}]", b.iter().map(|o| format!("{:?}", o)).collect::<Vec<_>>().join(" "))).collect::<Vec<_>>().join(""))
    }
    /// effective content of batch i: last write per store key, in first-touch order
    fn effective(&self, i: usize) -> Vec<Op> {
        let mut order: Vec<SKey> = vec![];
        let mut m: HashMap<SKey, Option<u64>> = HashMap::new();
        for o in &self.plan[i] {
            let k = o.skey();
            if !m.contains_key(&k) { order.push(k); }
            m.insert(k, o.val());
        }
        order.into_iter().map(|k| (k, m[&k])).collect()
    }
}

fn gen_case(rng: &mut Rng, tier_thorough: bool, idx: u64) -> Case {
    let n_ser = match rng.below(10) { 0..=2 => 1, 3..=5 => 2, 6..=7 => 3, 8 => 4, _ => rng.range(5, 8) as usize };
    let n_threads = rng.range(1, 8) as usize;
    let max_b = if tier_thorough { 120 } else { 48 };
    let n_batches = match rng.below(12) { 0 => 0, 1 => 1, 2 => 2, _ => rng.range(3, max_b) as usize };
    let n_keys = rng.range(1, 5) as u32;
    let n_elems = rng.range(1, 3) as u32;
    let mut plan = vec![];
    for b in 0..n_batches {
        let n_ops = if rng.chance(1, 16) { 0 } else { rng.range(1, 7) as usize };
        let mut ops = vec![];
        for j in 0..n_ops {
            let k = rng.below(n_keys as u64) as u32;
            let v = (b as u64) * 100 + j as u64 + 1;
            ops.push(match rng.below(10) {
                0..=2 => UOp::PutA(k, v),
                3..=4 => UOp::PutB(k, v),
                5 => UOp::DelA(k),
                6 => UOp::DelB(k),
                7..=8 => UOp::Ins(k, rng.below(n_elems as u64) as u32),
                _ => UOp::Rem(k, rng.below(n_elems as u64) as u32),
            });
        }
        plan.push(ops);
    }
    let policy = match rng.below(8) {
        0 => Policy::Never,
        1 => Policy::Always,
        2..=3 => Policy::Threshold(rng.range(2, 20) as usize),
        _ => Policy::Random(rng.range(1, 4), 5),
    };
    let jmode = rng.below(5);
    let jitter: Vec<u64> = (0..n_batches).map(|b| match jmode {
        0 => 0,
        1 => rng.below(60),
        2 => ((n_batches - b) as u64) * 3,             // early epochs are slow: later ones overtake
        3 => if b % 3 == 0 { rng.range(50, 250) } else { 0 },
        _ => if rng.chance(1, 6) { rng.range(100, 400) } else { 0 },
    }).collect();
    let _ = idx;
    Case {
        n_ser, n_threads, plan, policy, jitter,
        hold: rng.range(1, 6) as usize,
        thread_seeds: (0..n_threads).map(|_| rng.next()).collect(),
        pre_drop_wait_us: if rng.chance(1, 3) { rng.below(300) } else { 0 },
        skip: vec![],
    }
}

/// Scenarios that may abort the process: no serializer at all (kind 0), a created batch that is never
/// submitted while a later one is (kind 1), only the last created batch never submitted (kind 2: no abort).
fn gen_abort_case(rng: &mut Rng, kind: u64) -> Case {
    let mut c = gen_case(rng, false, 0);
    while c.plan.len() < 2 || c.plan.len() > 12 { c = gen_case(rng, false, 0); }
    c.jitter = vec![0; c.plan.len()];
    for (i, b) in c.plan.iter_mut().enumerate() { if b.is_empty() { b.push(UOp::PutA(0, 7000 + i as u64)); } }
    c.n_threads = c.n_threads.min(3);
    c.thread_seeds.truncate(c.n_threads);
    match kind {
        0 => { c.n_ser = 0; c.n_threads = 1; c.thread_seeds.truncate(1); c.plan.truncate(2); c.jitter.truncate(2); }
        1 => { c.n_ser = c.n_ser.min(3); c.skip = vec![rng.below(c.plan.len() as u64 - 1)]; }
        _ => { c.n_ser = c.n_ser.min(3); c.skip = vec![c.plan.len() as u64 - 1]; }
    }
    c
}

struct RunResult {
    trace: Vec<Obs>,
    bufs: HashMap<u64, (Vec<Op>, Vec<u32>)>,
    store: BTreeMap<SKey, u64>,
    panics: Vec<String>,
}

fn run_case(c: &Case, policy_seed: u64, stream: bool) -> RunResult {
    let inner = Arc::new(Inner {
        store: Mutex::new(BTreeMap::new()),
        trace: Mutex::new(Vec::new()),
        bufs: Mutex::new(HashMap::new()),
        next_buf: AtomicU64::new(0),
        policy: c.policy,
        prng: Mutex::new(Rng::new(policy_seed)),
        jitter: c.jitter.clone(),
        stream,
    });
    let db = HDb(inner.clone());
    let engine = DbBacked::new(db.clone(), Configuration::builder().cache_capacity(1 << 14).serialization_workers(c.n_ser).build());
    let wb: WriteBehind<HDb> = engine.new_write_manager();
    let map_a = engine.new_single_map::<ColA, ValA>();
    let map_b = engine.new_single_map::<ColA, ValB>();
    let set_c = engine.new_key_of_set_map::<SetC, Arc<dashmap::DashSet<HElem>>>();
    let n = c.plan.len() as u64;
    let next = AtomicU64::new(0);
    let panics: Mutex<Vec<String>> = Mutex::new(vec![]);

    std::thread::scope(|sc| {
        for t in 0..c.n_threads {
            let (wb, map_a, map_b, set_c, inner, next, panics) = (&wb, &map_a, &map_b, &set_c, &inner, &next, &panics);
            let seed = c.thread_seeds[t];
            sc.spawn(move || {
                let r = catch_unwind(AssertUnwindSafe(|| {
                    let mut rng = Rng::new(seed);
                    let mut held: Vec<(u64, qbice_storage::write_manager::write_behind::WriteBatch<HDb>)> = vec![];
                    let submit_one = |rng: &mut Rng, held: &mut Vec<(u64, _)>| {
                        let j = rng.below(held.len() as u64) as usize;
                        let (idx, batch) = held.swap_remove(j);
                        // the log order of submits is the real order of the channel sends
                        let mut tr = inner.trace.lock().unwrap();
                        inner.rec(&mut tr, Obs::Submit(idx), "");
                        wb.submit_write_batch(batch);
                    };
                    loop {
                        // creation: epoch order = order of this critical section
                        let created = {
                            let mut tr = inner.trace.lock().unwrap();
                            let i = next.load(Ordering::SeqCst);
                            if i >= n { None } else {
                                next.store(i + 1, Ordering::SeqCst);
                                let b = wb.new_write_batch();
                                inner.rec(&mut tr, Obs::Create(i), "");
                                Some((i, b))
                            }
                        };
                        let Some((i, mut batch)) = created else { break };
                        let tag = i as u32;
                        for op in &c.plan[i as usize] {
                            futures::executor::block_on(async {
                                match *op {
                                    UOp::PutA(k, v) => map_a.insert(HKey { k, tag }, ValA { v, tag }, &mut batch).await,
                                    UOp::PutB(k, v) => map_b.insert(HKey { k, tag }, ValB { v, tag }, &mut batch).await,
                                    UOp::DelA(k) => map_a.remove(&HKey { k, tag }, &mut batch).await,
                                    UOp::DelB(k) => map_b.remove(&HKey { k, tag }, &mut batch).await,
                                    UOp::Ins(k, e) => set_c.insert(HKey { k, tag }, HElem { e, tag }, &mut batch).await,
                                    UOp::Rem(k, e) => set_c.remove(&HKey { k, tag }, &HElem { e, tag }, &mut batch).await,
                                }
                            });
                        }
                        if c.skip.contains(&i) {
                            std::mem::forget(batch);   // never submitted (dropping it would panic in the user thread)
                            continue;
                        }
                        held.push((i, batch));
                        while held.len() > c.hold || (!held.is_empty() && rng.chance(1, 3)) {
                            submit_one(&mut rng, &mut held);
                        }
                        if rng.chance(1, 4) { std::thread::yield_now(); }
                    }
                    while !held.is_empty() { submit_one(&mut rng, &mut held); }
                }));
                if let Err(e) = r {
                    let msg = e.downcast_ref::<String>().cloned().or_else(|| e.downcast_ref::<&str>().map(|s| s.to_string())).unwrap_or_default();
                    panics.lock().unwrap().push(format!("submitter {t}: {msg}"));
                }
            });
        }
    });
    spin_us(c.pre_drop_wait_us);
    { let mut tr = inner.trace.lock().unwrap(); inner.rec(&mut tr, Obs::DropBegin, ""); }
    let r = catch_unwind(AssertUnwindSafe(|| drop(wb)));
    if r.is_err() { panics.lock().unwrap().push("drop panicked".into()); }
    { let mut tr = inner.trace.lock().unwrap(); inner.rec(&mut tr, Obs::DropEnd, ""); }
    drop(map_a); drop(map_b); drop(set_c);
    let trace = inner.trace.lock().unwrap().clone();
    let bufs = inner.bufs.lock().unwrap().clone();
    let store = inner.store.lock().unwrap().clone();
    RunResult { trace, bufs, store, panics: panics.into_inner().unwrap() }
}

// ------------------------------------------------------------------------------------------------
// oracle + trace post-processing
// ------------------------------------------------------------------------------------------------

struct Fail { sig: String, desc: String }

#[derive(Default)]
struct Stats {
    submit_inversions: u64,
    completion_inversions: u64,
    max_holdback_proxy: u64,
    chunks: u64,
    max_chunk: u64,
    empty_final_commit: u64,
    empty_batches: u64,
}

/// Returns (lines (op, impl)), failures, stats.
fn judge(c: &Case, r: &RunResult, child: Option<bool>) -> (Vec<(String, String)>, Vec<Fail>, Stats) {
    // child = Some(aborted): the case ran in a child process that may have aborted; only the trace is judged
    let n = c.plan.len();
    let mut fails: Vec<Fail> = vec![];
    let mut stats = Stats::default();
    for p in &r.panics { fails.push(Fail { sig: "panic".into(), desc: p.clone() }); }

    // ---- which batch does each buffer belong to?  (by the tags of its writes; empty: by position)
    let consumed: Vec<u64> = r.trace.iter().filter_map(|o| if let Obs::Consume { buf } = o { Some(*buf) } else { None }).collect();
    let mut buf_epoch: HashMap<u64, u64> = HashMap::new();
    for (id, (_, tags)) in &r.bufs {
        if let Some(t0) = tags.first() {
            if tags.iter().any(|t| t != t0) {
                fails.push(Fail { sig: "content".into(), desc: format!("buffer {id} mixes writes of batches {:?}", tags) });
            }
            buf_epoch.insert(*id, *t0 as u64);
        }
    }
    for (pos, id) in consumed.iter().enumerate() {
        if !buf_epoch.contains_key(id) { buf_epoch.insert(*id, pos as u64); }   // empty buffer: inferred
    }
    // buffers never consumed and empty: assign remaining empty epochs (only matters for reporting)
    // ---- O1: consumption order is 0,1,2,… (each batch once)
    let cons_epochs: Vec<u64> = consumed.iter().map(|b| buf_epoch[b]).collect();
    for (pos, e) in cons_epochs.iter().enumerate() {
        if *e != pos as u64 {
            fails.push(Fail { sig: "order".into(), desc: format!("the {pos}-th batch handed to the store is epoch {e}; consumption order {:?}", cons_epochs) });
            break;
        }
    }
    // ---- O2/O3: the commits, in order, carry exactly the consumed buffers, all before drop returned
    let mut committed: Vec<u64> = vec![];
    let mut log_chunks: Vec<Vec<u64>> = vec![];
    let mut dropped = false;
    for o in &r.trace {
        match o {
            Obs::DropEnd => dropped = true,
            Obs::Commit { bufs, .. } => {
                if dropped { fails.push(Fail { sig: "late".into(), desc: "a commit happened after drop returned".into() }); }
                let es: Vec<u64> = bufs.iter().map(|b| buf_epoch.get(b).copied().unwrap_or(u64::MAX)).collect();
                for w in es.windows(2) {
                    if w[1] != w[0] + 1 { fails.push(Fail { sig: "chunk".into(), desc: format!("physical commit is not a contiguous run: {:?}", es) }); }
                }
                committed.extend(es.iter().copied());
                log_chunks.push(es);
            }
            _ => {}
        }
    }
    let want: Vec<u64> = (0..n as u64).collect();
    if child.is_none() && committed != want {
        let sig = if committed.len() < n { "lost" } else { "order" };
        fails.push(Fail { sig: sig.into(), desc: format!("after drop the committed batches are {:?}, expected 0..{}", committed, n) });
    }
    // ---- O5: every buffer carries exactly the effective content of its batch
    for (id, (ops, _)) in &r.bufs {
        if let Some(e) = buf_epoch.get(id) {
            if (*e as usize) < n {
                let mut a = c.effective(*e as usize); a.sort();
                let mut b = ops.clone(); b.sort();
                if a != b { fails.push(Fail { sig: "content".into(), desc: format!("buffer of batch {e} holds {} but the batch is {}", show_ops(&b), show_ops(&a)) }); }
            }
        }
    }
    if child.is_none() && r.bufs.len() != n { fails.push(Fail { sig: "lost".into(), desc: format!("{} serialization buffers for {} batches", r.bufs.len(), n) }); }
    // ---- O4: final content = sequential application in creation order
    let mut refm: BTreeMap<SKey, u64> = BTreeMap::new();
    for i in 0..n {
        for o in &c.plan[i] {
            match o.val() { Some(v) => { refm.insert(o.skey(), v); } None => { refm.remove(&o.skey()); } }
        }
    }
    if child.is_none() && refm != r.store {
        fails.push(Fail { sig: "final".into(), desc: format!("final store {:?} differs from sequential application {:?}", r.store, refm) });
    }

    // ---- stats
    let submits: Vec<u64> = r.trace.iter().filter_map(|o| if let Obs::Submit(i) = o { Some(*i) } else { None }).collect();
    stats.submit_inversions = submits.windows(2).filter(|w| w[1] < w[0]).count() as u64;
    stats.chunks = log_chunks.len() as u64;
    stats.max_chunk = log_chunks.iter().map(|c| c.len() as u64).max().unwrap_or(0);
    stats.empty_final_commit = log_chunks.last().map(|c| c.is_empty() as u64).unwrap_or(0);
    stats.empty_batches = (0..n).filter(|i| c.effective(*i).is_empty()).count() as u64;

    // ---- lines for the model (trace validation)
    let mut lines: Vec<(String, String)> = vec![];
    lines.push((format!("new {}", c.n_ser), "ok".into()));
    // position of the last write of every buffer
    let mut last_op: HashMap<u64, usize> = HashMap::new();
    let mut buf_worker: HashMap<u64, i64> = HashMap::new();
    for (pos, o) in r.trace.iter().enumerate() {
        match o {
            Obs::BufNew { buf, worker } => { last_op.insert(*buf, pos); buf_worker.insert(*buf, *worker); }
            Obs::BufOp { buf } => { last_op.insert(*buf, pos); }
            _ => {}
        }
    }
    // epoch -> worker that serialized it
    let mut epoch_worker: HashMap<u64, i64> = HashMap::new();
    for (b, w) in &buf_worker { if let Some(e) = buf_epoch.get(b) { epoch_worker.insert(*e, *w); } }
    let mut queue: VecDeque<u64> = VecDeque::new();
    let mut completed: Vec<u64> = vec![];
    for (pos, o) in r.trace.iter().enumerate() {
        match o {
            Obs::Create(i) => lines.push(("create".into(), format!("epoch {i}"))),
            Obs::Submit(i) => {
                lines.push((format!("submit {} {}", i, show_ops(&c.effective(*i as usize))), "ok".into()));
                queue.push_back(*i);
            }
            Obs::BufNew { buf, .. } | Obs::BufOp { buf } => {
                if last_op.get(buf) == Some(&pos) {
                    if let Some(e) = buf_epoch.get(buf).copied() {
                        // FIFO: everything ahead of e in the channel was received before e was
                        while queue.contains(&e) {
                            let j = queue.front().copied().unwrap();
                            let w = epoch_worker.get(&j).copied().unwrap_or(-1);
                            if w < 0 { break; }
                            queue.pop_front();
                            lines.push((format!("take {} {}", w, j), "ok".into()));
                            if j == e { break; }
                        }
                        let w = buf_worker[buf];
                        lines.push((format!("ser {} {} {}", w, e, show_ops(&r.bufs[buf].0)), "ok".into()));
                        if completed.last().map_or(false, |l| *l > e) { stats.completion_inversions += 1; }
                        completed.push(e);
                        // smallest epoch whose serialization has not completed; everything completed above
                        // it would have to be held back if arrival order = completion order
                        let done: HashSet<u64> = completed.iter().copied().collect();
                        let mut g = 0u64; while done.contains(&g) { g += 1; }
                        let hb = completed.iter().filter(|x| **x > g).count() as u64;
                        stats.max_holdback_proxy = stats.max_holdback_proxy.max(hb);
                    }
                }
            }
            Obs::Consume { buf } => {
                let e = buf_epoch[buf];
                lines.push((format!("pop {e}"), format!("pop {e}")));
            }
            Obs::More(b) => lines.push((format!("more {}", *b as u8), "ok".into())),
            Obs::Commit { bufs, ops } => {
                let es: Vec<u64> = bufs.iter().map(|b| buf_epoch.get(b).copied().unwrap_or(u64::MAX)).collect();
                lines.push(("commit".into(), format!("commit {} {}", show_nats(&es), show_ops(ops))));
            }
            Obs::DropBegin => lines.push(("dropbegin".into(), "ok".into())),
            Obs::DropEnd => lines.push(("dropend".into(), "returned".into())),
        }
    }
    let kv: Vec<String> = r.store.iter().map(|(k, v)| format!("{}={}", show_key(k), v)).collect();
    let chunks = if log_chunks.is_empty() { "-".to_string() } else { log_chunks.iter().map(|c| c.len().to_string()).collect::<Vec<_>>().join("+") };
    match child {
        None => lines.push(("end".into(), format!("store {} applied={} chunks={} crashed=0",
            if kv.is_empty() { "-".to_string() } else { kv.join(",") }, committed.len(), chunks))),
        Some(aborted) => {
            if !aborted && !c.skip.is_empty() {
                // only the last created batch was withheld: everything else must be durable
                let want: Vec<u64> = (0..n as u64).filter(|e| !c.skip.contains(e)).collect();
                if committed != want { fails.push(Fail { sig: "lost".into(), desc: format!("committed {:?}, expected {:?}", committed, want) }); }
            }
            lines.push(("crashed".into(), format!("crashed {}", aborted as u8)));
        }
    }
    (lines, fails, stats)
}

fn case_hash(c: &Case) -> u64 {
    let mut h = std::collections::hash_map::DefaultHasher::new();
    format!("{:?}{:?}{}{}", c.plan, c.policy, c.n_ser, c.n_threads).hash(&mut h);
    h.finish()
}

/// Runs one abort scenario in a child process; returns (trace lines, failures).
fn run_abort_scenario(seed: u64, kind: u64) -> (Case, Vec<(String, String)>, Vec<Fail>, bool) {
    let mut rng = Rng::new(seed);
    let c = gen_abort_case(&mut rng, kind);
    let exe = std::env::current_exe().unwrap();
    let out = std::process::Command::new(exe)
        .args(["--child", &seed.to_string(), &kind.to_string()])
        .stdin(std::process::Stdio::null()).stderr(std::process::Stdio::null())
        .output().expect("spawn child");
    use std::os::unix::process::ExitStatusExt;
    let aborted = out.status.signal() == Some(6);
    let mut fails = vec![];
    if !aborted && !out.status.success() {
        fails.push(Fail { sig: "child".into(), desc: format!("child ended with {:?}", out.status) });
    }
    let (trace, bufs) = parse_stream(&String::from_utf8_lossy(&out.stdout));
    let r = RunResult { trace, bufs, store: BTreeMap::new(), panics: vec![] };
    let (lines, f2, _) = judge(&c, &r, Some(aborted));
    fails.extend(f2);
    (c, lines, fails, aborted)
}

/// The write manager can abort the whole process (panic while unwinding), e.g. when a mutation makes a
/// batch unreachable.  The generated cases therefore run in a worker process; if it dies the supervisor
/// turns that into an oracle failure naming the case that was running.
fn supervise(a: &qbice_verif_harness::Args) {
    std::fs::create_dir_all(&a.out).unwrap();
    let progress = format!("{}/progress.txt", a.out);
    let _ = std::fs::remove_file(&progress);
    let exe = std::env::current_exe().unwrap();
    let mut argv: Vec<String> = std::env::args().skip(1).collect();
    argv.push("--worker".into());
    let st = std::process::Command::new(exe).args(&argv).stderr(std::process::Stdio::null()).status().expect("spawn worker");
    if st.success() { return; }
    let prog = std::fs::read_to_string(&progress).unwrap_or_default();
    let nums: Vec<u64> = prog.split_whitespace().filter_map(|x| x.parse().ok()).collect();
    let prog = if nums.len() == 2 {
        // regenerate the case the worker was running
        let mut rng = Rng::new(nums[0]);
        let mut c = gen_case(&mut rng, a.tier == "thorough", 0);
        let _ = rng.next();
        for i in 0..nums[1] { c = gen_case(&mut rng, a.tier == "thorough", i + 1); let _ = rng.next(); }
        format!("gen_seed={} gen_index={} {}", nums[0], nums[1], c.describe())
    } else { prog };
    // keep only complete, paired lines of what the worker managed to flush
    let rd = |n: &str| -> Vec<String> {
        let t = std::fs::read_to_string(format!("{}/{}", a.out, n)).unwrap_or_default();
        let mut v: Vec<String> = t.split('\n').map(|x| x.to_string()).collect();
        v.pop();
        v
    };
    let (ops, imp) = (rd("ops.txt"), rd("impl.txt"));
    let k = ops.len().min(imp.len());
    // cut back to the last complete case
    let cut = (0..k).rev().find(|i| ops[*i].starts_with("new ")).unwrap_or(0);
    std::fs::write(format!("{}/ops.txt", a.out), ops[..cut].iter().map(|l| format!("{l}\n")).collect::<String>()).unwrap();
    std::fs::write(format!("{}/impl.txt", a.out), imp[..cut].iter().map(|l| format!("{l}\n")).collect::<String>()).unwrap();
    let report = format!(
        "{{\"evaluations\":{},\"distinct_nontrivial\":0,\"rule\":\"\",\"samples\":[],\"distribution\":{{\"worker_died\":1}},\"oracle_failures\":[{{\"sig\":\"abort\",\"desc\":{},\"case\":{}}}]}}",
        ops[..cut].iter().filter(|l| l.starts_with("new ")).count(),
        jstr(&format!("the process running the real WriteBehind died ({:?}) during the case below: some submitted batch can no longer reach the store", st)),
        jstr(&prog));
    std::fs::write(format!("{}/report.json", a.out), report).unwrap();
}

fn main() {
    let a = args();
    if a.rest.len() == 3 && a.rest[0] == "--child" {
        let seed: u64 = a.rest[1].parse().unwrap();
        let kind: u64 = a.rest[2].parse().unwrap();
        let mut rng = Rng::new(seed);
        let c = gen_abort_case(&mut rng, kind);
        let _ = run_case(&c, seed ^ 0x55, true);
        return;
    }
    if !a.rest.iter().any(|x| x == "--worker") {
        supervise(&a);
        return;
    }
    let thorough = a.tier == "thorough";
    let n_cases = a.n.unwrap_or(if thorough { 1500 } else { 350 });
    let mut out = Out::new(&a.out);
    let mut rng = Rng::new(a.seed);
    let mut failures: Vec<String> = vec![];
    let mut seen: HashSet<u64> = HashSet::new();
    let mut nontrivial = 0u64;
    let mut samples: Vec<String> = vec![];
    let mut dist: BTreeMap<String, u64> = BTreeMap::new();
    let mut bump = |d: &mut BTreeMap<String, u64>, k: String, v: u64| { *d.entry(k).or_insert(0) += v; };
    let mut evaluations = 0u64;

    // replay: re-run the recorded generator position many times (thread schedules are not reproducible)
    let replay: Option<(u64, u64)> = a.replay.as_ref().and_then(|p| {
        let s = std::fs::read_to_string(p).ok()?;
        let seed = s.split("gen_seed=").nth(1)?.split(|ch: char| !ch.is_ascii_digit()).next()?.parse().ok()?;
        let idx = s.split("gen_index=").nth(1)?.split(|ch: char| !ch.is_ascii_digit()).next()?.parse().ok()?;
        Some((seed, idx))
    });
    if let Some((seed, _)) = replay { rng = Rng::new(seed); }

    let total = if let Some((_, idx)) = replay { idx + 1 } else { n_cases };
    let progress = std::fs::File::create(format!("{}/progress.txt", a.out)).unwrap();
    for ci in 0..total {
        let c = gen_case(&mut rng, thorough, ci);
        let policy_seed = rng.next();
        let reps = if let Some((_, idx)) = replay { if ci == idx { 300 } else { 0 } } else { 1 };
        for _ in 0..reps {
            {
                use std::os::unix::fs::FileExt;
                let _ = progress.write_all_at(format!("{:020} {:020}\n", if let Some((sd, _)) = replay { sd } else { a.seed }, ci).as_bytes(), 0);
            }
            let r = run_case(&c, policy_seed, false);
            let (lines, fails, st) = judge(&c, &r, None);
            evaluations += 1;
            for (o, i) in &lines { out.line(o, i); }
            let h = case_hash(&c);
            let nt = c.plan.len() >= 2 && (st.submit_inversions > 0 || st.completion_inversions > 0);
            if nt && seen.insert(h) { nontrivial += 1; }
            if samples.len() < 6 && nt { samples.push(c.describe().chars().take(300).collect()); }
            bump(&mut dist, format!("nser_{}", c.n_ser), 1);
            bump(&mut dist, format!("threads_{}", c.n_threads), 1);
            bump(&mut dist, format!("policy_{}", match c.policy { Policy::Never => "never", Policy::Always => "always", Policy::Threshold(_) => "threshold", Policy::Random(..) => "random" }), 1);
            bump(&mut dist, "batches_total".into(), c.plan.len() as u64);
            bump(&mut dist, "empty_batches".into(), st.empty_batches);
            bump(&mut dist, "cases_submit_order_differs_from_creation".into(), (st.submit_inversions > 0) as u64);
            bump(&mut dist, "cases_serialization_completes_out_of_epoch_order".into(), (st.completion_inversions > 0) as u64);
            bump(&mut dist, "completion_inversions_total".into(), st.completion_inversions);
            bump(&mut dist, format!("holdback_proxy_{}", match st.max_holdback_proxy { 0 => "0", 1 => "1", 2..=3 => "2-3", _ => "4+" }), 1);
            bump(&mut dist, "physical_commits_total".into(), st.chunks);
            bump(&mut dist, format!("max_chunk_{}", match st.max_chunk { 0 => "0", 1 => "1", 2..=4 => "2-4", 5..=16 => "5-16", _ => "17+" }), 1);
            bump(&mut dist, "cases_with_empty_final_commit".into(), st.empty_final_commit);
            bump(&mut dist, "trace_lines".into(), lines.len() as u64);
            for f in fails {
                if failures.len() < 20 {
                    let trace_txt: String = lines.iter().map(|(o, i)| format!("{o} => {i}")).collect::<Vec<_>>().join("\n");
                    failures.push(format!("{{\"sig\":{},\"desc\":{},\"case\":{}}}", jstr(&f.sig), jstr(&f.desc.chars().take(1500).collect::<String>()),
                        jstr(&format!("gen_seed={} gen_index={} {}\n{}", a.seed, ci, c.describe(), trace_txt.chars().take(6000).collect::<String>()))));
                }
            }
        }
    }
    // scenarios that may abort the process (stall rule at shutdown, no serializer), each in a child process
    if replay.is_none() {
        let n_abort = if thorough { 30 } else { 9 };
        for j in 0..n_abort {
            let kind = j % 3;
            let seed = a.seed.wrapping_mul(7919).wrapping_add(j);
            let (c, lines, fails, aborted) = run_abort_scenario(seed, kind);
            evaluations += 1;
            for (o, i) in &lines { out.line(o, i); }
            bump(&mut dist, format!("child_scenario_kind{}_{}", kind, if aborted { "aborted" } else { "returned" }), 1);
            for f in fails {
                let trace_txt: String = lines.iter().map(|(o, i)| format!("{o} => {i}")).collect::<Vec<_>>().join("\n");
                failures.push(format!("{{\"sig\":{},\"desc\":{},\"case\":{}}}", jstr(&f.sig), jstr(&f.desc),
                    jstr(&format!("abort_seed={} kind={} {}\n{}", seed, kind, c.describe(), trace_txt.chars().take(6000).collect::<String>()))));
            }
        }
    }
    let dist_json = dist.iter().map(|(k, v)| format!("{}:{}", jstr(k), v)).collect::<Vec<_>>().join(",");
    let report = format!(
        "{{\"evaluations\":{},\"distinct_nontrivial\":{},\"rule\":{},\"samples\":[{}],\"distribution\":{{{}}},\"oracle_failures\":[{}]}}",
        evaluations, nontrivial,
        jstr("a case is non-trivial when it has >= 2 batches and either the submission order differs from the creation order or the serializers completed batches out of epoch order (so the hold-back heap is needed); distinct by hash of (plan, policy, workers, threads)"),
        samples.iter().map(|s| jstr(s)).collect::<Vec<_>>().join(","), dist_json, failures.join(","));
    out.finish(&report);
    let _ = std::io::stdout().flush();
}
