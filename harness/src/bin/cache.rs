//! C09 harness: the storage caches (`CacheSingleMap`, `CacheDynamicMap`, `CacheKeyOfSetMap`) driven
//! through the public storage-engine traits on `DbBacked<HarnessKv>`.
//!
//! `HarnessKv` is an in-memory `KvDatabase` written here whose `commit` blocks on a gate, so the
//! case decides how far the background writer has got (`commit` op = let exactly one batch
//! through and wait until it is applied).  After-commit notifications (un-pin / flush of the
//! staging log) run on the write manager's own thread; `sync` waits for all of them without any
//! hook in /repo: a sentinel batch is pushed through the pipeline and the `Hash` impl of the
//! sentinel key reports when it is looked up on the after-commit thread (the after-commit worker
//! is a single FIFO thread, so everything submitted before has been notified by then).
//!
//! What the implementation is asked and what it answers is written to ops.txt / impl.txt; each
//! read line also carries what the harness *observed* (`obs=` number of store reads / set
//! fetches / scans during the read), so that the Lean driver can validate the run against the
//! LTS model (a store read is only admissible if the model can have evicted the entry).
//! The oracle is a reference BTreeMap/BTreeSet: every read must equal the reference.
//!
//! `--conc-gated`: gated multi-thread schedules on the real `CacheKeyOfSetMap` (`ccase` / `cev …` / `cend` lines,
//! replayed step by step by `drv_cache conc`); `--conc-stress`: free-running threads, report only.  Both are judged
//! in the harness by per-element regular semantics (see the sections near the end of this file).
#![allow(clippy::all)]
use std::any::{Any, TypeId};
use std::collections::{BTreeMap, BTreeSet, HashMap};
use std::hash::{Hash, Hasher};
use std::sync::atomic::{AtomicU64, Ordering};
use std::sync::{Arc, Condvar, Mutex};
use std::time::{Duration, Instant};

use qbice_serialize::{Decode, Decoder, Encode, Encoder, Plugin, session::Session};
use qbice_stable_type_id::Identifiable;
use qbice_storage::dynamic_map::DynamicMap;
use qbice_storage::key_of_set_map::{ConcurrentSet, KeyOfSetMap};
use qbice_storage::kv_database::{
    DiscriminantEncoding, KeyOfSetColumn, KvDatabase, SerializationBuffer, WideColumn, WideColumnValue, WriteBatch,
};
use qbice_storage::single_map::SingleMap;
use qbice_storage::storage_engine::db_backed::{Configuration, DbBacked};
use qbice_storage::storage_engine::StorageEngine;
use qbice_storage::write_manager::WriteManager;
use qbice_verif_harness::{args, jstr, Out, Rng};

// ------------------------------------------------------------------------------------------------
// columns
// ------------------------------------------------------------------------------------------------
#[derive(Debug, Identifiable)]
#[stable_type_id_crate(qbice_stable_type_id)]
pub struct WCol;
impl WideColumn for WCol {
    type Discriminant = ();
    type Key = HKey;
    fn discriminant_encoding() -> DiscriminantEncoding { DiscriminantEncoding::Prefixed }
}
impl WideColumnValue<WCol> for u64 {
    fn discriminant() {}
}

#[derive(Debug, Identifiable)]
#[stable_type_id_crate(qbice_stable_type_id)]
pub struct DCol;
impl WideColumn for DCol {
    type Discriminant = u8;
    type Key = HKey;
    fn discriminant_encoding() -> DiscriminantEncoding { DiscriminantEncoding::Suffixed }
}
impl WideColumnValue<DCol> for u64 {
    fn discriminant() -> u8 { 0 }
}
impl WideColumnValue<DCol> for i64 {
    fn discriminant() -> u8 { 1 }
}

#[derive(Debug, Identifiable)]
#[stable_type_id_crate(qbice_stable_type_id)]
pub struct SCol;
impl KeyOfSetColumn for SCol {
    type Key = HKey;
    type Element = u64;
}

/// Key type of the maps under test.  Its `Hash` impl is the harness's handle on the write manager's
/// after-commit thread (no hook in /repo): the first key that thread hashes for a batch is the
/// `staging/get_map` lookup of `flush_staging`, and it waits there for a `notify` permit.
#[derive(Debug, PartialEq, Eq)]
pub struct HKey(pub u64);
impl Clone for HKey {
    fn clone(&self) -> Self { whook(HEv::Clone, self as *const HKey as usize, self.0); HKey(self.0) }
}
impl Hash for HKey {
    fn hash<H: Hasher>(&self, state: &mut H) {
        whook(HEv::Hash, self as *const HKey as usize, self.0); // gate of the --conc-gated worker threads (no-op on every other thread)
        if std::thread::current().name() == Some("bg_writer_after_commit") { ac_on_hash(None, self.0); }
        self.0.hash(state);
    }
}
impl Encode for HKey {
    fn encode<E: Encoder + ?Sized>(&self, e: &mut E, _p: &Plugin, _s: &mut Session) -> std::io::Result<()> { e.emit_u64(self.0) }
}
impl Decode for HKey {
    fn decode<D: Decoder + ?Sized>(d: &mut D, _p: &Plugin, _s: &mut Session) -> std::io::Result<Self> { Ok(HKey(d.read_u64()?)) }
}

/// Sentinel: every batch the harness submits ends with one write to a sentinel key-of-set column.
/// `WriteBatch::after_commit` notifies all wide columns, then all key-of-set columns; a sentinel
/// column that is iterated after `SCol` (found by calibration at start-up, the order is a function of
/// the TypeIds) is therefore notified last, and its lookup on the after-commit thread tells the
/// harness that every notification of that batch has completed.
#[derive(Debug, Clone, PartialEq, Eq)]
pub struct SentKey(u64);
impl Hash for SentKey {
    fn hash<H: Hasher>(&self, state: &mut H) {
        if std::thread::current().name() == Some("bg_writer_after_commit") { ac_on_hash(Some(self.0), self.0); }
        self.0.hash(state);
    }
}
impl Encode for SentKey {
    fn encode<E: Encoder + ?Sized>(&self, e: &mut E, _p: &Plugin, _s: &mut Session) -> std::io::Result<()> { e.emit_u64(self.0) }
}
impl Decode for SentKey {
    fn decode<D: Decoder + ?Sized>(d: &mut D, _p: &Plugin, _s: &mut Session) -> std::io::Result<Self> { Ok(SentKey(d.read_u64()?)) }
}
macro_rules! sent_col { ($n:ident) => {
    #[derive(Debug, Identifiable)]
    #[stable_type_id_crate(qbice_stable_type_id)]
    pub struct $n;
    impl KeyOfSetColumn for $n { type Key = SentKey; type Element = u64; }
} }
sent_col!(Sent0); sent_col!(Sent1); sent_col!(Sent2); sent_col!(Sent3); sent_col!(Sent4); sent_col!(Sent5);

/// Gate of the after-commit thread (process-global: `Hash::hash` has no context; one Env at a time).
#[derive(Default)]
struct AcGate { permits: u64, in_batch: bool, done: u64, open: bool, last_sent: u64, order: Vec<(bool, u64)> }
static AC: Mutex<AcGate> = Mutex::new(AcGate { permits: 0, in_batch: false, done: 0, open: false, last_sent: 0, order: Vec::new() });
static AC_CV: Condvar = Condvar::new();
static AC_CALLS: AtomicU64 = AtomicU64::new(0); // activity of the after-commit thread (used by --conc-stress to wait for quiescence)
fn ac_on_hash(sent: Option<u64>, key: u64) {
    AC_CALLS.fetch_add(1, Ordering::SeqCst);
    let mut g = AC.lock().unwrap();
    if !g.in_batch {
        let t0 = Instant::now();
        while g.permits == 0 && !g.open {
            let (g2, _) = AC_CV.wait_timeout(g, Duration::from_millis(200)).unwrap();
            g = g2;
            if t0.elapsed() > Duration::from_secs(600) { g.open = true; }
        }
        if !g.open { g.permits -= 1; }
        g.in_batch = true;
    }
    if g.order.len() < 64 { g.order.push((sent.is_some(), key)); }
    if let Some(seq) = sent {
        if seq > g.last_sent { g.last_sent = seq; g.in_batch = false; g.done += 1; AC_CV.notify_all(); }
    }
}
fn ac_reset() { let mut g = AC.lock().unwrap(); *g = AcGate::default(); }
fn ac_open() { let mut g = AC.lock().unwrap(); g.open = true; AC_CV.notify_all(); }
fn ac_allow_one_and_wait() {
    let mut g = AC.lock().unwrap();
    let want = g.done + 1;
    g.permits += 1;
    AC_CV.notify_all();
    let t0 = Instant::now();
    while g.done < want {
        let (g2, _) = AC_CV.wait_timeout(g, Duration::from_millis(200)).unwrap();
        g = g2;
        if t0.elapsed() > Duration::from_secs(30) { panic!("harness: after-commit notification {want} did not complete (after-commit thread renamed or sentinel order changed?)"); }
    }
}

// ------------------------------------------------------------------------------------------------
// HarnessKv: in-memory KvDatabase with a gated commit
// ------------------------------------------------------------------------------------------------
type AnyBox = Box<dyn Any + Send + Sync>;
enum KvOp {
    Put(TypeId, TypeId, u64, AnyBox),
    Del(TypeId, TypeId, u64),
    InsM(TypeId, u64, u64),
    DelM(TypeId, u64, u64),
}
fn key_u64<K: 'static>(k: &K) -> u64 {
    let a = k as &dyn Any;
    if let Some(x) = a.downcast_ref::<u64>() { *x } else if let Some(HKey(x)) = a.downcast_ref::<HKey>() { *x } else if let Some(SentKey(x)) = a.downcast_ref::<SentKey>() { *x | (1 << 63) } else { panic!("harness kv: unsupported key type") }
}
#[derive(Default)]
struct Gate { permits: u64, committed: u64, open: bool }
/// One-shot rendezvous inside `get_wide_column` (used by the two-thread scenarios).
#[derive(Default)]
struct ReadBlock { armed_key: Option<u64>, armed_scan: Option<u64>, reached: bool, release: bool, done: bool }
#[derive(Default)]
struct KvInner {
    wide: Mutex<HashMap<(TypeId, TypeId, u64), AnyBox>>,
    sets: Mutex<HashMap<(TypeId, u64), BTreeSet<u64>>>,
    gate: Mutex<Gate>,
    gate_cv: Condvar,
    wide_reads: AtomicU64,
    scans: AtomicU64,
    rb: Mutex<ReadBlock>,
    rb_cv: Condvar,
}
#[derive(Clone, Default)]
pub struct HarnessKv(Arc<KvInner>);
pub struct KvBuf(Vec<KvOp>);
pub struct KvBatch(Vec<KvOp>, HarnessKv);
impl SerializationBuffer for KvBuf {
    fn put<W: WideColumn, C: WideColumnValue<W>>(&mut self, key: &W::Key, value: &C) {
        self.0.push(KvOp::Put(TypeId::of::<W>(), TypeId::of::<C>(), key_u64(key), Box::new(value.clone())));
    }
    fn delete<W: WideColumn, C: WideColumnValue<W>>(&mut self, key: &W::Key) {
        self.0.push(KvOp::Del(TypeId::of::<W>(), TypeId::of::<C>(), key_u64(key)));
    }
    fn insert_member<C: KeyOfSetColumn>(&mut self, key: &C::Key, value: &C::Element) {
        self.0.push(KvOp::InsM(TypeId::of::<C>(), key_u64(key), key_u64(value)));
    }
    fn delete_member<C: KeyOfSetColumn>(&mut self, key: &C::Key, value: &C::Element) {
        self.0.push(KvOp::DelM(TypeId::of::<C>(), key_u64(key), key_u64(value)));
    }
}
impl WriteBatch for KvBatch {
    type SerializationBuffer = KvBuf;
    fn put<W: WideColumn, C: WideColumnValue<W>>(&mut self, key: &W::Key, value: &C) {
        self.0.push(KvOp::Put(TypeId::of::<W>(), TypeId::of::<C>(), key_u64(key), Box::new(value.clone())));
    }
    fn delete<W: WideColumn, C: WideColumnValue<W>>(&mut self, key: &W::Key) {
        self.0.push(KvOp::Del(TypeId::of::<W>(), TypeId::of::<C>(), key_u64(key)));
    }
    fn insert_member<C: KeyOfSetColumn>(&mut self, key: &C::Key, value: &C::Element) {
        self.0.push(KvOp::InsM(TypeId::of::<C>(), key_u64(key), key_u64(value)));
    }
    fn delete_member<C: KeyOfSetColumn>(&mut self, key: &C::Key, value: &C::Element) {
        self.0.push(KvOp::DelM(TypeId::of::<C>(), key_u64(key), key_u64(value)));
    }
    fn consume_serialization_buffer(&mut self, buffer: KvBuf) { self.0.extend(buffer.0); }
    fn commit(self) {
        let inner = &self.1 .0;
        {
            let mut g = inner.gate.lock().unwrap();
            let t0 = Instant::now();
            while !g.open && g.permits == 0 {
                let (g2, to) = inner.gate_cv.wait_timeout(g, Duration::from_secs(60)).unwrap();
                g = g2;
                if to.timed_out() && t0.elapsed() > Duration::from_secs(600) { panic!("harness kv: commit gate never opened"); }
            }
            if !g.open { g.permits -= 1; }
        }
        self.1.apply(self.0);
        let mut g = inner.gate.lock().unwrap();
        g.committed += 1;
        inner.gate_cv.notify_all();
    }
}
impl HarnessKv {
    fn apply(&self, ops: Vec<KvOp>) {
        let mut w = self.0.wide.lock().unwrap();
        let mut s = self.0.sets.lock().unwrap();
        for op in ops {
            match op {
                KvOp::Put(a, b, k, v) => { w.insert((a, b, k), v); }
                KvOp::Del(a, b, k) => { w.remove(&(a, b, k)); }
                KvOp::InsM(a, k, x) => { s.entry((a, k)).or_default().insert(x); }
                KvOp::DelM(a, k, x) => { if let Some(set) = s.get_mut(&(a, k)) { set.remove(&x); } }
            }
        }
    }
    fn allow_commits(&self, n: u64) { let mut g = self.0.gate.lock().unwrap(); g.permits += n; self.0.gate_cv.notify_all(); }
    fn open_gate(&self) { let mut g = self.0.gate.lock().unwrap(); g.open = true; self.0.gate_cv.notify_all(); }
    fn committed(&self) -> u64 { self.0.gate.lock().unwrap().committed }
    fn wait_committed(&self, n: u64) {
        let mut g = self.0.gate.lock().unwrap();
        let t0 = Instant::now();
        while g.committed < n {
            let (g2, _) = self.0.gate_cv.wait_timeout(g, Duration::from_millis(200)).unwrap();
            g = g2;
            if t0.elapsed() > Duration::from_secs(30) { panic!("harness: commit {n} did not happen (have {})", g.committed); }
        }
    }
    fn arm_read_block(&self, key: u64) { *self.0.rb.lock().unwrap() = ReadBlock { armed_key: Some(key), armed_scan: None, reached: false, release: false, done: false }; }
    fn arm_scan_block(&self, key: u64) { *self.0.rb.lock().unwrap() = ReadBlock { armed_key: None, armed_scan: Some(key), reached: false, release: false, done: false }; }
    fn wait_read_reached(&self) {
        let mut g = self.0.rb.lock().unwrap();
        let t0 = Instant::now();
        while !g.reached {
            let (g2, _) = self.0.rb_cv.wait_timeout(g, Duration::from_millis(100)).unwrap();
            g = g2;
            if t0.elapsed() > Duration::from_secs(30) { panic!("harness: blocked read never reached"); }
        }
    }
    /// the blocked thread reports that its operation returned (possibly without ever reaching the rendezvous)
    fn mark_done(&self) { let mut g = self.0.rb.lock().unwrap(); g.done = true; self.0.rb_cv.notify_all(); }
    /// waits until the rendezvous is reached (true) or the operation returned without reaching it (false)
    fn wait_reached_or_done(&self) -> bool {
        let mut g = self.0.rb.lock().unwrap();
        let t0 = Instant::now();
        while !g.reached && !g.done {
            let (g2, _) = self.0.rb_cv.wait_timeout(g, Duration::from_millis(100)).unwrap();
            g = g2;
            if t0.elapsed() > Duration::from_secs(30) { panic!("harness: blocked scan neither reached nor finished"); }
        }
        g.reached
    }
    fn release_read(&self) { let mut g = self.0.rb.lock().unwrap(); g.release = true; self.0.rb_cv.notify_all(); }
}
impl KvDatabase for HarnessKv {
    type WriteBatch = KvBatch;
    type SerializationBuffer = KvBuf;
    type ScanMemberIterator<C: KeyOfSetColumn> = std::iter::Map<std::vec::IntoIter<u64>, fn(u64) -> C::Element>;
    fn get_wide_column<W: WideColumn, C: WideColumnValue<W>>(&self, key: &W::Key) -> Option<C> {
        self.0.wide_reads.fetch_add(1, Ordering::SeqCst);
        let k = key_u64(key);
        let r = self.0.wide.lock().unwrap().get(&(TypeId::of::<W>(), TypeId::of::<C>(), k)).map(|b| b.downcast_ref::<C>().expect("harness kv: value type").clone());
        // optional rendezvous AFTER the value has been read (the fill window of the cache)
        let mut g = self.0.rb.lock().unwrap();
        if g.armed_key == Some(k) && TypeId::of::<W>() == TypeId::of::<WCol>() {
            g.armed_key = None;
            g.reached = true;
            self.0.rb_cv.notify_all();
            let t0 = Instant::now();
            while !g.release {
                let (g2, _) = self.0.rb_cv.wait_timeout(g, Duration::from_millis(100)).unwrap();
                g = g2;
                if t0.elapsed() > Duration::from_secs(60) { panic!("harness: blocked read never released"); }
            }
        }
        r
    }
    fn scan_members<C: KeyOfSetColumn>(&self, key: &C::Key) -> Self::ScanMemberIterator<C> {
        self.0.scans.fetch_add(1, Ordering::SeqCst);
        tl_note(false);
        let gated = TypeId::of::<C>() == TypeId::of::<SCol>() && key_u64(key) == CK;
        if gated { whook(HEv::ScanB, 0, CK); } // --conc-gated rendezvous BEFORE the store is read
        let v: Vec<u64> = self.0.sets.lock().unwrap().get(&(TypeId::of::<C>(), key_u64(key))).map(|s| s.iter().copied().collect()).unwrap_or_default();
        if gated { whook(HEv::ScanA, 0, CK); } // … and AFTER it has been read
        {
            // optional rendezvous AFTER the scan snapshot has been taken (inside the set cache's fetch)
            let k = key_u64(key);
            let mut g = self.0.rb.lock().unwrap();
            if g.armed_scan == Some(k) && TypeId::of::<C>() == TypeId::of::<SCol>() {
                g.armed_scan = None;
                g.reached = true;
                self.0.rb_cv.notify_all();
                let t0 = Instant::now();
                while !g.release {
                    let (g2, _) = self.0.rb_cv.wait_timeout(g, Duration::from_millis(100)).unwrap();
                    g = g2;
                    if t0.elapsed() > Duration::from_secs(60) { panic!("harness: blocked scan never released"); }
                }
            }
        }
        fn conv<E: 'static>(x: u64) -> E {
            let b: Box<dyn Any> = Box::new(x);
            *b.downcast::<E>().expect("harness kv: element type")
        }
        v.into_iter().map(conv::<C::Element> as fn(u64) -> C::Element)
    }
    fn write_batch(&self) -> KvBatch { KvBatch(Vec::new(), self.clone()) }
    fn serialization_buffer(&self) -> KvBuf { KvBuf(Vec::new()) }
}

// ------------------------------------------------------------------------------------------------
// ConcurrentSet with sorted iteration and a creation counter (one creation = one fetch from the store)
// ------------------------------------------------------------------------------------------------
static SET_CREATED: AtomicU64 = AtomicU64::new(0);
pub struct SortedSet(Arc<Mutex<BTreeSet<u64>>>);
impl Clone for SortedSet {
    fn clone(&self) -> Self { whook(HEv::SsClone, 0, CK); SortedSet(self.0.clone()) }
}
impl Default for SortedSet {
    fn default() -> Self { whook(HEv::SsDefault, 0, CK); tl_note(true); SET_CREATED.fetch_add(1, Ordering::SeqCst); SortedSet(Arc::new(Mutex::new(BTreeSet::new()))) }
}
impl ConcurrentSet for SortedSet {
    type Element = u64;
    type Iterator<'x> = std::vec::IntoIter<u64>;
    fn insert_element(&self, e: u64) -> bool { whook(HEv::SsIns, 0, CK); self.0.lock().unwrap().insert(e) }
    fn remove_element(&self, e: &u64) -> bool { whook(HEv::SsRem, 0, CK); self.0.lock().unwrap().remove(e) }
    fn len(&self) -> usize { let n = self.0.lock().unwrap().len(); whook(HEv::SsLen(n), 0, CK); n }
    fn iter(&self) -> Self::Iterator<'_> { whook(HEv::SsIter, 0, CK); self.0.lock().unwrap().iter().copied().collect::<Vec<_>>().into_iter() }
}


// ------------------------------------------------------------------------------------------------
// environment
// ------------------------------------------------------------------------------------------------
pub trait SentinelCol: KeyOfSetColumn<Key = SentKey, Element = u64> {}
impl SentinelCol for Sent0 {} impl SentinelCol for Sent1 {} impl SentinelCol for Sent2 {}
impl SentinelCol for Sent3 {} impl SentinelCol for Sent4 {} impl SentinelCol for Sent5 {}
type Eng = DbBacked<HarnessKv>;
type Batch = <Eng as StorageEngine>::WriteTransaction;
struct Env<S: SentinelCol> {
    kv: HarnessKv,
    wm: Option<<Eng as StorageEngine>::WriteManager>,
    single: Arc<<Eng as StorageEngine>::SingleMap<WCol, u64>>,
    dynm: Arc<<Eng as StorageEngine>::DynamicMap<DCol>>,
    setm: Arc<<Eng as StorageEngine>::KeyOfSetMap<SCol, SortedSet>>,
    setd: Arc<<Eng as StorageEngine>::KeyOfSetMap<SCol, Arc<dashmap::DashSet<u64>>>>,
    sent: <Eng as StorageEngine>::KeyOfSetMap<S, SortedSet>,
    open: Option<Batch>,
    open_keys: Vec<u64>,
    committed_keys: std::collections::VecDeque<Vec<u64>>,
    submitted_keys: std::collections::VecDeque<Vec<u64>>,
    submitted: u64,
    notified: u64,
    fresh: u64,
    rt: tokio::runtime::Runtime,
}
static SENT_NEXT: AtomicU64 = AtomicU64::new(1);
impl<S: SentinelCol> Env<S> {
    fn new(cap: u64, kv: HarnessKv) -> Self {
        ac_reset();
        { let mut g = AC.lock().unwrap(); g.last_sent = SENT_NEXT.load(Ordering::SeqCst) - 1; }
        let eng = DbBacked::new(kv.clone(), Configuration::builder().cache_capacity(cap).serialization_workers(1).build());
        Env {
            wm: Some(eng.new_write_manager()),
            single: Arc::new(eng.new_single_map::<WCol, u64>()),
            dynm: Arc::new(eng.new_dynamic_map::<DCol>()),
            setm: Arc::new(eng.new_key_of_set_map::<SCol, SortedSet>()),
            setd: Arc::new(eng.new_key_of_set_map::<SCol, Arc<dashmap::DashSet<u64>>>()),
            sent: eng.new_key_of_set_map::<S, SortedSet>(),
            kv, open: None, open_keys: vec![], committed_keys: Default::default(), submitted_keys: Default::default(),
            submitted: 0, notified: 0, fresh: 1_000_000,
            rt: tokio::runtime::Builder::new_current_thread().build().unwrap(),
        }
    }
    fn begin(&mut self) { assert!(self.open.is_none()); self.open = Some(self.wm.as_ref().unwrap().new_write_batch()); self.open_keys.clear(); }
    fn submit(&mut self) {
        let mut b = self.open.take().expect("no open batch");
        let seq = SENT_NEXT.fetch_add(1, Ordering::SeqCst);
        self.rt.block_on(self.sent.insert(SentKey(seq), 0, &mut b)); // trailing sentinel of this batch
        self.wm.as_ref().unwrap().submit_write_batch(b);
        self.submitted += 1;
        self.submitted_keys.push_back(std::mem::take(&mut self.open_keys));
    }
    fn pending_commit(&self) -> u64 { self.submitted - self.kv.committed() }
    fn pending_notify(&self) -> u64 { self.kv.committed() - self.notified }
    fn commit_one(&mut self) {
        assert!(self.pending_commit() > 0);
        let n = self.kv.committed() + 1;
        self.kv.allow_commits(1);
        self.kv.wait_committed(n);
        let k = self.submitted_keys.pop_front().unwrap();
        self.committed_keys.push_back(k);
    }
    /// lets the after-commit thread run the notifications of exactly one committed batch and waits until they are done
    fn notify_one(&mut self) {
        assert!(self.pending_notify() > 0);
        { AC.lock().unwrap().order.clear(); }
        ac_allow_one_and_wait();
        self.notified += 1;
        let keys = self.committed_keys.pop_front().unwrap();
        let g = AC.lock().unwrap();
        let sent_at = g.order.iter().position(|(s, k)| *s && *k == g.last_sent);
        if g.order.len() < 64 {
            for k in keys {
                let at = g.order.iter().position(|(s, kk)| !*s && *kk == k);
                if !(at.is_some() && sent_at.is_some() && at < sent_at) { panic!("harness: key {k} of the batch was not notified before the sentinel (order {:?})", g.order); }
            }
        }
    }
    fn shutdown(&mut self) {
        if self.open.is_some() { self.submit(); }
        self.kv.open_gate();
        ac_open();
        self.wm.take();
    }
}
impl<S: SentinelCol> Drop for Env<S> {
    fn drop(&mut self) { self.shutdown(); }
}
/// Is sentinel column `S` notified after `SCol` when both are in one batch?
fn sentinel_is_last<S: SentinelCol>() -> bool {
    let kv = HarnessKv::default();
    let mut env = Env::<S>::new(4, kv);
    env.begin();
    { let b = env.open.as_mut().unwrap(); env.rt.block_on(env.setm.insert(HKey(1), 1, b)); env.rt.block_on(env.single.insert(HKey(2), 1, b)); }
    env.submit();
    env.commit_one();
    { AC.lock().unwrap().order.clear(); }
    ac_allow_one_and_wait();
    env.notified += 1; env.committed_keys.clear();
    env.shutdown();
    let g = AC.lock().unwrap();
    let s = g.order.iter().position(|(s, _)| *s);
    let a = g.order.iter().position(|(s, k)| !*s && *k == 1);
    let w = g.order.iter().position(|(s, k)| !*s && *k == 2);
    a.is_some() && w.is_some() && s.is_some() && a < s && w < s
}

// ------------------------------------------------------------------------------------------------
// cases
// ------------------------------------------------------------------------------------------------
#[derive(Clone, Debug, PartialEq)]
enum Op {
    InitW(u64, u64), InitD(u64, u8, u64), InitS(u64, u64, u64),
    Begin, Submit, Commit, Notify, Press(u64),
    WIns(u64, u64), WRem(u64), WGet(u64),
    DIns(u64, u8, u64), DRem(u64, u8), DGet(u64, u8),
    SIns(u64, u64), SRem(u64, u64), SFill(u64, u64, u64), SClear(u64, u64, u64), SGet(u64),
}
#[derive(Clone, Debug)]
struct Case { cap: u64, ops: Vec<Op> }
impl Op {
    fn text(&self) -> String {
        match self {
            Op::InitW(k, v) => format!("init-w {k} {v}"), Op::InitD(k, t, v) => format!("init-d {k} {t} {v}"), Op::InitS(k, lo, hi) => format!("init-s {k} {lo} {hi}"),
            Op::Begin => "begin".into(), Op::Submit => "submit".into(), Op::Commit => "commit".into(), Op::Notify => "notify".into(), Op::Press(n) => format!("press {n}"),
            Op::WIns(k, v) => format!("w-ins {k} {v}"), Op::WRem(k) => format!("w-rem {k}"), Op::WGet(k) => format!("w-get {k}"),
            Op::DIns(k, t, v) => format!("d-ins {k} {t} {v}"), Op::DRem(k, t) => format!("d-rem {k} {t}"), Op::DGet(k, t) => format!("d-get {k} {t}"),
            Op::SIns(k, x) => format!("s-ins {k} {x}"), Op::SRem(k, x) => format!("s-rem {k} {x}"), Op::SFill(k, lo, hi) => format!("s-fill {k} {lo} {hi}"),
            Op::SClear(k, lo, hi) => format!("s-clear {k} {lo} {hi}"), Op::SGet(k) => format!("s-get {k}"),
        }
    }
    fn parse(line: &str) -> Option<Op> {
        let t: Vec<&str> = line.split_whitespace().collect();
        let n = |i: usize| -> Option<u64> { t.get(i)?.parse().ok() };
        Some(match *t.first()? {
            "init-w" => Op::InitW(n(1)?, n(2)?), "init-d" => Op::InitD(n(1)?, n(2)? as u8, n(3)?), "init-s" => Op::InitS(n(1)?, n(2)?, n(3)?),
            "begin" => Op::Begin, "submit" => Op::Submit, "commit" => Op::Commit, "notify" => Op::Notify, "press" => Op::Press(n(1)?),
            "w-ins" => Op::WIns(n(1)?, n(2)?), "w-rem" => Op::WRem(n(1)?), "w-get" => Op::WGet(n(1)?),
            "d-ins" => Op::DIns(n(1)?, n(2)? as u8, n(3)?), "d-rem" => Op::DRem(n(1)?, n(2)? as u8), "d-get" => Op::DGet(n(1)?, n(2)? as u8),
            "s-ins" => Op::SIns(n(1)?, n(2)?), "s-rem" => Op::SRem(n(1)?, n(2)?), "s-fill" => Op::SFill(n(1)?, n(2)?, n(3)?),
            "s-clear" => Op::SClear(n(1)?, n(2)?, n(3)?), "s-get" => Op::SGet(n(1)?),
            _ => return None,
        })
    }
}
impl Case {
    fn text(&self) -> String {
        let mut s = format!("case cap={} thr=1024", self.cap);
        for o in &self.ops { s.push('\n'); s.push_str(&o.text()); }
        s.push_str("\nend");
        s
    }
    fn parse(text: &str) -> Option<Case> {
        let mut it = text.lines().map(str::trim).filter(|l| !l.is_empty());
        let h = it.next()?;
        let cap = h.split_whitespace().find_map(|t| t.strip_prefix("cap="))?.parse().ok()?;
        let mut ops = vec![];
        for l in it { if l == "end" { break; } ops.push(Op::parse(l.split(" obs=").next().unwrap())?); }
        Some(Case { cap, ops })
    }
}
/// sorted set → "1-5,9,12-13" / "-" when empty
fn fmt_set(s: &BTreeSet<u64>) -> String {
    if s.is_empty() { return "-".into(); }
    let v: Vec<u64> = s.iter().copied().collect();
    let mut out = String::new();
    let mut i = 0;
    while i < v.len() {
        let mut j = i;
        while j + 1 < v.len() && v[j + 1] == v[j] + 1 { j += 1; }
        if !out.is_empty() { out.push(','); }
        if j > i { out.push_str(&format!("{}-{}", v[i], v[j])); } else { out.push_str(&format!("{}", v[i])); }
        i = j + 1;
    }
    out
}
fn fmt_opt(v: Option<i128>) -> String { match v { Some(x) => format!("some {x}"), None => "none".into() } }

#[derive(Default)]
struct Reference { w: BTreeMap<u64, u64>, d: BTreeMap<(u64, u8), u64>, s: BTreeMap<u64, BTreeSet<u64>> }
struct Failure { sig: String, desc: String }
#[derive(Default)]
struct Stats { ops: u64, reads: u64, wide_reads: u64, wide_store_reads: u64, wide_rereads: u64, wide_reads_pinned: u64, neg_hits: u64,
    set_mem_hits: u64, set_stream: u64, set_fetch: u64, set_refetch: u64, set_spill_reads: u64, set_reads_staged: u64, max_set: u64, commits: u64, notifies: u64,
    reads_between_commit_and_notify: u64, caps: BTreeMap<u64, u64> }

/// Runs one case on the real code; returns the lines (op-with-observation, impl answer) and oracle failures.
fn run_case<S: SentinelCol>(case: &Case, dash: bool, lines: &mut Vec<(String, String, String)>, st: &mut Stats) -> Vec<Failure> {
    let kv = HarnessKv::default();
    let mut rf = Reference::default();
    {
        let mut init = vec![];
        for o in &case.ops {
            match o {
                Op::InitW(k, v) => { init.push(KvOp::Put(TypeId::of::<WCol>(), TypeId::of::<u64>(), *k, Box::new(*v))); rf.w.insert(*k, *v); }
                Op::InitD(k, t, v) => {
                    if *t == 0 { init.push(KvOp::Put(TypeId::of::<DCol>(), TypeId::of::<u64>(), *k, Box::new(*v))); } else { init.push(KvOp::Put(TypeId::of::<DCol>(), TypeId::of::<i64>(), *k, Box::new(*v as i64))); }
                    rf.d.insert((*k, *t), *v);
                }
                Op::InitS(k, lo, hi) => { for x in *lo..=*hi { init.push(KvOp::InsM(TypeId::of::<SCol>(), *k, x)); rf.s.entry(*k).or_default().insert(x); } }
                _ => {}
            }
        }
        kv.apply(init);
    }
    let mut env = Env::<S>::new(case.cap, kv.clone());
    *st.caps.entry(case.cap).or_default() += 1;
    let mut fails = vec![];
    lines.push((format!("case cap={} thr=1024", case.cap), "ok".into(), "ok".into()));
    let mut w_unnotified: BTreeMap<u64, u64> = BTreeMap::new(); // wide keys → number of un-notified batches mentioning them (pinned)
    let mut w_seen: BTreeSet<u64> = BTreeSet::new();
    let mut s_seen: BTreeSet<u64> = BTreeSet::new();
    let mut s_staged: BTreeMap<u64, u64> = BTreeMap::new();
    let mut batch_w: Vec<BTreeSet<u64>> = vec![]; // per submitted batch (FIFO, popped at notify)
    let mut cur_w: BTreeSet<u64> = BTreeSet::new();
    let mut batch_s: Vec<BTreeSet<u64>> = vec![];
    let mut cur_s: BTreeSet<u64> = BTreeSet::new();
    macro_rules! wb { () => { env.open.as_mut().expect("no open batch") }; }
    for (i, o) in case.ops.iter().enumerate() {
        st.ops += 1;
        let mut line = o.text();
        let mut ans = "ok".to_string();
        let mut expect: Option<String> = None;
        match o {
            Op::InitW(..) | Op::InitD(..) | Op::InitS(..) => {}
            Op::Begin => { env.begin(); cur_w.clear(); cur_s.clear(); }
            Op::Submit => { env.submit(); batch_w.push(std::mem::take(&mut cur_w)); batch_s.push(std::mem::take(&mut cur_s)); }
            Op::Commit => { env.commit_one(); st.commits += 1; }
            Op::Notify => {
                env.notify_one(); st.notifies += 1;
                for k in batch_w.remove(0) { if let Some(c) = w_unnotified.get_mut(&k) { *c -= 1; } }
                for k in batch_s.remove(0) { if let Some(c) = s_staged.get_mut(&k) { *c -= 1; } }
            }
            Op::Press(n) => {
                for _ in 0..*n {
                    env.fresh += 1; let f = HKey(env.fresh);
                    let _ = env.rt.block_on(env.single.get(&f));
                    let _ = env.rt.block_on(env.dynm.get::<u64>(&f));
                    if !dash { let _: Vec<u64> = env.rt.block_on(env.setm.get(&f)).collect(); }
                }
            }
            Op::WIns(k, v) => { env.open_keys.push(*k); env.rt.block_on(env.single.insert(HKey(*k), *v, wb!())); rf.w.insert(*k, *v); if cur_w.insert(*k) { *w_unnotified.entry(*k).or_default() += 1; } }
            Op::WRem(k) => { env.open_keys.push(*k); env.rt.block_on(env.single.remove(&HKey(*k), wb!())); rf.w.remove(k); if cur_w.insert(*k) { *w_unnotified.entry(*k).or_default() += 1; } }
            Op::WGet(k) => {
                let r0 = kv.0.wide_reads.load(Ordering::SeqCst);
                let v = env.rt.block_on(env.single.get(&HKey(*k)));
                let obs = kv.0.wide_reads.load(Ordering::SeqCst) - r0;
                line.push_str(&format!(" obs={obs}"));
                ans = fmt_opt(v.map(|x| x as i128));
                expect = Some(fmt_opt(rf.w.get(k).map(|x| *x as i128)));
                st.reads += 1; st.wide_reads += 1; st.wide_store_reads += obs;
                if obs > 0 && !w_seen.insert(*k) { st.wide_rereads += 1; }
                w_seen.insert(*k);
                if w_unnotified.get(k).copied().unwrap_or(0) > 0 { st.wide_reads_pinned += 1; }
                if env.pending_notify() > 0 { st.reads_between_commit_and_notify += 1; }
                if v.is_none() && obs == 0 { st.neg_hits += 1; }
            }
            Op::DIns(k, t, v) => {
                env.open_keys.push(*k);
                if *t == 0 { env.rt.block_on(env.dynm.insert::<u64>(HKey(*k), *v, wb!())); } else { env.rt.block_on(env.dynm.insert::<i64>(HKey(*k), *v as i64, wb!())); }
                rf.d.insert((*k, *t), *v);
            }
            Op::DRem(k, t) => {
                env.open_keys.push(*k);
                if *t == 0 { env.rt.block_on(env.dynm.remove::<u64>(&HKey(*k), wb!())); } else { env.rt.block_on(env.dynm.remove::<i64>(&HKey(*k), wb!())); }
                rf.d.remove(&(*k, *t));
            }
            Op::DGet(k, t) => {
                let r0 = kv.0.wide_reads.load(Ordering::SeqCst);
                let v: Option<i128> = if *t == 0 { env.rt.block_on(env.dynm.get::<u64>(&HKey(*k))).map(|x| x as i128) } else { env.rt.block_on(env.dynm.get::<i64>(&HKey(*k))).map(|x| x as i128) };
                let obs = kv.0.wide_reads.load(Ordering::SeqCst) - r0;
                line.push_str(&format!(" obs={obs}"));
                ans = fmt_opt(v);
                expect = Some(fmt_opt(rf.d.get(&(*k, *t)).map(|x| *x as i128)));
                st.reads += 1; st.wide_reads += 1; st.wide_store_reads += obs;
                if v.is_none() && obs == 0 { st.neg_hits += 1; }
            }
            Op::SIns(..) | Op::SRem(..) | Op::SFill(..) | Op::SClear(..) => {
                let (k, lo, hi, ins) = match o { Op::SIns(k, x) => (*k, *x, *x, true), Op::SRem(k, x) => (*k, *x, *x, false), Op::SFill(k, lo, hi) => (*k, *lo, *hi, true), Op::SClear(k, lo, hi) => (*k, *lo, *hi, false), _ => unreachable!() };
                env.open_keys.push(k);
                if cur_s.insert(k) { *s_staged.entry(k).or_default() += 1; }
                for x in lo..=hi {
                    match (dash, ins) {
                        (false, true) => env.rt.block_on(env.setm.insert(HKey(k), x, wb!())),
                        (false, false) => env.rt.block_on(env.setm.remove(&HKey(k), &x, wb!())),
                        (true, true) => env.rt.block_on(env.setd.insert(HKey(k), x, wb!())),
                        (true, false) => env.rt.block_on(env.setd.remove(&HKey(k), &x, wb!())),
                    }
                    if ins { rf.s.entry(k).or_default().insert(x); } else { rf.s.entry(k).or_default().remove(&x); }
                }
            }
            Op::SGet(k) => {
                let c0 = SET_CREATED.load(Ordering::SeqCst);
                let s0 = kv.0.scans.load(Ordering::SeqCst);
                let got: BTreeSet<u64> = if dash { env.rt.block_on(env.setd.get(&HKey(*k))).collect() } else { env.rt.block_on(env.setm.get(&HKey(*k))).collect() };
                let fetches = SET_CREATED.load(Ordering::SeqCst) - c0;
                let scans = kv.0.scans.load(Ordering::SeqCst) - s0;
                if !dash { line.push_str(&format!(" obs={fetches},{scans}")); }
                ans = fmt_set(&got);
                let e = rf.s.get(k).cloned().unwrap_or_default();
                st.max_set = st.max_set.max(e.len() as u64);
                expect = Some(fmt_set(&e));
                st.reads += 1;
                if scans == 0 { st.set_mem_hits += 1; } else if fetches == 0 { st.set_stream += 1; } else { st.set_fetch += 1; if !s_seen.insert(*k) { st.set_refetch += 1; } if e.len() > 1024 { st.set_spill_reads += 1; } }
                s_seen.insert(*k);
                if s_staged.get(k).copied().unwrap_or(0) > 0 { st.set_reads_staged += 1; }
                if env.pending_notify() > 0 { st.reads_between_commit_and_notify += 1; }
            }
        }
        let refans = expect.clone().unwrap_or_else(|| "ok".to_string());
        if let Some(e) = expect {
            if e != ans {
                let kind = match o { Op::SGet(_) => "set", Op::DGet(..) => "dyn", _ => "single" };
                fails.push(Failure { sig: format!("{kind}-read-differs-from-reference"), desc: format!("op #{i} `{}`: implementation returned `{}`, reference map says `{}`", o.text(), short(&ans), short(&e)) });
            }
        }
        lines.push((line, ans, refans));
    }
    lines.push(("end".into(), "ok".into(), "ok".into()));
    env.shutdown();
    fails
}
fn short(s: &str) -> String { if s.len() > 160 { format!("{}…({} chars)", &s[..160], s.len()) } else { s.to_string() } }

// ------------------------------------------------------------------------------------------------
// generator
// ------------------------------------------------------------------------------------------------
/// `respect` (only with `--restricted`; the default stream is unrestricted since F10 and F17 were fixed in
/// /repo): stay inside the region `getSafe` in which the code before those fixes was correct: when a set is read, its staging log holds at most one operation per element, and a
/// read that may fetch a set whose store image exceeds the threshold has no staged removal of one of
/// the first threshold+1 store elements.  The generator simulates the store image and a superset of the
/// log to guarantee this; the driver re-checks it on the model state (`assert-safe`).
fn gen_case(rng: &mut Rng, big: bool, respect: bool) -> Case {
    let cap = if rng.chance(1, 3) { 1 } else { rng.range(1, 16) };
    let nkeys = rng.range(1, 6);
    let mut ops = vec![];
    for k in 1..=nkeys {
        if rng.chance(1, 2) { ops.push(Op::InitW(k, rng.range(100, 199))); }
        if rng.chance(1, 3) { ops.push(Op::InitD(k, rng.below(2) as u8, rng.range(100, 199))); }
    }
    let set_keys = rng.range(1, 3);
    let mut big_key = 0;
    let mut sim_db: BTreeMap<u64, BTreeSet<u64>> = BTreeMap::new();
    for k in 1..=set_keys {
        if big && big_key == 0 && (k == set_keys || rng.chance(2, 3)) {
            big_key = k;
            let n = *rng.pick(&[990u64, 1020, 1023, 1024, 1025, 1026, 1030, 1100]);
            ops.push(Op::InitS(k, 1, n));
            sim_db.insert(k, (1..=n).collect());
        } else if rng.chance(1, 2) { let n = rng.range(1, 40); ops.push(Op::InitS(k, 1, n)); sim_db.insert(k, (1..=n).collect()); }
    }
    let n = if big { rng.range(10, 45) } else { rng.range(8, 70) };
    let mut open = false;
    let (mut pc, mut pn) = (0u64, 0u64); // submitted-not-committed, committed-not-notified
    let mut staged: BTreeMap<u64, BTreeMap<u64, bool>> = BTreeMap::new(); // superset of the log: key → element → is-insert
    let mut open_ops: Vec<(u64, u64, bool)> = vec![];
    let mut sub_ops: std::collections::VecDeque<Vec<(u64, u64, bool)>> = Default::default();
    let press_w = if cap <= 4 { 14 } else { 6 };
    for _ in 0..n {
        let r = rng.below(100);
        let k = rng.range(1, nkeys);
        let sk = rng.range(1, set_keys);
        macro_rules! need_open { () => { if !open { ops.push(Op::Begin); open = true; } }; }
        let safe_read = |sk: u64, staged: &BTreeMap<u64, BTreeMap<u64, bool>>, sim_db: &BTreeMap<u64, BTreeSet<u64>>| -> bool {
            if !respect { return true; }
            let db = match sim_db.get(&sk) { Some(d) => d, None => return true };
            if db.len() <= 1024 { return true; }
            let half: BTreeSet<u64> = db.iter().take(1025).copied().collect();
            !staged.get(&sk).map_or(false, |m| m.iter().any(|(x, ins)| !*ins && half.contains(x)))
        };
        match r {
            0..=12 => { need_open!(); ops.push(Op::WIns(k, rng.range(1, 99))); }
            13..=18 => { need_open!(); ops.push(Op::WRem(k)); }
            19..=33 => ops.push(Op::WGet(k)),
            34..=38 => { need_open!(); ops.push(Op::DIns(k, rng.below(2) as u8, rng.range(1, 99))); }
            39..=41 => { need_open!(); ops.push(Op::DRem(k, rng.below(2) as u8)); }
            42..=46 => ops.push(Op::DGet(k, rng.below(2) as u8)),
            47..=60 => {
                let is_big = big && sk == big_key;
                let range = if is_big { if rng.chance(2, 3) { (985, 1110) } else { (1, 1110) } } else { (1, 45) };
                let x = rng.range(range.0, range.1);
                let bulk = is_big && rng.chance(1, 3);
                let (lo, hi) = if bulk { let lo = rng.range(960, 1060); (lo, lo + rng.range(1, 80)) } else { (x, x) };
                if respect && (lo..=hi).any(|e| staged.get(&sk).map_or(false, |s| s.contains_key(&e))) { if safe_read(sk, &staged, &sim_db) { ops.push(Op::SGet(sk)); } continue; }
                need_open!();
                let ins = rng.chance(3, 5);
                for e in lo..=hi { staged.entry(sk).or_default().insert(e, ins); open_ops.push((sk, e, ins)); }
                ops.push(match (bulk, ins) { (true, true) => Op::SFill(sk, lo, hi), (true, false) => Op::SClear(sk, lo, hi), (false, true) => Op::SIns(sk, x), (false, false) => Op::SRem(sk, x) });
            }
            61..=74 => { if safe_read(sk, &staged, &sim_db) { ops.push(Op::SGet(sk)); } else { ops.push(Op::WGet(k)); } }
            75..=81 => { if open { ops.push(Op::Submit); open = false; pc += 1; sub_ops.push_back(std::mem::take(&mut open_ops)); } else { ops.push(Op::WGet(k)); } }
            82..=88 => {
                if pc > 0 {
                    ops.push(Op::Commit); pc -= 1; pn += 1;
                    for (kk, x, ins) in sub_ops.pop_front().unwrap() { let d = sim_db.entry(kk).or_default(); if ins { d.insert(x); } else { d.remove(&x); } }
                } else { ops.push(Op::WGet(k)); }
            }
            89..=94 => {
                if pn > 0 { ops.push(Op::Notify); pn -= 1; if !open && pc == 0 && pn == 0 { staged.clear(); } } else { ops.push(Op::DGet(k, 0)); }
            }
            _ => ops.push(Op::Press(rng.range(4, press_w))),
        }
    }
    if open { ops.push(Op::Submit); pc += 1; sub_ops.push_back(std::mem::take(&mut open_ops)); }
    for k in 1..=nkeys { if rng.chance(1, 2) { ops.push(Op::WGet(k)); } }
    // drain the pipeline, reading in between
    while pc > 0 || pn > 0 {
        if pc > 0 && (pn == 0 || rng.chance(1, 2)) {
            ops.push(Op::Commit); pc -= 1; pn += 1;
            for (kk, x, ins) in sub_ops.pop_front().unwrap() { let d = sim_db.entry(kk).or_default(); if ins { d.insert(x); } else { d.remove(&x); } }
        } else { ops.push(Op::Notify); pn -= 1; if pc == 0 && pn == 0 { staged.clear(); } }
        if rng.chance(1, 3) {
            let sk = rng.range(1, set_keys);
            let ok = { let db = sim_db.get(&sk); !respect || db.map_or(true, |d| d.len() <= 1024 || { let half: BTreeSet<u64> = d.iter().take(1025).copied().collect(); !staged.get(&sk).map_or(false, |m| m.iter().any(|(x, ins)| !*ins && half.contains(x))) }) };
            if ok { ops.push(Op::SGet(sk)); }
            ops.push(Op::WGet(rng.range(1, nkeys)));
        }
        if rng.chance(1, 6) { ops.push(Op::Press(rng.range(4, press_w))); }
    }
    ops.push(Op::Press(press_w));
    for k in 1..=nkeys { ops.push(Op::WGet(k)); ops.push(Op::DGet(k, 0)); ops.push(Op::DGet(k, 1)); }
    for k in 1..=set_keys { ops.push(Op::SGet(k)); }
    Case { cap, ops }
}

fn well_formed(c: &Case) -> bool {
    let (mut open, mut pc, mut pn) = (false, 0i64, 0i64);
    for o in &c.ops {
        match o {
            Op::Begin => { if open { return false; } open = true; }
            Op::Submit => { if !open { return false; } open = false; pc += 1; }
            Op::Commit => { if pc == 0 { return false; } pc -= 1; pn += 1; }
            Op::Notify => { if pn == 0 { return false; } pn -= 1; }
            Op::WIns(..) | Op::WRem(..) | Op::DIns(..) | Op::DRem(..) | Op::SIns(..) | Op::SRem(..) | Op::SFill(..) | Op::SClear(..) => { if !open { return false; } }
            _ => {}
        }
    }
    true
}
type Runner = fn(&Case, bool, &mut Vec<(String, String, String)>, &mut Stats) -> Vec<Failure>;
fn shrink(run: Runner, case: &Case, dash: bool, sig: &str) -> Case {
    // delta-debugging over ops: drop one op at a time while the same signature still fails and the case stays well-formed
    let mut cur = case.clone();
    let mut progress = true;
    let mut budget = 300;
    while progress && budget > 0 {
        progress = false;
        let mut i = 0;
        while i < cur.ops.len() && budget > 0 {
            let mut c = cur.clone();
            c.ops.remove(i);
            if well_formed(&c) {
                budget -= 1;
                let mut l = vec![]; let mut st = Stats::default();
                let r = std::panic::catch_unwind(std::panic::AssertUnwindSafe(|| run(&c, dash, &mut l, &mut st)));
                if let Ok(f) = r { if f.iter().any(|x| x.sig == sig) { cur = c; progress = true; continue; } }
            }
            i += 1;
        }
    }
    cur
}

// ------------------------------------------------------------------------------------------------
// two-thread scenario (real threads; the rendezvous is inside the harness KV's read, i.e. inside the
// cache's `init()` closure – between the store read of a fill and its insert-if-vacant)
// ------------------------------------------------------------------------------------------------
/// A fill of key 1 reads the store (100); another task writes 7, the write is committed, un-pinned
/// and evicted; then the fill installs what it read.  Returns (what the filling `get` returned,
/// what a later `get` returns, the latest write).
fn scenario_stale_fill<S: SentinelCol>(cap: u64, pressure: u64) -> (Option<u64>, Option<u64>, Option<u64>) {
    let kv = HarnessKv::default();
    kv.apply(vec![KvOp::Put(TypeId::of::<WCol>(), TypeId::of::<u64>(), 1, Box::new(100u64))]);
    let mut env = Env::<S>::new(cap, kv.clone());
    kv.arm_read_block(1);
    let single = env.single.clone();
    let t1 = std::thread::spawn(move || {
        let rt = tokio::runtime::Builder::new_current_thread().build().unwrap();
        rt.block_on(single.get(&HKey(1)))
    });
    kv.wait_read_reached(); // T1 has read 100 from the store and sits between the read and insert-if-vacant
    env.begin();
    { let b = env.open.as_mut().unwrap(); env.rt.block_on(env.single.insert(HKey(1), 7, b)); }
    env.submit();
    env.commit_one();
    env.notify_one(); // un-pinned
    for i in 0..pressure { let _ = env.rt.block_on(env.single.get(&HKey(2_000_000 + i))); }
    kv.release_read();
    let v1 = t1.join().unwrap();
    let after = env.rt.block_on(env.single.get(&HKey(1)));
    env.shutdown();
    (v1, after, Some(7))
}

/// The vacancy check of the fill: a fill of key 1 reads the store (100) and waits; another task writes 7
/// (not committed: the entry is pinned and present); the fill must NOT overwrite it.
fn scenario_fill_vs_write<S: SentinelCol>(cap: u64, remove: bool) -> (Option<u64>, Option<u64>, Option<u64>) {
    let kv = HarnessKv::default();
    kv.apply(vec![KvOp::Put(TypeId::of::<WCol>(), TypeId::of::<u64>(), 1, Box::new(100u64))]);
    let mut env = Env::<S>::new(cap, kv.clone());
    kv.arm_read_block(1);
    let single = env.single.clone();
    let t1 = std::thread::spawn(move || {
        let rt = tokio::runtime::Builder::new_current_thread().build().unwrap();
        rt.block_on(single.get(&HKey(1)))
    });
    kv.wait_read_reached();
    env.begin();
    { let b = env.open.as_mut().unwrap(); if remove { env.rt.block_on(env.single.remove(&HKey(1), b)); } else { env.rt.block_on(env.single.insert(HKey(1), 7, b)); } }
    kv.release_read();
    let v1 = t1.join().unwrap();
    let after = env.rt.block_on(env.single.get(&HKey(1)));
    env.shutdown();
    (v1, after, if remove { None } else { Some(7) })
}

/// Set cache, reader vs writer on one key: a `get` of set 1 (store {1,2}, nothing cached) has taken its staging
/// snapshot and scanned the store, and waits; another task inserts 9 (staged in the log; the set is not cached, so
/// nothing else happens); the `get` then installs the in-memory set it built from its OLD snapshot.
/// Returns (what the fetching get returned, what a later get returns, expected).
fn scenario_set_fill_vs_insert<S: SentinelCol>(cap: u64, remove: bool) -> (BTreeSet<u64>, BTreeSet<u64>, BTreeSet<u64>) {
    let kv = HarnessKv::default();
    kv.apply(vec![KvOp::InsM(TypeId::of::<SCol>(), 1, 1), KvOp::InsM(TypeId::of::<SCol>(), 1, 2)]);
    let mut env = Env::<S>::new(cap, kv.clone());
    kv.arm_scan_block(1);
    let setm = env.setm.clone();
    let t1 = std::thread::spawn(move || {
        let rt = tokio::runtime::Builder::new_current_thread().build().unwrap();
        rt.block_on(setm.get(&HKey(1))).collect::<BTreeSet<u64>>()
    });
    kv.wait_read_reached();
    env.begin();
    { let b = env.open.as_mut().unwrap(); if remove { env.rt.block_on(env.setm.remove(&HKey(1), &2, b)); } else { env.rt.block_on(env.setm.insert(HKey(1), 9, b)); } }
    kv.release_read();
    let v1 = t1.join().unwrap();
    let after: BTreeSet<u64> = env.rt.block_on(env.setm.get(&HKey(1))).collect();
    env.shutdown();
    (v1, after, if remove { [1u64].into_iter().collect() } else { [1u64, 2, 9].into_iter().collect() })
}

/// Set cache, read racing with commit + flush: a batch on set 1 (store {1,2}) is staged and submitted but not
/// committed; a `get` of the uncached set has taken its staging snapshot and its `scan_members` has READ the store
/// and is parked before returning; the batch is committed and its after-commit `FlushUpTo` runs (the staging log is
/// emptied); the scan resumes.  The read – and every later read – must contain the batch's effect.
/// `evicted`: the set was read (cached) before and is pushed out of a tiny cache first; otherwise it was never read.
/// Returns None when the set could not be evicted (nothing was tested).
fn scenario_scan_vs_commit_flush<S: SentinelCol>(cap: u64, evicted: bool, remove: bool) -> Option<(BTreeSet<u64>, BTreeSet<u64>, BTreeSet<u64>)> {
    let kv = HarnessKv::default();
    kv.apply(vec![KvOp::InsM(TypeId::of::<SCol>(), 1, 1), KvOp::InsM(TypeId::of::<SCol>(), 1, 2)]);
    let mut env = Env::<S>::new(cap, kv.clone());
    if evicted { let _: Vec<u64> = env.rt.block_on(env.setm.get(&HKey(1))).collect(); }
    env.begin();
    { let b = env.open.as_mut().unwrap(); if remove { env.rt.block_on(env.setm.remove(&HKey(1), &2, b)); } else { env.rt.block_on(env.setm.insert(HKey(1), 9, b)); } }
    env.submit();
    let want: BTreeSet<u64> = if remove { [1u64].into_iter().collect() } else { [1u64, 2, 9].into_iter().collect() };
    for attempt in 0..40u64 {
        if evicted { for _ in 0..(64 + 32 * attempt) { env.fresh += 1; let f = HKey(env.fresh); let _: Vec<u64> = env.rt.block_on(env.setm.get(&f)).collect(); } }
        kv.arm_scan_block(1);
        let setm = env.setm.clone();
        let kv2 = kv.clone();
        let t1 = std::thread::spawn(move || {
            let rt = tokio::runtime::Builder::new_current_thread().build().unwrap();
            let r = rt.block_on(setm.get(&HKey(1))).collect::<BTreeSet<u64>>();
            kv2.mark_done();
            r
        });
        if kv.wait_reached_or_done() {
            env.commit_one();
            env.notify_one(); // FlushUpTo(epoch): the staging log of key 1 is emptied
            kv.release_read();
            let v1 = t1.join().unwrap();
            let after: BTreeSet<u64> = env.rt.block_on(env.setm.get(&HKey(1))).collect();
            env.shutdown();
            return Some((v1, after, want));
        }
        let hit = t1.join().unwrap(); // still cached: the read never went to the store
        if hit != want { env.shutdown(); return Some((hit.clone(), hit, want)); }
    }
    env.shutdown();
    None
}

// >>> CONC-BEGIN
// ------------------------------------------------------------------------------------------------
// --conc-gated: gated multi-thread schedules on the real `CacheKeyOfSetMap`
//
// Worker threads are parked at gates that live in harness-owned code which the set cache calls on the worker's own
// thread (no hook in /repo): `HKey::hash` / `HKey::clone`, `HarnessKv::scan_members`, `SortedSet::*`.  A hash of
// the key is attributed to a call site of `get_entry` / `apply_op` only if it goes through the very reference the
// worker passed in (same address: `staging.get_map`, `cache.get`, `single_flight.hash_one`, `shard.remove`);
// hashes of clones (scc entry, TinyLFU maintenance, write batch) have other addresses and are ignored, so the
// TinyLFU's piggy-backed maintenance cannot confuse the gate positions.  The controller releases one worker at a
// time and waits until it is parked again, finished, or blocked as a single-flight waiter (its future is polled by
// hand; `Pending` is reported to the controller).
// ------------------------------------------------------------------------------------------------
/// the set key all gated schedules work on
const CK: u64 = 1;

#[derive(Clone, Copy, PartialEq, Eq, Debug)]
enum Pt { R0 = 0, R1 = 1, R2 = 2, R3 = 3, R4 = 4, R6 = 5, W0 = 6, W1 = 7, W2 = 8 }
const PT_ALL: [Pt; 9] = [Pt::R0, Pt::R1, Pt::R2, Pt::R3, Pt::R4, Pt::R6, Pt::W0, Pt::W1, Pt::W2];
const PT_NAMES: [&str; 9] = ["get_before_snapshot", "get_before_lookup", "get_before_single_flight", "get_before_scan", "get_after_scan", "get_before_read",
    "write_before_stage", "write_before_lookup", "write_before_apply"];
const R_GATES: [Pt; 6] = [Pt::R0, Pt::R1, Pt::R2, Pt::R3, Pt::R4, Pt::R6];
const fn bit(p: Pt) -> u32 { 1 << (p as u32) }

#[derive(Clone, Copy, PartialEq, Eq, Debug)]
enum WSt { Idle, Running, Parked(Pt), Pending, Done }
#[derive(Clone, Copy, PartialEq, Eq, Debug)]
enum HEv { Hash, Clone, SsDefault, SsClone, SsIter, SsIns, SsRem, SsLen(usize), ScanB, ScanA }

type SetM = <Eng as StorageEngine>::KeyOfSetMap<SCol, SortedSet>;
/// an active write batch must never be dropped (`WriteBatch::drop` asserts): on an error path it is leaked instead
struct BatchBox(Option<Batch>);
impl Drop for BatchBox { fn drop(&mut self) { if let Some(b) = self.0.take() { std::mem::forget(b); } } }
enum Cmd { Get { stops: u32 }, Write { x: u64, ins: bool, batch: BatchBox, stops: u32 }, Quit }
enum Res { Got(BTreeSet<u64>), Wrote(BatchBox) }

struct WInner {
    t: usize, st: WSt, go: bool, free: bool, stops: u32,
    log: Vec<(String, Option<String>)>, trace: Vec<&'static str>, bad: Option<String>, res: Option<Res>,
    // state machine of the operation in progress (0 = none, 1 = get, 2 = insert/remove)
    kind: u8, orig: usize, dcount: u32, in_fetch: bool, scanned: bool, iters: u32, inst: u8, installed: bool,
    wx: u64, wins: bool, looked: bool, applied: bool, downgrade: bool,
    parks: [u64; 9],
}
struct WShared { m: Mutex<WInner>, cv: Condvar, woken: std::sync::atomic::AtomicBool }
impl std::task::Wake for WShared {
    fn wake(self: Arc<Self>) { self.woken.store(true, Ordering::SeqCst); }
    fn wake_by_ref(self: &Arc<Self>) { self.woken.store(true, Ordering::SeqCst); }
}
thread_local! { static WCTX: std::cell::RefCell<Option<Arc<WShared>>> = const { std::cell::RefCell::new(None) }; }
#[inline]
fn whook(ev: HEv, addr: usize, key: u64) {
    let _ = WCTX.try_with(|c| { if let Ok(b) = c.try_borrow() { if let Some(w) = b.as_ref() { w.event(ev, addr, key); } } });
}
impl WShared {
    fn new(t: usize) -> Arc<Self> {
        Arc::new(WShared { m: Mutex::new(WInner { t, st: WSt::Idle, go: false, free: false, stops: 0, log: vec![], trace: vec![], bad: None, res: None,
            kind: 0, orig: 0, dcount: 0, in_fetch: false, scanned: false, iters: 0, inst: 0, installed: false, wx: 0, wins: false, looked: false, applied: false, downgrade: false, parks: [0; 9] }),
            cv: Condvar::new(), woken: std::sync::atomic::AtomicBool::new(false) })
    }
    fn park<'a>(&'a self, mut g: std::sync::MutexGuard<'a, WInner>, p: Pt) {
        if g.free || g.stops & bit(p) == 0 { return; }
        g.parks[p as usize] += 1;
        g.st = WSt::Parked(p); g.go = false;
        self.cv.notify_all();
        let t0 = Instant::now();
        while !g.go && !g.free {
            let (g2, _) = self.cv.wait_timeout(g, Duration::from_millis(200)).unwrap();
            g = g2;
            if t0.elapsed() > Duration::from_secs(40) { g.free = true; g.bad = Some("a parked worker was never released".into()); }
        }
        g.go = false; g.st = WSt::Running;
    }
    /// the worker's future returned `Pending` (single-flight waiter): report it and wait to be polled again
    fn pend(&self) {
        let mut g = self.m.lock().unwrap();
        if g.free { drop(g); std::thread::sleep(Duration::from_millis(1)); return; }
        g.st = WSt::Pending; g.go = false;
        self.cv.notify_all();
        let t0 = Instant::now();
        while !g.go && !g.free {
            let (g2, _) = self.cv.wait_timeout(g, Duration::from_millis(200)).unwrap();
            g = g2;
            if t0.elapsed() > Duration::from_secs(40) { g.free = true; g.bad = Some("a waiting worker was never polled again".into()); }
        }
        g.go = false; g.st = WSt::Running;
    }
    fn event(&self, ev: HEv, addr: usize, key: u64) {
        let mut g = self.m.lock().unwrap();
        if g.kind == 0 { return; }
        if matches!(ev, HEv::Hash | HEv::Clone) {
            let is_k = key == CK;
            if is_k && g.orig == 0 { g.orig = addr; }
            let direct = is_k && addr == g.orig;
            // did `cache.entry`'s closure insert?  (`key.clone()` through the worker's reference, the hash of that
            // clone in `entry_sync`, then – only when the vacant entry is filled – a clone of the entry's key before
            // anything else is hashed; maintenance always hashes a key before it clones one)
            if g.kind == 1 && g.in_fetch && g.scanned {
                match g.inst {
                    0 => { if direct && ev == HEv::Clone { g.inst = 1; } }
                    1 => { if is_k && !direct && ev == HEv::Hash { g.inst = 2; } }
                    2 => { if is_k && !direct && ev == HEv::Clone { g.installed = true; } g.inst = 3; }
                    _ => {}
                }
            }
            if !direct || ev == HEv::Clone { return; }
        }
        let t = g.t;
        g.trace.push(match ev { HEv::Hash => "h", HEv::Clone => "c", HEv::SsDefault => "default", HEv::SsClone => "ssclone", HEv::SsIter => "iter", HEv::SsIns => "ins", HEv::SsRem => "rem", HEv::SsLen(_) => "len", HEv::ScanB => "scanB", HEv::ScanA => "scanA" });
        macro_rules! bad { ($m:expr) => {{ if g.bad.is_none() { g.bad = Some(format!("{} (events of the operation so far: {:?})", $m, g.trace)); } return; }}; }
        if g.kind == 1 {
            match ev {
                HEv::Hash => {
                    if g.in_fetch {
                        // `shard.remove(key)` of the single flight: the work closure (fetch + `cache.entry`) is over
                        g.in_fetch = false; g.dcount = 4;
                        let o = if g.installed { "inst" } else { "noinst" };
                        g.log.push((format!("ginstall {t} obs={o}"), None));
                        return;
                    }
                    if g.dcount == 3 { g.dcount = 0; } // was a waiter of the single flight: next iteration of the loop
                    match g.dcount {
                        0 => {
                            if g.iters == 0 { g.log.push((format!("gstart {t}"), None)); } else { g.log.push((format!("gretry {t}"), None)); }
                            g.log.push((format!("gload {t}"), None));
                            g.iters += 1; g.dcount = 1;
                            self.park(g, Pt::R0);
                        }
                        1 => { g.log.push((format!("gsnap {t}"), None)); g.dcount = 2; self.park(g, Pt::R1); }
                        2 => { g.log.push((format!("glookup {t} obs=miss"), None)); g.dcount = 3; self.park(g, Pt::R2); }
                        _ => bad!("get: unexpected hash of the key through the caller's reference"),
                    }
                }
                HEv::SsDefault => {
                    if g.dcount != 3 || g.in_fetch { bad!("get: a set was created outside the single flight"); }
                    g.in_fetch = true; g.scanned = false; g.inst = 0; g.installed = false;
                }
                HEv::ScanB => {
                    if g.in_fetch { if g.scanned { bad!("get: second scan inside one fetch"); } self.park(g, Pt::R3); }
                    else {
                        if g.dcount == 2 { g.log.push((format!("glookup {t} obs=hit"), None)); g.dcount = 5; } else if g.dcount != 4 && g.dcount != 5 { bad!("get: streaming scan at an unexpected place"); }
                        self.park(g, Pt::R6);
                    }
                }
                HEv::ScanA => { if g.in_fetch { g.scanned = true; g.log.push((format!("gscan {t}"), None)); self.park(g, Pt::R4); } }
                HEv::SsClone => {
                    if g.in_fetch { bad!("get: set cloned inside the fetch"); }
                    if g.dcount == 2 { g.log.push((format!("glookup {t} obs=hit"), None)); g.dcount = 5; } else if g.dcount != 4 { bad!("get: cached set cloned at an unexpected place"); }
                    self.park(g, Pt::R6);
                }
                HEv::SsIter => {}
                HEv::SsIns | HEv::SsRem | HEv::SsLen(_) => { if !g.in_fetch { bad!("get: set modified outside the fetch"); } }
                HEv::Clone => {}
            }
        } else {
            match ev {
                HEv::Hash => match g.dcount {
                    0 => { g.dcount = 1; self.park(g, Pt::W0); }
                    1 => {
                        let (x, i) = (g.wx, u8::from(g.wins));
                        g.log.push((format!("stage {t} {x} {i}"), None)); g.log.push((format!("bump {t}"), None));
                        g.dcount = 2; self.park(g, Pt::W1);
                    }
                    _ => bad!("write: unexpected hash of the key through the caller's reference"),
                },
                HEv::SsIns | HEv::SsRem => {
                    if g.dcount != 2 || g.looked { bad!("write: in-place update at an unexpected place"); }
                    if (ev == HEv::SsIns) != g.wins { bad!("write: in-place update of the wrong kind"); }
                    g.looked = true;
                    g.log.push((format!("wlookup {t} obs=apply"), None));
                    self.park(g, Pt::W2);
                }
                HEv::SsLen(n) => {
                    if !g.looked || g.applied { bad!("write: len() at an unexpected place"); }
                    g.applied = true; g.log.push((format!("wapply {t}"), None));
                    if n > 1024 { g.downgrade = true; }
                }
                _ => bad!("write: unexpected call into the harness"),
            }
        }
    }
}

fn worker_main(sh: Arc<WShared>, rx: std::sync::mpsc::Receiver<Cmd>, setm: Arc<SetM>) {
    use std::future::Future;
    WCTX.with(|c| *c.borrow_mut() = Some(sh.clone()));
    let waker = std::task::Waker::from(sh.clone());
    let mut cx = std::task::Context::from_waker(&waker);
    while let Ok(cmd) = rx.recv() {
        match cmd {
            Cmd::Quit => break,
            Cmd::Get { stops } => {
                let key = HKey(CK);
                {
                    let mut g = sh.m.lock().unwrap();
                    g.kind = 1; g.orig = &key as *const HKey as usize; g.dcount = 0; g.in_fetch = false; g.scanned = false; g.iters = 0; g.inst = 0; g.installed = false;
                    g.stops = stops; g.trace.clear();
                }
                sh.woken.store(false, Ordering::SeqCst);
                let got: BTreeSet<u64> = {
                    let mut fut = Box::pin(setm.get(&key));
                    loop {
                        match fut.as_mut().poll(&mut cx) {
                            std::task::Poll::Ready(it) => break it.collect(),
                            std::task::Poll::Pending => sh.pend(),
                        }
                    }
                };
                let mut g = sh.m.lock().unwrap();
                if g.dcount != 4 && g.dcount != 5 && g.bad.is_none() { g.bad = Some(format!("get returned at an unexpected place (events {:?})", g.trace)); }
                let t = g.t;
                g.log.push((format!("gread {t}"), Some(fmt_set(&got))));
                g.kind = 0; g.res = Some(Res::Got(got)); g.st = WSt::Done;
                sh.cv.notify_all();
            }
            Cmd::Write { x, ins, batch, stops } => {
                let mut batch = batch;
                let key = HKey(CK);
                {
                    let mut g = sh.m.lock().unwrap();
                    g.kind = 2; g.orig = 0; g.dcount = 0; g.wx = x; g.wins = ins; g.looked = false; g.applied = false; g.downgrade = false;
                    g.stops = stops; g.trace.clear();
                }
                {
                    let b = batch.0.as_mut().expect("batch");
                    if ins {
                        let mut fut = Box::pin(setm.insert(HKey(CK), x, b));
                        loop { if fut.as_mut().poll(&mut cx).is_ready() { break; } sh.pend(); }
                    } else {
                        let mut fut = Box::pin(setm.remove(&key, &x, b));
                        loop { if fut.as_mut().poll(&mut cx).is_ready() { break; } sh.pend(); }
                    }
                }
                let mut g = sh.m.lock().unwrap();
                let t = g.t;
                if g.dcount != 2 && g.bad.is_none() { g.bad = Some(format!("write returned at an unexpected place (events {:?})", g.trace)); }
                if !g.looked { g.log.push((format!("wlookup {t} obs=noapply"), None)); }
                else if !g.applied && g.bad.is_none() { g.bad = Some(format!("write: in-place update without len() (events {:?})", g.trace)); }
                if g.downgrade { g.log.push((format!("wdowngrade {t}"), None)); }
                g.kind = 0; g.res = Some(Res::Wrote(batch)); g.st = WSt::Done;
                sh.cv.notify_all();
            }
        }
    }
    WCTX.with(|c| *c.borrow_mut() = None);
}

struct CWorker { sh: Arc<WShared>, tx: std::sync::mpsc::Sender<Cmd>, join: Option<std::thread::JoinHandle<()>> }
struct OpenB { b: Option<BatchBox>, epoch: u64, seq: u64 }
struct HW { t: usize, x: u64, ins: bool, inv: u64, resp: u64 }
struct HG { t: usize, inv: u64, resp: u64, set: BTreeSet<u64> }
#[derive(Clone, Copy)]
enum CurOp { G(usize), W(usize) }
#[derive(Default, Clone)]
struct CStats {
    cases: u64, by_scenario: BTreeMap<String, u64>, parks: [u64; 9], gets: u64, gets_overlapping_a_write: u64, writes: u64, hits: u64, misses: u64, misses_after_cached: u64,
    applies: u64, noapplies: u64, retries: u64, waits: u64, inst: u64, noinst: u64, commits: u64, notifies: u64, presses: u64, big_cases: u64, lines: u64, tasks: BTreeMap<u64, u64>,
    gets_with_a_step_of_another_task_inside: u64, max_set: u64,
}
struct CEnv<S: SentinelCol> {
    env: Env<S>, ws: Vec<CWorker>, wst: Vec<WSt>, bat: Vec<Option<OpenB>>, cur: Vec<Option<CurOp>>,
    next_epoch: u64, expected: u64, submitted: BTreeSet<u64>, committed: u64, notified: u64,
    lines: Vec<(String, String)>,
    db0: BTreeSet<u64>, writes: Vec<HW>, gets: Vec<HG>,
    writing: BTreeMap<u64, usize>, elem_epochs: BTreeMap<u64, BTreeSet<u64>>,
    big: bool, cached_once: bool, st: CStats,
}
fn wait_stop(sh: &WShared) -> WSt {
    let mut g = sh.m.lock().unwrap();
    let t0 = Instant::now();
    while g.st == WSt::Running {
        let (g2, _) = sh.cv.wait_timeout(g, Duration::from_millis(100)).unwrap();
        g = g2;
        if t0.elapsed() > Duration::from_secs(15) { panic!("harness: gated worker {} neither parked nor finished (blocked on a lock held by a parked worker?); events of its operation: {:?}", g.t, g.trace); }
    }
    if let Some(b) = g.bad.take() { panic!("harness: gate positions inconsistent on worker {}: {b}", g.t); }
    g.st
}
impl<S: SentinelCol> CEnv<S> {
    fn new(cap: u64, tasks: usize, db0: &BTreeSet<u64>) -> Self {
        let kv = HarnessKv::default();
        kv.apply(db0.iter().map(|x| KvOp::InsM(TypeId::of::<SCol>(), CK, *x)).collect());
        let env = Env::<S>::new(cap, kv);
        let mut ws = vec![];
        for t in 0..tasks {
            let sh = WShared::new(t);
            let (tx, rx) = std::sync::mpsc::channel();
            let (sh2, setm) = (sh.clone(), env.setm.clone());
            let join = std::thread::Builder::new().name(format!("c09-worker-{t}")).spawn(move || worker_main(sh2, rx, setm)).expect("spawn");
            ws.push(CWorker { sh, tx, join: Some(join) });
        }
        let mut c = CEnv { env, ws, wst: vec![WSt::Idle; tasks], bat: (0..tasks).map(|_| None).collect(), cur: vec![None; tasks], next_epoch: 0, expected: 0, submitted: BTreeSet::new(), committed: 0, notified: 0,
            lines: vec![], db0: db0.clone(), writes: vec![], gets: vec![], writing: BTreeMap::new(), elem_epochs: BTreeMap::new(), big: db0.len() > 900, cached_once: false, st: CStats::default() };
        c.lines.push((format!("ccase thr=1024 tasks={tasks} db={}", fmt_set(db0)), "ok".into()));
        *c.st.tasks.entry(tasks as u64).or_default() += 1;
        if c.big { c.st.big_cases += 1; }
        c
    }
    fn tick(&self) -> u64 { self.lines.len() as u64 }
    fn line(&mut self, s: String) { self.lines.push((s, "ok".into())); }
    /// in cases with a set around the threshold a worker is never parked while it holds the entry's read lock
    /// (another writer's downgrade to `TooLarge` takes the write lock and would block outside any gate)
    fn mask(&self, stops: u32) -> u32 { if self.big { stops & !(bit(Pt::R6) | bit(Pt::W2)) } else { stops } }
    fn rstops(&self, rng: &mut Rng) -> u32 { let mut m = 0; for p in PT_ALL { if rng.chance(1, 2) { m |= bit(p); } } m }
    fn idle(&self, t: usize) -> bool { self.wst[t] == WSt::Idle }
    fn settle(&mut self, t: usize) -> WSt {
        let sh = self.ws[t].sh.clone();
        let st = wait_stop(&sh);
        let (log, res) = { let mut g = sh.m.lock().unwrap(); let r = if st == WSt::Done { g.st = WSt::Idle; g.res.take() } else { None }; (std::mem::take(&mut g.log), r) };
        for (l, a) in log {
            if l.starts_with("glookup") { if l.ends_with("hit") { self.st.hits += 1; } else { self.st.misses += 1; if self.cached_once { self.st.misses_after_cached += 1; } } }
            if l.starts_with("wlookup") { if l.ends_with("=apply") { self.st.applies += 1; } else { self.st.noapplies += 1; } }
            if l.starts_with("gretry") { self.st.retries += 1; }
            if l.starts_with("ginstall") { if l.ends_with("=inst") { self.st.inst += 1; self.cached_once = true; } else { self.st.noinst += 1; } }
            self.lines.push((format!("cev {l}"), a.unwrap_or_else(|| "ok".into())));
        }
        if let WSt::Parked(p) = st { self.st.parks[p as usize] += 1; }
        if st == WSt::Pending { self.st.waits += 1; }
        self.wst[t] = if st == WSt::Done { WSt::Idle } else { st };
        if st == WSt::Done {
            let now = self.tick();
            match (self.cur[t].take(), res) {
                (Some(CurOp::G(i)), Some(Res::Got(s))) => { self.st.max_set = self.st.max_set.max(s.len() as u64); self.gets[i].resp = now; self.gets[i].set = s; }
                (Some(CurOp::W(i)), Some(Res::Wrote(bb))) => {
                    self.writes[i].resp = now;
                    let x = self.writes[i].x;
                    self.writing.remove(&x);
                    self.bat[t].as_mut().expect("open batch").b = Some(bb);
                }
                _ => panic!("harness: worker {t} finished without a matching result"),
            }
        }
        self.wst[t]
    }
    fn start_get(&mut self, t: usize, stops: u32) -> WSt {
        assert!(self.idle(t));
        let stops = self.mask(stops);
        self.gets.push(HG { t, inv: self.tick(), resp: u64::MAX, set: BTreeSet::new() });
        self.cur[t] = Some(CurOp::G(self.gets.len() - 1));
        self.st.gets += 1;
        { let mut g = self.ws[t].sh.m.lock().unwrap(); g.st = WSt::Running; }
        self.ws[t].tx.send(Cmd::Get { stops }).expect("worker gone");
        self.settle(t)
    }
    fn can_write(&self, t: usize, x: u64) -> bool {
        if !self.idle(t) || self.writing.contains_key(&x) { return false; }
        let Some(ob) = self.bat[t].as_ref() else { return false };
        self.elem_epochs.get(&x).map_or(true, |es| es.iter().all(|e| *e <= ob.epoch))
    }
    fn start_write(&mut self, t: usize, x: u64, ins: bool, stops: u32) -> WSt {
        assert!(self.can_write(t, x), "harness: generated a write of element {x} by task {t} that violates the usage assumption");
        let stops = self.mask(stops);
        let ob = self.bat[t].as_mut().unwrap();
        let batch = ob.b.take().expect("batch is lent");
        let epoch = ob.epoch;
        self.writes.push(HW { t, x, ins, inv: self.tick(), resp: u64::MAX });
        self.cur[t] = Some(CurOp::W(self.writes.len() - 1));
        self.writing.insert(x, t);
        self.elem_epochs.entry(x).or_default().insert(epoch);
        self.st.writes += 1;
        { let mut g = self.ws[t].sh.m.lock().unwrap(); g.st = WSt::Running; }
        self.ws[t].tx.send(Cmd::Write { x, ins, batch, stops }).expect("worker gone");
        self.settle(t)
    }
    /// releases a parked / waiting worker until its next gate in `stops`
    fn step(&mut self, t: usize, stops: u32) -> WSt {
        assert!(matches!(self.wst[t], WSt::Parked(_) | WSt::Pending));
        let stops = self.mask(stops);
        { let sh = &self.ws[t].sh; let mut g = sh.m.lock().unwrap(); g.stops = stops; g.go = true; g.st = WSt::Running; sh.cv.notify_all(); }
        self.settle(t)
    }
    fn woken(&self, t: usize) -> bool { self.ws[t].sh.woken.load(Ordering::SeqCst) }
    fn get_full(&mut self, t: usize) { let mut s = self.start_get(t, 0); let mut n = 0; while s != WSt::Idle { s = self.step(t, 0); n += 1; assert!(n < 50, "harness: an ungated get does not finish"); } }
    fn write_full(&mut self, t: usize, x: u64, ins: bool) { let s = self.start_write(t, x, ins, 0); assert!(s == WSt::Idle); }
    fn begin(&mut self, t: usize) {
        assert!(self.idle(t) && self.bat[t].is_none());
        let b = self.env.wm.as_ref().unwrap().new_write_batch();
        let seq = SENT_NEXT.fetch_add(1, Ordering::SeqCst); // sentinel numbers must increase in commit (= creation) order
        self.bat[t] = Some(OpenB { b: Some(BatchBox(Some(b))), epoch: self.next_epoch, seq });
        self.next_epoch += 1;
        self.line(format!("cev begin {t}"));
    }
    fn submit(&mut self, t: usize) {
        assert!(self.idle(t));
        let ob = self.bat[t].take().expect("no open batch");
        let mut b = ob.b.expect("batch is lent").0.take().unwrap();
        self.env.rt.block_on(self.env.sent.insert(SentKey(ob.seq), 0, &mut b)); // trailing sentinel of this batch
        self.env.wm.as_ref().unwrap().submit_write_batch(b);
        self.env.submitted += 1;
        self.submitted.insert(ob.epoch);
        self.line(format!("cev submit {t}"));
    }
    fn can_commit(&self) -> bool { self.submitted.contains(&self.expected) }
    fn commit(&mut self) {
        assert!(self.can_commit());
        let n = self.env.kv.committed() + 1;
        self.env.kv.allow_commits(1);
        self.env.kv.wait_committed(n);
        let e = self.expected;
        self.submitted.remove(&e);
        for es in self.elem_epochs.values_mut() { es.remove(&e); }
        self.expected += 1; self.committed += 1; self.st.commits += 1;
        self.line("cev commit".into());
    }
    fn can_notify(&self) -> bool { self.committed > self.notified }
    fn notify(&mut self) {
        assert!(self.can_notify());
        ac_allow_one_and_wait();
        self.notified += 1; self.env.notified += 1; self.st.notifies += 1;
        self.line("cev notify".into());
    }
    fn press(&mut self, n: u64) {
        for _ in 0..n { self.env.fresh += 1; let f = HKey(self.env.fresh); let _: Vec<u64> = self.env.rt.block_on(self.env.setm.get(&f)).collect(); }
        self.st.presses += 1;
        self.line(format!("cev press {n}"));
    }
    /// runs every operation in flight to completion (no gates)
    fn finish_all(&mut self) {
        for _ in 0..(4 * self.ws.len() + 8) {
            for t in 0..self.ws.len() { if let WSt::Parked(_) = self.wst[t] { let mut n = 0; while let WSt::Parked(_) = self.step(t, 0) { n += 1; assert!(n < 50); } } }
            for t in 0..self.ws.len() { if self.wst[t] == WSt::Pending { self.step(t, 0); } }
            if (0..self.ws.len()).all(|t| self.idle(t)) { return; }
        }
        panic!("harness: operations in flight do not finish ({:?})", self.wst);
    }
    /// submits what is open, commits and notifies everything (optionally reading in between), then a quiescent get
    fn drain(&mut self, rng: &mut Rng, reader: usize) {
        self.finish_all();
        for t in 0..self.ws.len() { if self.bat[t].is_some() { self.submit(t); } }
        while self.can_commit() || self.can_notify() {
            if self.can_commit() && (!self.can_notify() || rng.chance(1, 2)) { self.commit(); } else { self.notify(); }
            if rng.chance(1, 4) { self.get_full(reader); }
        }
        assert!(self.submitted.is_empty(), "harness: a submitted batch can never be committed");
        self.get_full(reader);
    }
    /// per-element regular semantics of every completed get (independent of the Lean model)
    fn oracle(&mut self) -> Vec<Failure> {
        let mut by_x: BTreeMap<u64, Vec<&HW>> = BTreeMap::new();
        for w in &self.writes { by_x.entry(w.x).or_default().push(w); }
        for v in by_x.values_mut() { v.sort_by_key(|w| w.inv); }
        let mut fails = vec![];
        for g in &self.gets {
            if g.resp == u64::MAX { continue; }
            let mut overl = false;
            for (x, ws) in &by_x {
                let mut base = self.db0.contains(x);
                let mut allowed = [false, false];
                let mut o = vec![];
                for w in ws { if w.resp <= g.inv { base = w.ins; } else if w.inv < g.resp { allowed[usize::from(w.ins)] = true; o.push(format!("{}({x}) by task {} [{}..{}]", if w.ins { "insert" } else { "remove" }, w.t, w.inv, w.resp)); } }
                allowed[usize::from(base)] = true;
                if !o.is_empty() { overl = true; }
                let has = g.set.contains(x);
                if !allowed[usize::from(has)] {
                    fails.push(Failure { sig: "conc-set-read-outside-regular-bounds".into(), desc: format!("get by task {} (lines {}..{}) returned {}: element {x} is {} although the last write of it that returned before the get was invoked says {} and the overlapping writes are [{}]",
                        g.t, g.inv, g.resp, short(&fmt_set(&g.set)), if has { "present" } else { "absent" }, if base { "present" } else { "absent" }, o.join(", ")) });
                }
            }
            // elements nobody wrote
            let unwritten_db: BTreeSet<u64> = self.db0.iter().copied().filter(|x| !by_x.contains_key(x)).collect();
            let unwritten_got: BTreeSet<u64> = g.set.iter().copied().filter(|x| !by_x.contains_key(x)).collect();
            if unwritten_db != unwritten_got {
                let d: Vec<u64> = unwritten_db.symmetric_difference(&unwritten_got).copied().take(8).collect();
                fails.push(Failure { sig: "conc-set-read-outside-regular-bounds".into(), desc: format!("get by task {} (lines {}..{}) returned {}: elements {:?} were never written but differ from the initial store image", g.t, g.inv, g.resp, short(&fmt_set(&g.set)), d) });
            }
            if overl { self.st.gets_overlapping_a_write += 1; }
            let inside = self.gets.iter().any(|h| !std::ptr::eq(h, g) && h.inv < g.resp && g.inv < h.resp) || overl;
            if inside { self.st.gets_with_a_step_of_another_task_inside += 1; }
        }
        fails
    }
}
impl<S: SentinelCol> Drop for CEnv<S> {
    fn drop(&mut self) {
        for w in &self.ws { let mut g = w.sh.m.lock().unwrap(); g.free = true; g.go = true; w.sh.cv.notify_all(); }
        for w in &mut self.ws { let _ = w.tx.send(Cmd::Quit); }
        for w in &mut self.ws { if let Some(j) = w.join.take() { let _ = j.join(); } }
    }
}

// ---- scenarios (all random choices from the case's own Rng) ----
fn steppable<S: SentinelCol>(c: &CEnv<S>, t: usize) -> bool { match c.wst[t] { WSt::Parked(_) => true, WSt::Pending => c.woken(t), _ => false } }
/// advances random workers among `ts` (random gates) until all of them are idle
fn run_out<S: SentinelCol>(c: &mut CEnv<S>, rng: &mut Rng, ts: &[usize]) {
    let mut guard = 0;
    loop {
        guard += 1; assert!(guard < 600, "harness: workers {:?} do not finish ({:?})", ts, c.wst);
        let busy: Vec<usize> = ts.iter().copied().filter(|t| !c.idle(*t)).collect();
        if busy.is_empty() { return; }
        let can: Vec<usize> = busy.iter().copied().filter(|t| steppable(c, *t)).collect();
        if can.is_empty() { c.finish_all(); return; }
        let t = *rng.pick(&can);
        let s = c.rstops(rng); c.step(t, s);
    }
}
/// 1. reader-fetch vs insert/remove at every gate position, then a later quiescent get by another worker
fn scen1<S: SentinelCol>(c: &mut CEnv<S>, rng: &mut Rng) {
    if rng.chance(1, 3) { c.get_full(2); }
    c.begin(1);
    let g = *rng.pick(&R_GATES);
    let s = c.rstops(rng) | bit(g);
    c.start_get(0, s);
    let nw = rng.range(1, 3);
    let (mut started, mut guard) = (0, 0);
    loop {
        guard += 1; assert!(guard < 400);
        let (rb, wb) = (!c.idle(0), !c.idle(1));
        if !wb && started < nw && (!rb || rng.chance(2, 3)) { let x = rng.range(1, 8); let ins = rng.chance(3, 5); let s = c.rstops(rng); c.start_write(1, x, ins, s); started += 1; continue; }
        if !rb && !wb { break; }
        let t = if rb && (!wb || rng.chance(1, 2)) { 0 } else { 1 };
        let s = c.rstops(rng); c.step(t, s);
    }
    if rng.chance(2, 3) { c.get_full(2); }
    c.drain(rng, 2);
}
/// 2. reader vs commit + after-commit flush at every reader gate
fn scen2<S: SentinelCol>(c: &mut CEnv<S>, rng: &mut Rng) {
    let pre = rng.chance(1, 2);
    if pre { c.get_full(2); }
    c.begin(1);
    for _ in 0..rng.range(1, 4) { let x = rng.range(1, 6); let ins = rng.chance(1, 2); c.write_full(1, x, ins); }
    if rng.chance(1, 3) { let x = rng.range(1, 6); c.write_full(1, x, true); c.write_full(1, x, false); if rng.chance(1, 2) { c.write_full(1, x, true); } }
    c.submit(1);
    if pre || rng.chance(1, 3) { let n = rng.range(40, 140); c.press(n); }
    let mut s = c.rstops(rng); if s & 0x3f == 0 { s |= bit(*rng.pick(&R_GATES)); }
    c.start_get(0, s);
    let (mut bg, mut guard) = (0, 0);
    while !c.idle(0) {
        guard += 1; assert!(guard < 100);
        if bg < 2 && rng.chance(1, 2) { if bg == 0 { c.commit(); } else { c.notify(); } bg += 1; continue; }
        let s = c.rstops(rng); c.step(0, s);
    }
    if rng.chance(1, 2) { c.get_full(2); }
    c.drain(rng, 2);
}
/// 3. eviction: a writer parked between its lookup and its in-place update while the entry is evicted and refetched
fn scen3<S: SentinelCol>(c: &mut CEnv<S>, rng: &mut Rng) {
    c.get_full(2);
    c.begin(1);
    let (x, ins) = (rng.range(1, 8), rng.chance(1, 2));
    let s0 = bit(Pt::W2) | (c.rstops(rng) & (bit(Pt::W0) | bit(Pt::W1)));
    let mut st = c.start_write(1, x, ins, s0);
    while matches!(st, WSt::Parked(p) if p != Pt::W2) { st = c.step(1, bit(Pt::W2)); }
    let n = rng.range(64, 200); c.press(n);
    let s = c.rstops(rng); c.start_get(0, s);
    run_out(c, rng, &[0, 1]);
    c.get_full(2);
    if rng.chance(1, 2) { let y = rng.range(1, 8); let ins = rng.chance(1, 2); let s = c.rstops(rng); c.start_write(1, y, ins, s); let s = c.rstops(rng); c.start_get(0, s); run_out(c, rng, &[0, 1]); }
    c.drain(rng, 2);
}
/// 4. writers on different elements, batches created in one order and staged in the opposite order, a reader at the
/// gates; one more element written by several batches sequentially in increasing epoch order
fn scen4<S: SentinelCol>(c: &mut CEnv<S>, rng: &mut Rng) {
    let nw = c.ws.len() - 1; let r = nw;
    if rng.chance(1, 2) { c.get_full(r); }
    for t in 0..nw { c.begin(t); }
    let mut xs: Vec<u64> = (1..=8).collect(); rng.shuffle(&mut xs);
    let s = c.rstops(rng); c.start_get(r, s);
    for t in (0..nw).rev() {
        let ins = rng.chance(2, 3);
        let s = c.rstops(rng); c.start_write(t, xs[t], ins, s);
        if rng.chance(1, 2) { run_out(c, rng, &[t]); } else { run_out(c, rng, &[t, r]); }
        if c.idle(r) && rng.chance(1, 2) { let s = c.rstops(rng); c.start_get(r, s); }
    }
    let y = xs[nw];
    for t in 0..nw {
        if rng.chance(2, 3) { let ins = rng.chance(1, 2); let s = c.rstops(rng); c.start_write(t, y, ins, s); run_out(c, rng, &[t]); if c.idle(r) && rng.chance(1, 2) { let s = c.rstops(rng); c.start_get(r, s); } }
    }
    run_out(c, rng, &(0..=nw).collect::<Vec<_>>());
    let mut order: Vec<usize> = (0..nw).collect(); rng.shuffle(&mut order);
    for t in order {
        c.submit(t);
        while c.can_commit() && rng.chance(1, 2) { c.commit(); if rng.chance(1, 2) && c.can_notify() { c.notify(); } }
        if rng.chance(1, 2) { let s = c.rstops(rng); c.start_get(r, s); let mut guard = 0; while !c.idle(r) { guard += 1; assert!(guard < 100); if c.can_commit() && rng.chance(1, 3) { c.commit(); } else if c.can_notify() && rng.chance(1, 3) { c.notify(); } else { let s = c.rstops(rng); c.step(r, s); } } }
    }
    c.drain(rng, r);
}
/// 5. waiter path: two (three) readers miss together, one works (parked around its scan), the others wait, a writer
/// stages in between
fn scen5<S: SentinelCol>(c: &mut CEnv<S>, rng: &mut Rng) {
    let pre_begin = rng.chance(1, 2);
    if pre_begin { c.begin(2); }
    let g = if rng.chance(1, 2) { Pt::R3 } else { Pt::R4 };
    c.start_get(0, bit(g));
    let mut readers = vec![0usize, 1];
    if c.ws.len() > 3 { readers.push(3); }
    for &t in &readers[1..] {
        let s1 = c.rstops(rng) & (bit(Pt::R0) | bit(Pt::R1) | bit(Pt::R2));
        let mut st = c.start_get(t, s1);
        while let WSt::Parked(_) = st { st = c.step(t, 0); }
    }
    if !pre_begin { c.begin(2); }
    for _ in 0..rng.range(1, 2) { let (x, ins) = (rng.range(1, 8), rng.chance(2, 3)); let s = c.rstops(rng); c.start_write(2, x, ins, s); run_out(c, rng, &[2]); }
    if rng.chance(1, 3) { c.submit(2); c.commit(); if rng.chance(1, 2) { c.notify(); } }
    run_out(c, rng, &readers);
    c.drain(rng, 1);
}
/// 6. "the whole set is not atomic": the read returns {a,b} although the set was never {a,b}
fn scen6<S: SentinelCol>(c: &mut CEnv<S>, rng: &mut Rng) {
    let a = rng.range(1, 4); let b = a + rng.range(1, 4);
    c.begin(1); c.write_full(1, a, true);
    c.start_get(0, bit(Pt::R3));
    c.write_full(1, a, false); c.write_full(1, b, true); c.submit(1); c.commit();
    if rng.chance(1, 2) { c.notify(); }
    run_out(c, rng, &[0]);
    c.drain(rng, 1);
}
/// 7. random gated walk
fn scen7<S: SentinelCol>(c: &mut CEnv<S>, rng: &mut Rng) {
    let n = c.ws.len();
    let steps = rng.range(20, 70);
    let elems: Vec<u64> = if c.big { let m = c.db0.len() as u64; vec![1, 2, 3, m - 1, m, m + 1, m + 2, m + 3, m + 4, m + 5] } else { (1..=8).collect() };
    if rng.chance(1, 2) { let t = rng.below(n as u64) as usize; c.get_full(t); }
    for _ in 0..steps {
        let mut acts: Vec<(u32, usize)> = vec![];
        for t in 0..n {
            match c.wst[t] {
                WSt::Parked(_) => for _ in 0..4 { acts.push((0, t)); },
                WSt::Pending => if c.woken(t) { for _ in 0..4 { acts.push((0, t)); } },
                WSt::Idle => {
                    acts.push((1, t)); acts.push((1, t));
                    if c.bat[t].is_some() { for _ in 0..3 { acts.push((2, t)); } acts.push((4, t)); } else { acts.push((3, t)); acts.push((3, t)); }
                }
                _ => {}
            }
        }
        if c.can_commit() { acts.push((5, 0)); acts.push((5, 0)); }
        if c.can_notify() { acts.push((6, 0)); acts.push((6, 0)); }
        acts.push((7, 0));
        let (k, t) = *rng.pick(&acts);
        match k {
            0 => { let s = c.rstops(rng); c.step(t, s); }
            1 => { let s = c.rstops(rng); c.start_get(t, s); }
            2 => {
                let can: Vec<u64> = elems.iter().copied().filter(|x| c.can_write(t, *x)).collect();
                if !can.is_empty() { let x = *rng.pick(&can); let ins = rng.chance(1, 2); let s = c.rstops(rng); c.start_write(t, x, ins, s); }
            }
            3 => c.begin(t),
            4 => c.submit(t),
            5 => c.commit(),
            6 => c.notify(),
            _ => { let k = rng.range(8, 90); c.press(k); }
        }
    }
    let r = rng.below(n as u64) as usize;
    c.drain(rng, r);
}

struct GatedOut { lines: Vec<(String, String)>, fails: Vec<Failure>, st: CStats, scen: String }
fn case_rng(seed: u64, idx: u64) -> Rng { Rng::new(seed.wrapping_mul(0x0100_0000_01b3).wrapping_add(idx.wrapping_mul(0x9E37_79B9)) ^ (idx << 32)) }
fn gated_case<S: SentinelCol>(seed: u64, idx: u64) -> GatedOut {
    let mut rng = case_rng(seed, idx);
    let scen = match idx % 10 { 0 | 6 => 1, 1 | 7 => 2, 2 => 3, 3 => 4, 4 => 5, 5 => 6, _ => 7 };
    let big = scen == 7 && idx % 50 == 9;
    let cap = rng.range(1, 4);
    let db0: BTreeSet<u64> = if big { (1..=rng.range(1020, 1030)).collect() } else if scen == 6 { BTreeSet::new() } else { (1..=6).filter(|_| rng.chance(1, 2)).collect() };
    let tasks = match scen { 1 | 2 | 3 => 3, 4 => rng.range(3, 4) as usize, 5 => rng.range(3, 4) as usize, 6 => 2, _ => rng.range(2, 4) as usize };
    let mut c = CEnv::<S>::new(cap, tasks, &db0);
    match scen { 1 => scen1(&mut c, &mut rng), 2 => scen2(&mut c, &mut rng), 3 => scen3(&mut c, &mut rng), 4 => scen4(&mut c, &mut rng), 5 => scen5(&mut c, &mut rng), 6 => scen6(&mut c, &mut rng), _ => scen7(&mut c, &mut rng) }
    c.line("cend".into());
    let fails = c.oracle();
    let name = ["", "reader-vs-writer", "reader-vs-commit-flush", "eviction-orphan-apply", "writers-reverse-staging", "single-flight-waiter", "whole-set-not-atomic", "random-walk"][scen];
    c.st.cases = 1; c.st.lines = c.lines.len() as u64;
    *c.st.by_scenario.entry(name.to_string()).or_default() += 1;
    GatedOut { lines: std::mem::take(&mut c.lines), fails, st: c.st.clone(), scen: name.to_string() }
}
impl CStats {
    fn add(&mut self, o: &CStats) {
        self.cases += o.cases; for (k, v) in &o.by_scenario { *self.by_scenario.entry(k.clone()).or_default() += v; } for i in 0..9 { self.parks[i] += o.parks[i]; }
        self.gets += o.gets; self.gets_overlapping_a_write += o.gets_overlapping_a_write; self.writes += o.writes; self.hits += o.hits; self.misses += o.misses; self.misses_after_cached += o.misses_after_cached;
        self.applies += o.applies; self.noapplies += o.noapplies; self.retries += o.retries; self.waits += o.waits; self.inst += o.inst; self.noinst += o.noinst; self.commits += o.commits; self.notifies += o.notifies;
        self.presses += o.presses; self.big_cases += o.big_cases; self.lines += o.lines; for (k, v) in &o.tasks { *self.tasks.entry(*k).or_default() += v; }
        self.gets_with_a_step_of_another_task_inside += o.gets_with_a_step_of_another_task_inside; self.max_set = self.max_set.max(o.max_set);
    }
    fn json(&self, harness_errors: u64) -> String {
        let parks = (0..9).map(|i| format!("\"{}\":{}", PT_NAMES[i], self.parks[i])).collect::<Vec<_>>().join(",");
        let scen = self.by_scenario.iter().map(|(k, v)| format!("{}:{}", jstr(k), v)).collect::<Vec<_>>().join(",");
        let tasks = self.tasks.iter().map(|(k, v)| format!("\"{k}\":{v}")).collect::<Vec<_>>().join(",");
        format!("{{\"cases\":{},\"scenarios\":{{{}}},\"tasks_histogram\":{{{}}},\"lines\":{},\"parks_at_gate\":{{{}}},\"gets\":{},\"gets_overlapping_a_write\":{},\"gets_overlapping_another_operation\":{},\"writes\":{},\"get_lookup_hits\":{},\"get_lookup_misses\":{},\"get_lookup_misses_after_an_install\":{},\"write_lookup_apply\":{},\"write_lookup_noapply\":{},\"single_flight_waits\":{},\"single_flight_retries\":{},\"installs\":{},\"installs_refused_or_occupied\":{},\"commits\":{},\"notifies\":{},\"presses\":{},\"cases_around_threshold\":{},\"max_set_size\":{},\"harness_errors\":{}}}",
            self.cases, scen, tasks, self.lines, parks, self.gets, self.gets_overlapping_a_write, self.gets_with_a_step_of_another_task_inside, self.writes, self.hits, self.misses, self.misses_after_cached, self.applies, self.noapplies, self.waits, self.retries, self.inst, self.noinst, self.commits, self.notifies, self.presses, self.big_cases, self.max_set, harness_errors)
    }
}
/// start-up calibration of the gate positions; an `Err` means the code under test no longer calls into the harness in the order the gates rely on
fn calibrate_gates<S: SentinelCol>() -> Result<(), String> {
    let r = std::panic::catch_unwind(|| -> Result<(), String> {
        let db: BTreeSet<u64> = [1u64, 2].into_iter().collect();
        let mut c = CEnv::<S>::new(64, 2, &db);
        let tr = |c: &CEnv<S>, t: usize| -> Vec<&'static str> { c.ws[t].sh.m.lock().unwrap().trace.clone() };
        let check = |what: &str, got: Vec<&'static str>, want: &[&str]| -> Result<(), String> { if got == want { Ok(()) } else { Err(format!("{what}: calls into the harness {:?}, expected {:?}", got, want)) } };
        c.get_full(0);
        check("solo get (miss)", tr(&c, 0), &["h", "h", "h", "default", "scanB", "scanA", "ins", "ins", "h", "ssclone", "iter"])?;
        if !c.lines.iter().any(|(l, _)| l == "cev ginstall 0 obs=inst") { return Err(format!("solo get (miss): the install was not observed ({:?})", c.lines)); }
        c.get_full(0);
        check("solo get (hit)", tr(&c, 0), &["h", "h", "ssclone", "iter"])?;
        c.begin(0);
        c.write_full(0, 5, true);
        check("solo insert (set cached)", tr(&c, 0), &["h", "h", "ins", "len"])?;
        c.write_full(0, 1, false);
        check("solo remove (set cached)", tr(&c, 0), &["h", "h", "rem", "len"])?;
        let mut seq = vec![];
        let mut st = c.start_get(1, 0x1ff);
        while st != WSt::Idle { seq.push(st); st = c.step(1, 0x1ff); }
        if seq != [WSt::Parked(Pt::R0), WSt::Parked(Pt::R1), WSt::Parked(Pt::R6)] { return Err(format!("gated get (hit) parked at {:?}", seq)); }
        if c.gets.last().map(|g| fmt_set(&g.set)) != Some("2,5".into()) { return Err(format!("gated get returned {:?}", c.gets.last().map(|g| fmt_set(&g.set)))); }
        let mut seq = vec![];
        let mut st = c.start_write(0, 7, true, 0x1ff);
        while st != WSt::Idle { seq.push(st); st = c.step(0, 0x1ff); }
        if seq != [WSt::Parked(Pt::W0), WSt::Parked(Pt::W1), WSt::Parked(Pt::W2)] { return Err(format!("gated insert parked at {:?}", seq)); }
        let mut rng = Rng::new(1);
        c.drain(&mut rng, 1);
        drop(c);
        // miss path with every gate, and the waiter of the single flight
        let mut c = CEnv::<S>::new(64, 2, &db);
        let mut seq = vec![];
        let mut st = c.start_get(0, 0x1ff);
        while st != WSt::Parked(Pt::R4) && seq.len() < 12 { seq.push(st); st = c.step(0, 0x1ff); }
        if seq != [WSt::Parked(Pt::R0), WSt::Parked(Pt::R1), WSt::Parked(Pt::R2), WSt::Parked(Pt::R3)] { return Err(format!("gated get (miss) parked at {:?} before the scan returned", seq)); }
        let st1 = c.start_get(1, 0);
        if st1 != WSt::Pending || c.woken(1) { return Err(format!("second get during a fetch: {:?} (expected to wait in the single flight)", st1)); }
        let mut seq = vec![];
        let mut st = c.step(0, 0x1ff);
        while st != WSt::Idle { seq.push(st); st = c.step(0, 0x1ff); }
        if seq != [WSt::Parked(Pt::R6)] { return Err(format!("gated get (miss) parked at {:?} after the scan", seq)); }
        if !c.woken(1) { return Err("the waiter of the single flight was not woken".into()); }
        if c.step(1, 0) != WSt::Idle { return Err("the waiter of the single flight did not finish".into()); }
        if !c.lines.iter().any(|(l, _)| l == "cev gretry 1") || !c.lines.iter().any(|(l, _)| l == "cev glookup 1 obs=hit") { return Err(format!("waiter: no retry / hit observed ({:?})", c.lines)); }
        Ok(())
    });
    match r { Ok(x) => x, Err(e) => Err(e.downcast_ref::<String>().cloned().or_else(|| e.downcast_ref::<&str>().map(|s| s.to_string())).unwrap_or_else(|| "panic".into())) }
}
fn conc_gated_main<S: SentinelCol>(a: &qbice_verif_harness::Args, mut out: Out) {
    if let Err(e) = calibrate_gates::<S>() { eprintln!("harness: --conc-gated calibration failed: {e}"); std::process::exit(2); }
    let mut todo: Vec<(u64, u64)> = vec![];
    if let Some(p) = &a.replay {
        let raw = std::fs::read_to_string(p).expect("replay file");
        let text = if raw.trim_start().starts_with('{') { extract_case(&raw).expect("replay json has no \"case\"") } else { raw };
        let h = text.lines().next().unwrap_or("");
        let f = |k: &str| -> Option<u64> { h.split_whitespace().find_map(|t| t.strip_prefix(k))?.parse().ok() };
        match (f("seed="), f("case=")) { (Some(s), Some(i)) if h.starts_with("conc-gated") => todo.push((s, i)), _ => { eprintln!("harness: not a --conc-gated case (first line must be `conc-gated seed=N case=I`)"); std::process::exit(2); } }
    } else {
        let n = a.n.unwrap_or(if a.tier == "quick" { 500 } else { 5000 });
        for i in 0..n { todo.push((a.seed, i)); }
    }
    let mut st = CStats::default();
    let (mut evals, mut nontrivial, mut harness_errors) = (0u64, 0u64, 0u64);
    let mut distinct = std::collections::HashSet::new();
    let mut samples: Vec<String> = vec![];
    let mut fails_json: Vec<String> = vec![];
    for (seed, idx) in todo {
        evals += 1;
        let head = format!("conc-gated seed={seed} case={idx}");
        match std::panic::catch_unwind(|| gated_case::<S>(seed, idx)) {
            Ok(g) => {
                for (o, i) in &g.lines { out.line(o, i); }
                st.add(&g.st);
                let text = g.lines.iter().map(|(o, _)| o.as_str()).collect::<Vec<_>>().join("\n");
                let nt = g.st.parks.iter().sum::<u64>() > 0 && g.st.writes > 0 && g.st.gets_with_a_step_of_another_task_inside > 0;
                if nt && distinct.insert(text.clone()) { nontrivial += 1; }
                if nt && samples.len() < 3 && idx % 3 == 0 { samples.push(short(&format!("[{}] {}", g.scen, text.replace('\n', "; ")))); }
                let mut seen = std::collections::HashSet::new();
                for f in g.fails { if seen.insert(f.sig.clone()) { fails_json.push(format!("{{\"sig\":{},\"desc\":{},\"case\":{}}}", jstr(&f.sig), jstr(&format!("[{}] {}", g.scen, f.desc)), jstr(&format!("{head}\n{text}")))); } }
            }
            Err(e) => {
                harness_errors += 1;
                let msg = e.downcast_ref::<String>().cloned().or_else(|| e.downcast_ref::<&str>().map(|s| s.to_string())).unwrap_or_default();
                fails_json.push(format!("{{\"sig\":\"panic\",\"desc\":{},\"case\":{}}}", jstr(&format!("panic while running the gated case: {msg}")), jstr(&head)));
            }
        }
    }
    let report = format!("{{\"evaluations\":{},\"distinct_nontrivial\":{},\"rule\":{},\"samples\":[{}],\"distribution\":{},\"oracle_failures\":[{}]}}",
        evals, nontrivial, jstr("gated schedule in which a worker was parked at a gate at least once, with at least one write and at least one get that overlaps another task's operation"),
        samples.iter().map(|s| jstr(s)).collect::<Vec<_>>().join(","), st.json(harness_errors), fails_json.join(","));
    out.finish(&report);
}

// ------------------------------------------------------------------------------------------------
// --conc-stress: free-running threads on the real set cache, judged by the per-element regular-semantics oracle only
// ------------------------------------------------------------------------------------------------
thread_local! { static TL_FETCH: std::cell::Cell<(u64, u64)> = const { std::cell::Cell::new((0, 0)) }; } // (sets created, store scans) on this thread
fn tl_note(created: bool) { let _ = TL_FETCH.try_with(|c| { let (a, b) = c.get(); c.set(if created { (a + 1, b) } else { (a, b + 1) }); }); }
static STRESS_TICK: AtomicU64 = AtomicU64::new(1);
struct SOp { thread: usize, key: u64, kind: u8, x: u64, inv: u64, resp: u64, set: BTreeSet<u64>, fetched: bool, streamed: bool }
#[derive(Default)]
struct SStats { rounds: u64, threads: BTreeMap<u64, u64>, caps: BTreeMap<u64, u64>, gets: u64, gets_overlapping_a_write: u64, elements_decided_by_overlap: u64, writes: u64, fetches: u64, refetches_after_eviction: u64, streaming_reads: u64, in_memory_reads: u64,
    batches: u64, fresh_key_reads: u64, final_gets: u64, big_rounds: u64, max_set: u64 }
fn stress_round<S: SentinelCol>(rng: &mut Rng, nops: u64, st: &mut SStats) -> Vec<Failure> {
    let nthreads = rng.range(4, 8) as usize;
    let nkeys = rng.range(2, 3);
    let cap = rng.range(1, 4);
    let big = rng.chance(1, 4);
    let per = 4u64; // elements owned by a thread in every key: i, i+n, i+2n, i+3n
    let kv = HarnessKv::default();
    let mut db0: BTreeMap<u64, BTreeSet<u64>> = BTreeMap::new();
    for k in 1..=nkeys {
        let s: BTreeSet<u64> = if big && k == 1 { (0..rng.range(1020, 1040)).collect() } else { (0..(nthreads as u64 * per)).filter(|_| rng.chance(1, 2)).collect() };
        kv.apply(s.iter().map(|x| KvOp::InsM(TypeId::of::<SCol>(), k, *x)).collect());
        db0.insert(k, s);
    }
    let mut env = Env::<S>::new(cap, kv.clone());
    st.rounds += 1; *st.threads.entry(nthreads as u64).or_default() += 1; *st.caps.entry(cap).or_default() += 1; if big { st.big_rounds += 1; }
    let begin_lock = Mutex::new(());
    let nbatches = AtomicU64::new(0);
    let fresh = AtomicU64::new(5_000_000);
    let fresh_reads = AtomicU64::new(0);
    let stop = std::sync::atomic::AtomicBool::new(false);
    let seeds: Vec<u64> = (0..nthreads).map(|_| rng.next()).collect();
    let pacer_seed = rng.next();
    let setm = env.setm.clone();
    let (wm, sent) = (env.wm.as_ref().unwrap(), &env.sent);
    let mut all: Vec<SOp> = vec![];
    let mut thread_panics = 0;
    std::thread::scope(|sc| {
        let pacer = {
            let (kv, stop) = (kv.clone(), &stop);
            sc.spawn(move || {
                let mut r = Rng::new(pacer_seed);
                while !stop.load(Ordering::SeqCst) {
                    if r.chance(1, 2) {
                        // both gates wide open for a while
                        { kv.0.gate.lock().unwrap().open = true; kv.0.gate_cv.notify_all(); }
                        { AC.lock().unwrap().open = true; AC_CV.notify_all(); }
                        std::thread::sleep(Duration::from_micros(r.range(200, 3000)));
                        { kv.0.gate.lock().unwrap().open = false; }
                        { AC.lock().unwrap().open = false; }
                    } else {
                        // a trickle of single permits
                        for _ in 0..r.range(1, 6) {
                            if r.chance(1, 2) { kv.allow_commits(1); } else { let mut g = AC.lock().unwrap(); g.permits += 1; AC_CV.notify_all(); }
                            std::thread::sleep(Duration::from_micros(r.range(20, 600)));
                        }
                    }
                }
            })
        };
        let mut hs = vec![];
        for i in 0..nthreads {
            let (setm, begin_lock, nbatches, fresh, fresh_reads, seed) = (setm.clone(), &begin_lock, &nbatches, &fresh, &fresh_reads, seeds[i]);
            hs.push(std::thread::Builder::new().name(format!("c09-stress-{i}")).spawn_scoped(sc, move || {
                let rt = tokio::runtime::Builder::new_current_thread().build().unwrap();
                let mut r = Rng::new(seed);
                let mut ops: Vec<SOp> = Vec::with_capacity(nops as usize);
                let mut open: Option<(BatchBox, u64, u64)> = None; // batch, sentinel number, operations in it
                for _ in 0..nops {
                    let k = r.range(1, nkeys);
                    match r.below(100) {
                        0..=39 => {
                            let (c0, s0) = TL_FETCH.with(|c| c.get());
                            let inv = STRESS_TICK.fetch_add(1, Ordering::SeqCst);
                            let set: BTreeSet<u64> = rt.block_on(setm.get(&HKey(k))).collect();
                            let resp = STRESS_TICK.fetch_add(1, Ordering::SeqCst);
                            let (c1, s1) = TL_FETCH.with(|c| c.get());
                            ops.push(SOp { thread: i, key: k, kind: 0, x: 0, inv, resp, set, fetched: c1 > c0, streamed: c1 == c0 && s1 > s0 });
                        }
                        40..=74 => {
                            if open.is_none() {
                                let _g = begin_lock.lock().unwrap(); // sentinel numbers must increase in epoch order
                                let b = wm.new_write_batch();
                                open = Some((BatchBox(Some(b)), SENT_NEXT.fetch_add(1, Ordering::SeqCst), 0));
                            }
                            let x = i as u64 + nthreads as u64 * r.below(per);
                            let ins = r.chance(1, 2);
                            let ob = open.as_mut().unwrap();
                            let b = ob.0 .0.as_mut().unwrap();
                            let inv = STRESS_TICK.fetch_add(1, Ordering::SeqCst);
                            if ins { rt.block_on(setm.insert(HKey(k), x, b)); } else { rt.block_on(setm.remove(&HKey(k), &x, b)); }
                            let resp = STRESS_TICK.fetch_add(1, Ordering::SeqCst);
                            ob.2 += 1;
                            ops.push(SOp { thread: i, key: k, kind: if ins { 1 } else { 2 }, x, inv, resp, set: BTreeSet::new(), fetched: false, streamed: false });
                        }
                        75..=84 => {
                            if let Some((mut bb, seq, _)) = open.take() {
                                let mut b = bb.0.take().unwrap();
                                rt.block_on(sent.insert(SentKey(seq), 0, &mut b));
                                wm.submit_write_batch(b);
                                nbatches.fetch_add(1, Ordering::SeqCst);
                            }
                        }
                        85..=94 => {
                            for _ in 0..r.range(1, 12) { let f = fresh.fetch_add(1, Ordering::SeqCst); let _: Vec<u64> = rt.block_on(setm.get(&HKey(f))).collect(); fresh_reads.fetch_add(1, Ordering::SeqCst); }
                        }
                        _ => { if r.chance(1, 2) { std::thread::yield_now(); } else { std::thread::sleep(Duration::from_micros(r.range(1, 200))); } }
                    }
                }
                if let Some((mut bb, seq, _)) = open.take() {
                    let mut b = bb.0.take().unwrap();
                    rt.block_on(sent.insert(SentKey(seq), 0, &mut b));
                    wm.submit_write_batch(b);
                    nbatches.fetch_add(1, Ordering::SeqCst);
                }
                ops
            }).expect("spawn"));
        }
        for h in hs { match h.join() { Ok(o) => all.extend(o), Err(_) => thread_panics += 1 } }
        stop.store(true, Ordering::SeqCst);
        let _ = pacer.join();
    });
    // drain the pipeline completely: every batch committed, then the after-commit thread quiet (its per-batch counter
    // `done` is not exact here: TinyLFU maintenance on that thread may hash the sentinel key of a LATER batch early)
    let nb = nbatches.load(Ordering::SeqCst);
    kv.open_gate(); ac_open();
    let t0 = Instant::now();
    while kv.committed() < nb {
        if t0.elapsed() > Duration::from_secs(30) { panic!("harness: stress pipeline does not drain (batches {nb}, committed {}, thread panics {thread_panics})", kv.committed()); }
        std::thread::sleep(Duration::from_millis(1));
    }
    let (mut last, mut quiet) = (AC_CALLS.load(Ordering::SeqCst), Instant::now());
    while quiet.elapsed() < Duration::from_millis(30) {
        std::thread::sleep(Duration::from_millis(2));
        let c = AC_CALLS.load(Ordering::SeqCst);
        if c != last { last = c; quiet = Instant::now(); }
        if t0.elapsed() > Duration::from_secs(40) { panic!("harness: the after-commit thread never gets quiet"); }
    }
    if thread_panics > 0 { panic!("harness: {thread_panics} stress thread(s) panicked"); }
    st.batches += nb; st.fresh_key_reads += fresh_reads.load(Ordering::SeqCst);
    // oracle
    let mut fails = vec![];
    let mut by: BTreeMap<(u64, u64), Vec<&SOp>> = BTreeMap::new();
    for o in all.iter().filter(|o| o.kind != 0) { by.entry((o.key, o.x)).or_default().push(o); }
    for v in by.values_mut() {
        v.sort_by_key(|o| o.inv);
        for w in v.windows(2) { if w[0].resp > w[1].inv || w[0].thread != w[1].thread { panic!("harness: stress generated overlapping writes of one element"); } }
    }
    let mut fetched_before: BTreeSet<u64> = BTreeSet::new();
    let mut gets: Vec<&SOp> = all.iter().filter(|o| o.kind == 0).collect();
    gets.sort_by_key(|o| o.inv);
    for g in gets {
        st.gets += 1; st.max_set = st.max_set.max(g.set.len() as u64);
        if g.fetched { st.fetches += 1; if !fetched_before.insert(g.key) { st.refetches_after_eviction += 1; } } else if g.streamed { st.streaming_reads += 1; } else { st.in_memory_reads += 1; }
        let init = &db0[&g.key];
        let mut overl = false;
        let universe: BTreeSet<u64> = init.iter().chain(g.set.iter()).copied().chain(by.keys().filter(|(k, _)| *k == g.key).map(|(_, x)| *x)).collect();
        for x in universe {
            let mut base = init.contains(&x);
            let mut allowed = [false, false];
            let mut o = vec![];
            if let Some(ws) = by.get(&(g.key, x)) {
                for w in ws { if w.resp < g.inv { base = w.kind == 1; } else if w.inv < g.resp { allowed[usize::from(w.kind == 1)] = true; o.push(format!("{}({x}) by thread {} [{}..{}]", if w.kind == 1 { "insert" } else { "remove" }, w.thread, w.inv, w.resp)); } }
            }
            if !o.is_empty() { overl = true; if allowed[0] != allowed[1] && allowed[usize::from(base)] == false { st.elements_decided_by_overlap += 1; } }
            allowed[usize::from(base)] = true;
            let has = g.set.contains(&x);
            if !allowed[usize::from(has)] && fails.len() < 5 {
                let hist: Vec<String> = by.get(&(g.key, x)).map(|ws| ws.iter().map(|w| format!("{}[{}..{}]", if w.kind == 1 { "ins" } else { "rem" }, w.inv, w.resp)).collect()).unwrap_or_default();
                fails.push(Failure { sig: "conc-stress-set-read-outside-regular-bounds".into(), desc: format!("threads={nthreads} cap={cap} keys={nkeys}: get of key {} by thread {} [{}..{}] ({}) returned {}: element {x} is {} although the last write of it that returned before the get was invoked says {} and the overlapping writes are [{}]; all writes of the element: {}",
                    g.key, g.thread, g.inv, g.resp, if g.fetched { "fetch" } else if g.streamed { "streaming" } else { "in-memory" }, short(&fmt_set(&g.set)), if has { "present" } else { "absent" }, if base { "present" } else { "absent" }, o.join(", "), short(&hist.join(" "))) });
            }
        }
        if overl { st.gets_overlapping_a_write += 1; }
    }
    st.writes += all.iter().filter(|o| o.kind != 0).count() as u64;
    // final quiescent state
    for k in 1..=nkeys {
        let mut want = db0[&k].clone();
        for ((kk, x), ws) in &by { if *kk == k { if ws.last().unwrap().kind == 1 { want.insert(*x); } else { want.remove(x); } } }
        let got: BTreeSet<u64> = env.rt.block_on(env.setm.get(&HKey(k))).collect();
        st.final_gets += 1;
        if got != want {
            let d: Vec<u64> = got.symmetric_difference(&want).copied().take(8).collect();
            fails.push(Failure { sig: "conc-stress-final-set-differs".into(), desc: format!("threads={nthreads} cap={cap} keys={nkeys}: after all threads were joined and the write pipeline drained, get of key {k} returned {} but the last writes say {} (differing elements {:?})", short(&fmt_set(&got)), short(&fmt_set(&want)), d) });
        }
    }
    env.shutdown();
    fails
}
fn conc_stress_main<S: SentinelCol>(a: &qbice_verif_harness::Args, out: Out) {
    let (rounds, nops) = if a.tier == "quick" { (a.n.unwrap_or(10), 500) } else { (a.n.unwrap_or(100), 600) };
    let mut st = SStats::default();
    let mut fails_json: Vec<String> = vec![];
    let (mut evals, mut harness_errors) = (0u64, 0u64);
    let mut seen = std::collections::HashSet::new();
    for i in 0..rounds {
        evals += 1;
        let mut rng = case_rng(a.seed ^ 0x5712e55, i);
        let r = std::panic::catch_unwind(std::panic::AssertUnwindSafe(|| stress_round::<S>(&mut rng, nops, &mut st)));
        let case = format!("conc-stress seed={} round={i} tier={} (free-running threads: re-run `cache --conc-stress --seed {} --tier {}`; the interleaving itself is not replayable)", a.seed, a.tier, a.seed, a.tier);
        match r {
            Ok(fs) => { for f in fs { if seen.insert(f.sig.clone()) { fails_json.push(format!("{{\"sig\":{},\"desc\":{},\"case\":{}}}", jstr(&f.sig), jstr(&f.desc), jstr(&case))); } } }
            Err(e) => {
                harness_errors += 1;
                let msg = e.downcast_ref::<String>().cloned().or_else(|| e.downcast_ref::<&str>().map(|s| s.to_string())).unwrap_or_default();
                fails_json.push(format!("{{\"sig\":\"panic\",\"desc\":{},\"case\":{}}}", jstr(&format!("panic in the stress round: {msg}")), jstr(&case)));
            }
        }
    }
    let h = |m: &BTreeMap<u64, u64>| m.iter().map(|(k, v)| format!("\"{k}\":{v}")).collect::<Vec<_>>().join(",");
    let dist = format!("{{\"rounds\":{},\"threads_histogram\":{{{}}},\"capacity_histogram\":{{{}}},\"rounds_with_a_set_around_the_threshold\":{},\"gets\":{},\"gets_overlapping_a_write\":{},\"writes\":{},\"batches\":{},\"fetches\":{},\"refetches_after_eviction\":{},\"streaming_reads\":{},\"in_memory_reads\":{},\"fresh_key_reads\":{},\"final_quiescent_gets\":{},\"max_set_size\":{},\"harness_errors\":{}}}",
        st.rounds, h(&st.threads), h(&st.caps), st.big_rounds, st.gets, st.gets_overlapping_a_write, st.writes, st.batches, st.fetches, st.refetches_after_eviction, st.streaming_reads, st.in_memory_reads, st.fresh_key_reads, st.final_gets, st.max_set, harness_errors);
    let report = format!("{{\"evaluations\":{},\"distinct_nontrivial\":{},\"rule\":{},\"samples\":[],\"distribution\":{},\"oracle_failures\":[{}]}}",
        st.gets, st.gets_overlapping_a_write, jstr("get (of free-running threads) that overlaps at least one write of an element of its key; every get is checked against per-element regular semantics, every key against the reference after quiescence"), dist, fails_json.join(","));
    out.finish(&report);
}
// <<< CONC-END

// ------------------------------------------------------------------------------------------------
macro_rules! pick_sent { ($idx:expr, $f:ident) => { match $idx { 0 => $f::<Sent0>, 1 => $f::<Sent1>, 2 => $f::<Sent2>, 3 => $f::<Sent3>, 4 => $f::<Sent4>, _ => $f::<Sent5> } }; }
fn main() {
    let a = args();
    let mut out = Out::new(&a.out);
    let dash = a.rest.iter().any(|x| x == "--dash");
    if !a.rest.iter().any(|x| x == "--verbose") { std::panic::set_hook(Box::new(|_| {})); }
    // calibration: a sentinel column that the after-commit pass visits after SCol
    let cands: [fn() -> bool; 6] = [sentinel_is_last::<Sent0>, sentinel_is_last::<Sent1>, sentinel_is_last::<Sent2>, sentinel_is_last::<Sent3>, sentinel_is_last::<Sent4>, sentinel_is_last::<Sent5>];
    let mut sidx = None;
    for (i, f) in cands.iter().enumerate() { if std::panic::catch_unwind(|| f()).unwrap_or(false) { sidx = Some(i); break; } }
    let sidx = match sidx { Some(i) => i, None => { eprintln!("harness: no sentinel column is notified last – the after-commit pass changed"); std::process::exit(2); } };
    if a.rest.iter().any(|x| x == "--conc-stress") {
        let f: fn(&qbice_verif_harness::Args, Out) = pick_sent!(sidx, conc_stress_main);
        f(&a, out);
        return;
    }
    if a.rest.iter().any(|x| x == "--conc-gated") {
        let f: fn(&qbice_verif_harness::Args, Out) = pick_sent!(sidx, conc_gated_main);
        f(&a, out);
        return;
    }
    let run: Runner = pick_sent!(sidx, run_case);
    let mut st = Stats::default();
    let mut fails_json: Vec<String> = vec![];
    let mut samples: Vec<String> = vec![];
    let mut distinct = std::collections::HashSet::new();
    let (mut evals, mut nontrivial, mut harness_errors) = (0u64, 0u64, 0u64);
    let mut conc_note = String::new();

    if a.rest.iter().any(|x| x == "--stale-fill") {
        let scen: fn(u64, u64) -> (Option<u64>, Option<u64>, Option<u64>) = pick_sent!(sidx, scenario_stale_fill);
        let (mut stale, mut runs) = (0, 0);
        let mut first = String::new();
        for cap in [1u64, 2, 4, 8] { for pressure in [64u64, 512] {
            let r = std::panic::catch_unwind(|| scen(cap, pressure));
            runs += 1;
            if let Ok((t1, after, want)) = r { if after != want { stale += 1; if first.is_empty() { first = format!("cap={cap} pressure={pressure}: filling get returned {:?}, a later get returned {:?}, latest write {:?}", t1, after, want); } } }
        } }
        conc_note = format!("stale-fill runs={runs} stale={stale} {first}");
        println!("{conc_note}");
        if stale > 0 {
            fails_json.push(format!("{{\"sig\":\"wide-stale-fill-two-threads\",\"desc\":{},\"case\":\"scenario stale-fill (run the harness with --stale-fill)\"}}",
                jstr(&format!("two threads: a cache fill whose store read precedes another task's write+commit+un-pin+evict installs the old value; {stale}/{runs} runs stale; {first}"))));
        }
    }

    if a.rest.iter().any(|x| x == "--fill-vs-write") {
        let scen: fn(u64, bool) -> (Option<u64>, Option<u64>, Option<u64>) = pick_sent!(sidx, scenario_fill_vs_write);
        let (mut bad, mut runs) = (0, 0);
        let mut first = String::new();
        for cap in [1u64, 4, 16] { for remove in [false, true] {
            let r = std::panic::catch_unwind(|| scen(cap, remove));
            runs += 1;
            match r {
                Ok((t1, after, want)) => { if after != want || t1 != want { bad += 1; if first.is_empty() { first = format!("cap={cap} remove={remove}: filling get returned {:?}, a later get returned {:?}, latest write {:?}", t1, after, want); } } }
                Err(_) => { bad += 1; if first.is_empty() { first = "scenario panicked".into(); } }
            }
        } }
        conc_note.push_str(&format!(" fill-vs-write runs={runs} bad={bad} {first}"));
        println!("fill-vs-write runs={runs} bad={bad} {first}");
        if bad > 0 {
            fails_json.push(format!("{{\"sig\":\"fill-overwrote-pinned-write\",\"desc\":{},\"case\":\"scenario fill-vs-write (run the harness with --fill-vs-write)\"}}",
                jstr(&format!("two threads: a cache fill that read the store before another task's (uncommitted, pinned) write overwrote or hid that write; {bad}/{runs} runs; {first}"))));
        }
    }

    if a.rest.iter().any(|x| x == "--set-fill-vs-insert") {
        let scen: fn(u64, bool) -> (BTreeSet<u64>, BTreeSet<u64>, BTreeSet<u64>) = pick_sent!(sidx, scenario_set_fill_vs_insert);
        let (mut bad, mut runs) = (0, 0);
        let mut first = String::new();
        for cap in [1u64, 4, 16] { for remove in [false, true] {
            let r = std::panic::catch_unwind(|| scen(cap, remove));
            runs += 1;
            match r {
                Ok((t1, after, want)) => { if after != want { bad += 1; if first.is_empty() { first = format!("cap={cap} remove={remove}: fetching get returned {}, a later get returned {}, expected {}", fmt_set(&t1), fmt_set(&after), fmt_set(&want)); } } }
                Err(_) => { bad += 1; if first.is_empty() { first = "scenario panicked".into(); } }
            }
        } }
        conc_note.push_str(&format!(" set-fill-vs-insert runs={runs} stale={bad} {first}"));
        println!("set-fill-vs-insert runs={runs} stale={bad} {first}");
        if bad > 0 {
            fails_json.push(format!("{{\"sig\":\"set-stale-fill-two-threads\",\"desc\":{},\"case\":\"scenario set-fill-vs-insert (run the harness with --set-fill-vs-insert)\"}}",
                jstr(&format!("two threads, key-of-set cache: a get that took its staging snapshot before another task's insert/remove installs an in-memory set without that operation; {bad}/{runs} runs stale; {first}"))));
        }
    }

    if a.rest.iter().any(|x| x == "--scan-vs-flush") {
        let scen: fn(u64, bool, bool) -> Option<(BTreeSet<u64>, BTreeSet<u64>, BTreeSet<u64>)> = pick_sent!(sidx, scenario_scan_vs_commit_flush);
        let (mut bad, mut runs, mut skipped) = (0, 0, 0);
        let mut first = String::new();
        for (cap, evicted) in [(4u64, false), (1, false), (1, true), (2, true)] { for remove in [false, true] {
            let r = std::panic::catch_unwind(|| scen(cap, evicted, remove));
            match r {
                Ok(Some((t1, after, want))) => { runs += 1; if after != want || t1 != want { bad += 1; if first.is_empty() { first = format!("cap={cap} evicted-first={evicted} remove={remove}: the racing get returned {}, a later get returned {}, expected {}", fmt_set(&t1), fmt_set(&after), fmt_set(&want)); } } }
                Ok(None) => skipped += 1,
                Err(_) => { runs += 1; bad += 1; if first.is_empty() { first = "scenario panicked".into(); } }
            }
        } }
        conc_note.push_str(&format!(" scan-vs-flush runs={runs} wrong={bad} not-evicted={skipped} {first}"));
        println!("scan-vs-flush runs={runs} wrong={bad} not-evicted={skipped} {first}");
        if bad > 0 {
            fails_json.push(format!("{{\"sig\":\"set-scan-vs-commit-flush-two-threads\",\"desc\":{},\"case\":\"scenario scan-vs-flush (run the harness with --scan-vs-flush)\"}}",
                jstr(&format!("two threads, key-of-set cache: a batch whose commit and after-commit flush both fall between a read's store scan and its install is missing from the set that is returned / cached (the staging snapshot must be the one taken BEFORE the scan: theorem set_get_snapshot_before_scan); {bad}/{runs} runs wrong; {first}"))));
        }
        if runs < 6 {
            fails_json.push(format!("{{\"sig\":\"panic\",\"desc\":{},\"case\":\"scenario scan-vs-flush\"}}", jstr(&format!("scan-vs-flush: only {runs} of 8 variants could be run ({skipped} could not evict the set)"))));
        }
    }

    let mut reff = String::new();
    let mut cases: Vec<Case> = vec![];
    if let Some(p) = &a.replay {
        let raw = std::fs::read_to_string(p).expect("replay file");
        let text = if raw.trim_start().starts_with('{') { extract_case(&raw).expect("replay json has no \"case\"") } else { raw };
        if !text.starts_with("scenario") { cases.push(Case::parse(&text).expect("unparsable case")); }
    } else {
        let unrestricted = !a.rest.iter().any(|x| x == "--restricted");
        let n = a.n.unwrap_or(if a.tier == "quick" { 150 } else { 1500 });
        let mut rng = Rng::new(a.seed);
        for i in 0..n { let big = i % 5 == 4; cases.push(gen_case(&mut rng, big, !unrestricted)); }
    }
    for case in &cases {
        let mut lines = vec![];
        let text = case.text();
        let r = std::panic::catch_unwind(std::panic::AssertUnwindSafe(|| run(case, dash, &mut lines, &mut st)));
        evals += 1;
        match r {
            Ok(fails) => {
                for (o, i, r) in &lines { out.line(o, i); reff.push_str(r); reff.push('\n'); }
                let nt = lines.iter().any(|(o, _, _)| o.contains("obs=") && !o.ends_with("obs=0") && !o.ends_with("obs=0,0")) && lines.iter().any(|(o, _, _)| o == "commit");
                if nt && distinct.insert(text.clone()) { nontrivial += 1; }
                if samples.len() < 3 && nt { samples.push(short(&text.replace('\n', "; "))); }
                let mut seen = std::collections::HashSet::new();
                for f in fails {
                    if !seen.insert(f.sig.clone()) { continue; }
                    let small = if a.replay.is_some() || a.rest.iter().any(|x| x == "--no-shrink") { case.clone() } else { shrink(run, case, dash, &f.sig) };
                    fails_json.push(format!("{{\"sig\":{},\"desc\":{},\"case\":{},\"orig\":{}}}", jstr(&f.sig), jstr(&f.desc), jstr(&small.text()), jstr(&text)));
                }
            }
            Err(e) => {
                harness_errors += 1;
                let msg = e.downcast_ref::<String>().cloned().or_else(|| e.downcast_ref::<&str>().map(|s| s.to_string())).unwrap_or_default();
                // keep the streams aligned: a case that died contributes no lines
                fails_json.push(format!("{{\"sig\":\"panic\",\"desc\":{},\"case\":{}}}", jstr(&format!("panic while running the case: {msg}")), jstr(&text)));
            }
        }
    }
    let caps = st.caps.iter().map(|(k, v)| format!("\"{k}\":{v}")).collect::<Vec<_>>().join(",");
    let dist = format!(
        "{{\"ops\":{},\"reads\":{},\"wide_reads\":{},\"wide_store_reads\":{},\"wide_store_rereads_after_eviction\":{},\"wide_reads_while_pinned\":{},\"wide_negative_hits\":{},\"set_reads_in_memory\":{},\"set_reads_streaming\":{},\"set_reads_fetching\":{},\"set_refetches_after_eviction\":{},\"set_fetches_over_threshold\":{},\"set_reads_with_staged_ops\":{},\"reads_between_commit_and_notify\":{},\"max_set_size\":{},\"commits\":{},\"notifies\":{},\"capacity_histogram\":{{{}}},\"sentinel_column\":{},\"harness_errors\":{}}}",
        st.ops, st.reads, st.wide_reads, st.wide_store_reads, st.wide_rereads, st.wide_reads_pinned, st.neg_hits, st.set_mem_hits, st.set_stream, st.set_fetch, st.set_refetch, st.set_spill_reads, st.set_reads_staged, st.reads_between_commit_and_notify, st.max_set, st.commits, st.notifies, caps, sidx, harness_errors);
    let report = format!(
        "{{\"evaluations\":{},\"distinct_nontrivial\":{},\"rule\":{},\"samples\":[{}],\"distribution\":{},\"concurrency\":{},\"oracle_failures\":[{}]}}",
        evals, nontrivial, jstr("case has at least one background commit and at least one read that went to the store (miss / streaming / fetch)"),
        samples.iter().map(|s| jstr(s)).collect::<Vec<_>>().join(","), dist, jstr(&conc_note), fails_json.join(","));
    std::fs::write(format!("{}/ref.txt", a.out), reff).unwrap();
    out.finish(&report);
}
fn extract_case(json: &str) -> Option<String> {
    let i = json.find("\"case\"")?;
    let rest = &json[i + 6..];
    let q = rest.find('"')?;
    let mut out = String::new();
    let mut it = rest[q + 1..].chars();
    while let Some(c) = it.next() {
        match c {
            '"' => return Some(out),
            '\\' => match it.next()? { 'n' => out.push('\n'), 't' => out.push('\t'), '"' => out.push('"'), '\\' => out.push('\\'), 'u' => { let h: String = (0..4).filter_map(|_| it.next()).collect(); out.push(char::from_u32(u32::from_str_radix(&h, 16).ok()?)?); } o => out.push(o) },
            c => out.push(c),
        }
    }
    None
}
