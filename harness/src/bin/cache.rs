//! C09 harness: the storage caches (`CacheSingleMap`, `CacheDynamicMap`, `CacheKeyOfSetMap`) driven
//! through the public storage-engine traits on `DbBacked<HarnessKv>`.
//!
//! `HarnessKv` is an in-memory `KvDatabase` written here whose `commit` blocks on a gate, so the
//! case decides how far the background writer has got (`commit` op = let exactly one batch
//! through and wait until it is applied).  After-commit notifications (un-pin / flush of the
//! staging log) run on the write manager's own thread; `sync` waits for all of them without any
//! hook in /repo: a sentinel batch is pushed through the pipeline and the `Hash` impl of the
//! sentinel key reports when it is looked up on the after-commit thread (the after-commit worker
//! is a single FIFO thread, so everything submitted before has been notified by then).
//!
//! What the implementation is asked and what it answers is written to ops.txt / impl.txt; each
//! read line also carries what the harness *observed* (`obs=` number of store reads / set
//! fetches / scans during the read), so that the Lean driver can validate the run against the
//! LTS model (a store read is only admissible if the model can have evicted the entry).
//! The oracle is a reference BTreeMap/BTreeSet: every read must equal the reference.
#![allow(clippy::all)]
use std::any::{Any, TypeId};
use std::collections::{BTreeMap, BTreeSet, HashMap};
use std::hash::{Hash, Hasher};
use std::sync::atomic::{AtomicU64, Ordering};
use std::sync::{Arc, Condvar, Mutex};
use std::time::{Duration, Instant};

use qbice_serialize::{Decode, Decoder, Encode, Encoder, Plugin, session::Session};
use qbice_stable_type_id::Identifiable;
use qbice_storage::dynamic_map::DynamicMap;
use qbice_storage::key_of_set_map::{ConcurrentSet, KeyOfSetMap};
use qbice_storage::kv_database::{
    DiscriminantEncoding, KeyOfSetColumn, KvDatabase, SerializationBuffer, WideColumn, WideColumnValue, WriteBatch,
};
use qbice_storage::single_map::SingleMap;
use qbice_storage::storage_engine::db_backed::{Configuration, DbBacked};
use qbice_storage::storage_engine::StorageEngine;
use qbice_storage::write_manager::WriteManager;
use qbice_verif_harness::{args, jstr, Out, Rng};

// ------------------------------------------------------------------------------------------------
// columns
// ------------------------------------------------------------------------------------------------
#[derive(Debug, Identifiable)]
#[stable_type_id_crate(qbice_stable_type_id)]
pub struct WCol;
impl WideColumn for WCol {
    type Discriminant = ();
    type Key = HKey;
    fn discriminant_encoding() -> DiscriminantEncoding { DiscriminantEncoding::Prefixed }
}
impl WideColumnValue<WCol> for u64 {
    fn discriminant() {}
}

#[derive(Debug, Identifiable)]
#[stable_type_id_crate(qbice_stable_type_id)]
pub struct DCol;
impl WideColumn for DCol {
    type Discriminant = u8;
    type Key = HKey;
    fn discriminant_encoding() -> DiscriminantEncoding { DiscriminantEncoding::Suffixed }
}
impl WideColumnValue<DCol> for u64 {
    fn discriminant() -> u8 { 0 }
}
impl WideColumnValue<DCol> for i64 {
    fn discriminant() -> u8 { 1 }
}

#[derive(Debug, Identifiable)]
#[stable_type_id_crate(qbice_stable_type_id)]
pub struct SCol;
impl KeyOfSetColumn for SCol {
    type Key = HKey;
    type Element = u64;
}

/// Key type of the maps under test.  Its `Hash` impl is the harness's handle on the write manager's
/// after-commit thread (no hook in /repo): the first key that thread hashes for a batch is the
/// `staging/get_map` lookup of `flush_staging`, and it waits there for a `notify` permit.
#[derive(Debug, Clone, PartialEq, Eq)]
pub struct HKey(pub u64);
impl Hash for HKey {
    fn hash<H: Hasher>(&self, state: &mut H) {
        if std::thread::current().name() == Some("bg_writer_after_commit") { ac_on_hash(None, self.0); }
        self.0.hash(state);
    }
}
impl Encode for HKey {
    fn encode<E: Encoder + ?Sized>(&self, e: &mut E, _p: &Plugin, _s: &mut Session) -> std::io::Result<()> { e.emit_u64(self.0) }
}
impl Decode for HKey {
    fn decode<D: Decoder + ?Sized>(d: &mut D, _p: &Plugin, _s: &mut Session) -> std::io::Result<Self> { Ok(HKey(d.read_u64()?)) }
}

/// Sentinel: every batch the harness submits ends with one write to a sentinel key-of-set column.
/// `WriteBatch::after_commit` notifies all wide columns, then all key-of-set columns; a sentinel
/// column that is iterated after `SCol` (found by calibration at start-up, the order is a function of
/// the TypeIds) is therefore notified last, and its lookup on the after-commit thread tells the
/// harness that every notification of that batch has completed.
#[derive(Debug, Clone, PartialEq, Eq)]
pub struct SentKey(u64);
impl Hash for SentKey {
    fn hash<H: Hasher>(&self, state: &mut H) {
        if std::thread::current().name() == Some("bg_writer_after_commit") { ac_on_hash(Some(self.0), self.0); }
        self.0.hash(state);
    }
}
impl Encode for SentKey {
    fn encode<E: Encoder + ?Sized>(&self, e: &mut E, _p: &Plugin, _s: &mut Session) -> std::io::Result<()> { e.emit_u64(self.0) }
}
impl Decode for SentKey {
    fn decode<D: Decoder + ?Sized>(d: &mut D, _p: &Plugin, _s: &mut Session) -> std::io::Result<Self> { Ok(SentKey(d.read_u64()?)) }
}
macro_rules! sent_col { ($n:ident) => {
    #[derive(Debug, Identifiable)]
    #[stable_type_id_crate(qbice_stable_type_id)]
    pub struct $n;
    impl KeyOfSetColumn for $n { type Key = SentKey; type Element = u64; }
} }
sent_col!(Sent0); sent_col!(Sent1); sent_col!(Sent2); sent_col!(Sent3); sent_col!(Sent4); sent_col!(Sent5);

/// Gate of the after-commit thread (process-global: `Hash::hash` has no context; one Env at a time).
#[derive(Default)]
struct AcGate { permits: u64, in_batch: bool, done: u64, open: bool, last_sent: u64, order: Vec<(bool, u64)> }
static AC: Mutex<AcGate> = Mutex::new(AcGate { permits: 0, in_batch: false, done: 0, open: false, last_sent: 0, order: Vec::new() });
static AC_CV: Condvar = Condvar::new();
fn ac_on_hash(sent: Option<u64>, key: u64) {
    let mut g = AC.lock().unwrap();
    if !g.in_batch {
        let t0 = Instant::now();
        while g.permits == 0 && !g.open {
            let (g2, _) = AC_CV.wait_timeout(g, Duration::from_millis(200)).unwrap();
            g = g2;
            if t0.elapsed() > Duration::from_secs(600) { g.open = true; }
        }
        if !g.open { g.permits -= 1; }
        g.in_batch = true;
    }
    if g.order.len() < 64 { g.order.push((sent.is_some(), key)); }
    if let Some(seq) = sent {
        if seq > g.last_sent { g.last_sent = seq; g.in_batch = false; g.done += 1; AC_CV.notify_all(); }
    }
}
fn ac_reset() { let mut g = AC.lock().unwrap(); *g = AcGate::default(); }
fn ac_open() { let mut g = AC.lock().unwrap(); g.open = true; AC_CV.notify_all(); }
fn ac_allow_one_and_wait() {
    let mut g = AC.lock().unwrap();
    let want = g.done + 1;
    g.permits += 1;
    AC_CV.notify_all();
    let t0 = Instant::now();
    while g.done < want {
        let (g2, _) = AC_CV.wait_timeout(g, Duration::from_millis(200)).unwrap();
        g = g2;
        if t0.elapsed() > Duration::from_secs(30) { panic!("harness: after-commit notification {want} did not complete (after-commit thread renamed or sentinel order changed?)"); }
    }
}

// ------------------------------------------------------------------------------------------------
// HarnessKv: in-memory KvDatabase with a gated commit
// ------------------------------------------------------------------------------------------------
type AnyBox = Box<dyn Any + Send + Sync>;
enum KvOp {
    Put(TypeId, TypeId, u64, AnyBox),
    Del(TypeId, TypeId, u64),
    InsM(TypeId, u64, u64),
    DelM(TypeId, u64, u64),
}
fn key_u64<K: 'static>(k: &K) -> u64 {
    let a = k as &dyn Any;
    if let Some(x) = a.downcast_ref::<u64>() { *x } else if let Some(HKey(x)) = a.downcast_ref::<HKey>() { *x } else if let Some(SentKey(x)) = a.downcast_ref::<SentKey>() { *x | (1 << 63) } else { panic!("harness kv: unsupported key type") }
}
#[derive(Default)]
struct Gate { permits: u64, committed: u64, open: bool }
/// One-shot rendezvous inside `get_wide_column` (used by the two-thread scenarios).
#[derive(Default)]
struct ReadBlock { armed_key: Option<u64>, armed_scan: Option<u64>, reached: bool, release: bool, done: bool }
#[derive(Default)]
struct KvInner {
    wide: Mutex<HashMap<(TypeId, TypeId, u64), AnyBox>>,
    sets: Mutex<HashMap<(TypeId, u64), BTreeSet<u64>>>,
    gate: Mutex<Gate>,
    gate_cv: Condvar,
    wide_reads: AtomicU64,
    scans: AtomicU64,
    rb: Mutex<ReadBlock>,
    rb_cv: Condvar,
}
#[derive(Clone, Default)]
pub struct HarnessKv(Arc<KvInner>);
pub struct KvBuf(Vec<KvOp>);
pub struct KvBatch(Vec<KvOp>, HarnessKv);
impl SerializationBuffer for KvBuf {
    fn put<W: WideColumn, C: WideColumnValue<W>>(&mut self, key: &W::Key, value: &C) {
        self.0.push(KvOp::Put(TypeId::of::<W>(), TypeId::of::<C>(), key_u64(key), Box::new(value.clone())));
    }
    fn delete<W: WideColumn, C: WideColumnValue<W>>(&mut self, key: &W::Key) {
        self.0.push(KvOp::Del(TypeId::of::<W>(), TypeId::of::<C>(), key_u64(key)));
    }
    fn insert_member<C: KeyOfSetColumn>(&mut self, key: &C::Key, value: &C::Element) {
        self.0.push(KvOp::InsM(TypeId::of::<C>(), key_u64(key), key_u64(value)));
    }
    fn delete_member<C: KeyOfSetColumn>(&mut self, key: &C::Key, value: &C::Element) {
        self.0.push(KvOp::DelM(TypeId::of::<C>(), key_u64(key), key_u64(value)));
    }
}
impl WriteBatch for KvBatch {
    type SerializationBuffer = KvBuf;
    fn put<W: WideColumn, C: WideColumnValue<W>>(&mut self, key: &W::Key, value: &C) {
        self.0.push(KvOp::Put(TypeId::of::<W>(), TypeId::of::<C>(), key_u64(key), Box::new(value.clone())));
    }
    fn delete<W: WideColumn, C: WideColumnValue<W>>(&mut self, key: &W::Key) {
        self.0.push(KvOp::Del(TypeId::of::<W>(), TypeId::of::<C>(), key_u64(key)));
    }
    fn insert_member<C: KeyOfSetColumn>(&mut self, key: &C::Key, value: &C::Element) {
        self.0.push(KvOp::InsM(TypeId::of::<C>(), key_u64(key), key_u64(value)));
    }
    fn delete_member<C: KeyOfSetColumn>(&mut self, key: &C::Key, value: &C::Element) {
        self.0.push(KvOp::DelM(TypeId::of::<C>(), key_u64(key), key_u64(value)));
    }
    fn consume_serialization_buffer(&mut self, buffer: KvBuf) { self.0.extend(buffer.0); }
    fn commit(self) {
        let inner = &self.1 .0;
        {
            let mut g = inner.gate.lock().unwrap();
            let t0 = Instant::now();
            while !g.open && g.permits == 0 {
                let (g2, to) = inner.gate_cv.wait_timeout(g, Duration::from_secs(60)).unwrap();
                g = g2;
                if to.timed_out() && t0.elapsed() > Duration::from_secs(600) { panic!("harness kv: commit gate never opened"); }
            }
            if !g.open { g.permits -= 1; }
        }
        self.1.apply(self.0);
        let mut g = inner.gate.lock().unwrap();
        g.committed += 1;
        inner.gate_cv.notify_all();
    }
}
impl HarnessKv {
    fn apply(&self, ops: Vec<KvOp>) {
        let mut w = self.0.wide.lock().unwrap();
        let mut s = self.0.sets.lock().unwrap();
        for op in ops {
            match op {
                KvOp::Put(a, b, k, v) => { w.insert((a, b, k), v); }
                KvOp::Del(a, b, k) => { w.remove(&(a, b, k)); }
                KvOp::InsM(a, k, x) => { s.entry((a, k)).or_default().insert(x); }
                KvOp::DelM(a, k, x) => { if let Some(set) = s.get_mut(&(a, k)) { set.remove(&x); } }
            }
        }
    }
    fn allow_commits(&self, n: u64) { let mut g = self.0.gate.lock().unwrap(); g.permits += n; self.0.gate_cv.notify_all(); }
    fn open_gate(&self) { let mut g = self.0.gate.lock().unwrap(); g.open = true; self.0.gate_cv.notify_all(); }
    fn committed(&self) -> u64 { self.0.gate.lock().unwrap().committed }
    fn wait_committed(&self, n: u64) {
        let mut g = self.0.gate.lock().unwrap();
        let t0 = Instant::now();
        while g.committed < n {
            let (g2, _) = self.0.gate_cv.wait_timeout(g, Duration::from_millis(200)).unwrap();
            g = g2;
            if t0.elapsed() > Duration::from_secs(30) { panic!("harness: commit {n} did not happen (have {})", g.committed); }
        }
    }
    fn arm_read_block(&self, key: u64) { *self.0.rb.lock().unwrap() = ReadBlock { armed_key: Some(key), armed_scan: None, reached: false, release: false, done: false }; }
    fn arm_scan_block(&self, key: u64) { *self.0.rb.lock().unwrap() = ReadBlock { armed_key: None, armed_scan: Some(key), reached: false, release: false, done: false }; }
    fn wait_read_reached(&self) {
        let mut g = self.0.rb.lock().unwrap();
        let t0 = Instant::now();
        while !g.reached {
            let (g2, _) = self.0.rb_cv.wait_timeout(g, Duration::from_millis(100)).unwrap();
            g = g2;
            if t0.elapsed() > Duration::from_secs(30) { panic!("harness: blocked read never reached"); }
        }
    }
    /// the blocked thread reports that its operation returned (possibly without ever reaching the rendezvous)
    fn mark_done(&self) { let mut g = self.0.rb.lock().unwrap(); g.done = true; self.0.rb_cv.notify_all(); }
    /// waits until the rendezvous is reached (true) or the operation returned without reaching it (false)
    fn wait_reached_or_done(&self) -> bool {
        let mut g = self.0.rb.lock().unwrap();
        let t0 = Instant::now();
        while !g.reached && !g.done {
            let (g2, _) = self.0.rb_cv.wait_timeout(g, Duration::from_millis(100)).unwrap();
            g = g2;
            if t0.elapsed() > Duration::from_secs(30) { panic!("harness: blocked scan neither reached nor finished"); }
        }
        g.reached
    }
    fn release_read(&self) { let mut g = self.0.rb.lock().unwrap(); g.release = true; self.0.rb_cv.notify_all(); }
}
impl KvDatabase for HarnessKv {
    type WriteBatch = KvBatch;
    type SerializationBuffer = KvBuf;
    type ScanMemberIterator<C: KeyOfSetColumn> = std::iter::Map<std::vec::IntoIter<u64>, fn(u64) -> C::Element>;
    fn get_wide_column<W: WideColumn, C: WideColumnValue<W>>(&self, key: &W::Key) -> Option<C> {
        self.0.wide_reads.fetch_add(1, Ordering::SeqCst);
        let k = key_u64(key);
        let r = self.0.wide.lock().unwrap().get(&(TypeId::of::<W>(), TypeId::of::<C>(), k)).map(|b| b.downcast_ref::<C>().expect("harness kv: value type").clone());
        // optional rendezvous AFTER the value has been read (the fill window of the cache)
        let mut g = self.0.rb.lock().unwrap();
        if g.armed_key == Some(k) && TypeId::of::<W>() == TypeId::of::<WCol>() {
            g.armed_key = None;
            g.reached = true;
            self.0.rb_cv.notify_all();
            let t0 = Instant::now();
            while !g.release {
                let (g2, _) = self.0.rb_cv.wait_timeout(g, Duration::from_millis(100)).unwrap();
                g = g2;
                if t0.elapsed() > Duration::from_secs(60) { panic!("harness: blocked read never released"); }
            }
        }
        r
    }
    fn scan_members<C: KeyOfSetColumn>(&self, key: &C::Key) -> Self::ScanMemberIterator<C> {
        self.0.scans.fetch_add(1, Ordering::SeqCst);
        let v: Vec<u64> = self.0.sets.lock().unwrap().get(&(TypeId::of::<C>(), key_u64(key))).map(|s| s.iter().copied().collect()).unwrap_or_default();
        {
            // optional rendezvous AFTER the scan snapshot has been taken (inside the set cache's fetch)
            let k = key_u64(key);
            let mut g = self.0.rb.lock().unwrap();
            if g.armed_scan == Some(k) && TypeId::of::<C>() == TypeId::of::<SCol>() {
                g.armed_scan = None;
                g.reached = true;
                self.0.rb_cv.notify_all();
                let t0 = Instant::now();
                while !g.release {
                    let (g2, _) = self.0.rb_cv.wait_timeout(g, Duration::from_millis(100)).unwrap();
                    g = g2;
                    if t0.elapsed() > Duration::from_secs(60) { panic!("harness: blocked scan never released"); }
                }
            }
        }
        fn conv<E: 'static>(x: u64) -> E {
            let b: Box<dyn Any> = Box::new(x);
            *b.downcast::<E>().expect("harness kv: element type")
        }
        v.into_iter().map(conv::<C::Element> as fn(u64) -> C::Element)
    }
    fn write_batch(&self) -> KvBatch { KvBatch(Vec::new(), self.clone()) }
    fn serialization_buffer(&self) -> KvBuf { KvBuf(Vec::new()) }
}

// ------------------------------------------------------------------------------------------------
// ConcurrentSet with sorted iteration and a creation counter (one creation = one fetch from the store)
// ------------------------------------------------------------------------------------------------
static SET_CREATED: AtomicU64 = AtomicU64::new(0);
#[derive(Clone)]
pub struct SortedSet(Arc<Mutex<BTreeSet<u64>>>);
impl Default for SortedSet {
    fn default() -> Self { SET_CREATED.fetch_add(1, Ordering::SeqCst); SortedSet(Arc::new(Mutex::new(BTreeSet::new()))) }
}
impl ConcurrentSet for SortedSet {
    type Element = u64;
    type Iterator<'x> = std::vec::IntoIter<u64>;
    fn insert_element(&self, e: u64) -> bool { self.0.lock().unwrap().insert(e) }
    fn remove_element(&self, e: &u64) -> bool { self.0.lock().unwrap().remove(e) }
    fn len(&self) -> usize { self.0.lock().unwrap().len() }
    fn iter(&self) -> Self::Iterator<'_> { self.0.lock().unwrap().iter().copied().collect::<Vec<_>>().into_iter() }
}


// ------------------------------------------------------------------------------------------------
// environment
// ------------------------------------------------------------------------------------------------
pub trait SentinelCol: KeyOfSetColumn<Key = SentKey, Element = u64> {}
impl SentinelCol for Sent0 {} impl SentinelCol for Sent1 {} impl SentinelCol for Sent2 {}
impl SentinelCol for Sent3 {} impl SentinelCol for Sent4 {} impl SentinelCol for Sent5 {}
type Eng = DbBacked<HarnessKv>;
type Batch = <Eng as StorageEngine>::WriteTransaction;
struct Env<S: SentinelCol> {
    kv: HarnessKv,
    wm: Option<<Eng as StorageEngine>::WriteManager>,
    single: Arc<<Eng as StorageEngine>::SingleMap<WCol, u64>>,
    dynm: Arc<<Eng as StorageEngine>::DynamicMap<DCol>>,
    setm: Arc<<Eng as StorageEngine>::KeyOfSetMap<SCol, SortedSet>>,
    setd: Arc<<Eng as StorageEngine>::KeyOfSetMap<SCol, Arc<dashmap::DashSet<u64>>>>,
    sent: <Eng as StorageEngine>::KeyOfSetMap<S, SortedSet>,
    open: Option<Batch>,
    open_keys: Vec<u64>,
    committed_keys: std::collections::VecDeque<Vec<u64>>,
    submitted_keys: std::collections::VecDeque<Vec<u64>>,
    submitted: u64,
    notified: u64,
    fresh: u64,
    rt: tokio::runtime::Runtime,
}
static SENT_NEXT: AtomicU64 = AtomicU64::new(1);
impl<S: SentinelCol> Env<S> {
    fn new(cap: u64, kv: HarnessKv) -> Self {
        ac_reset();
        { let mut g = AC.lock().unwrap(); g.last_sent = SENT_NEXT.load(Ordering::SeqCst) - 1; }
        let eng = DbBacked::new(kv.clone(), Configuration::builder().cache_capacity(cap).serialization_workers(1).build());
        Env {
            wm: Some(eng.new_write_manager()),
            single: Arc::new(eng.new_single_map::<WCol, u64>()),
            dynm: Arc::new(eng.new_dynamic_map::<DCol>()),
            setm: Arc::new(eng.new_key_of_set_map::<SCol, SortedSet>()),
            setd: Arc::new(eng.new_key_of_set_map::<SCol, Arc<dashmap::DashSet<u64>>>()),
            sent: eng.new_key_of_set_map::<S, SortedSet>(),
            kv, open: None, open_keys: vec![], committed_keys: Default::default(), submitted_keys: Default::default(),
            submitted: 0, notified: 0, fresh: 1_000_000,
            rt: tokio::runtime::Builder::new_current_thread().build().unwrap(),
        }
    }
    fn begin(&mut self) { assert!(self.open.is_none()); self.open = Some(self.wm.as_ref().unwrap().new_write_batch()); self.open_keys.clear(); }
    fn submit(&mut self) {
        let mut b = self.open.take().expect("no open batch");
        let seq = SENT_NEXT.fetch_add(1, Ordering::SeqCst);
        self.rt.block_on(self.sent.insert(SentKey(seq), 0, &mut b)); // trailing sentinel of this batch
        self.wm.as_ref().unwrap().submit_write_batch(b);
        self.submitted += 1;
        self.submitted_keys.push_back(std::mem::take(&mut self.open_keys));
    }
    fn pending_commit(&self) -> u64 { self.submitted - self.kv.committed() }
    fn pending_notify(&self) -> u64 { self.kv.committed() - self.notified }
    fn commit_one(&mut self) {
        assert!(self.pending_commit() > 0);
        let n = self.kv.committed() + 1;
        self.kv.allow_commits(1);
        self.kv.wait_committed(n);
        let k = self.submitted_keys.pop_front().unwrap();
        self.committed_keys.push_back(k);
    }
    /// lets the after-commit thread run the notifications of exactly one committed batch and waits until they are done
    fn notify_one(&mut self) {
        assert!(self.pending_notify() > 0);
        { AC.lock().unwrap().order.clear(); }
        ac_allow_one_and_wait();
        self.notified += 1;
        let keys = self.committed_keys.pop_front().unwrap();
        let g = AC.lock().unwrap();
        let sent_at = g.order.iter().position(|(s, k)| *s && *k == g.last_sent);
        if g.order.len() < 64 {
            for k in keys {
                let at = g.order.iter().position(|(s, kk)| !*s && *kk == k);
                if !(at.is_some() && sent_at.is_some() && at < sent_at) { panic!("harness: key {k} of the batch was not notified before the sentinel (order {:?})", g.order); }
            }
        }
    }
    fn shutdown(&mut self) {
        if self.open.is_some() { self.submit(); }
        self.kv.open_gate();
        ac_open();
        self.wm.take();
    }
}
impl<S: SentinelCol> Drop for Env<S> {
    fn drop(&mut self) { self.shutdown(); }
}
/// Is sentinel column `S` notified after `SCol` when both are in one batch?
fn sentinel_is_last<S: SentinelCol>() -> bool {
    let kv = HarnessKv::default();
    let mut env = Env::<S>::new(4, kv);
    env.begin();
    { let b = env.open.as_mut().unwrap(); env.rt.block_on(env.setm.insert(HKey(1), 1, b)); env.rt.block_on(env.single.insert(HKey(2), 1, b)); }
    env.submit();
    env.commit_one();
    { AC.lock().unwrap().order.clear(); }
    ac_allow_one_and_wait();
    env.notified += 1; env.committed_keys.clear();
    env.shutdown();
    let g = AC.lock().unwrap();
    let s = g.order.iter().position(|(s, _)| *s);
    let a = g.order.iter().position(|(s, k)| !*s && *k == 1);
    let w = g.order.iter().position(|(s, k)| !*s && *k == 2);
    a.is_some() && w.is_some() && s.is_some() && a < s && w < s
}

// ------------------------------------------------------------------------------------------------
// cases
// ------------------------------------------------------------------------------------------------
#[derive(Clone, Debug, PartialEq)]
enum Op {
    InitW(u64, u64), InitD(u64, u8, u64), InitS(u64, u64, u64),
    Begin, Submit, Commit, Notify, Press(u64),
    WIns(u64, u64), WRem(u64), WGet(u64),
    DIns(u64, u8, u64), DRem(u64, u8), DGet(u64, u8),
    SIns(u64, u64), SRem(u64, u64), SFill(u64, u64, u64), SClear(u64, u64, u64), SGet(u64),
}
#[derive(Clone, Debug)]
struct Case { cap: u64, ops: Vec<Op> }
impl Op {
    fn text(&self) -> String {
        match self {
            Op::InitW(k, v) => format!("init-w {k} {v}"), Op::InitD(k, t, v) => format!("init-d {k} {t} {v}"), Op::InitS(k, lo, hi) => format!("init-s {k} {lo} {hi}"),
            Op::Begin => "begin".into(), Op::Submit => "submit".into(), Op::Commit => "commit".into(), Op::Notify => "notify".into(), Op::Press(n) => format!("press {n}"),
            Op::WIns(k, v) => format!("w-ins {k} {v}"), Op::WRem(k) => format!("w-rem {k}"), Op::WGet(k) => format!("w-get {k}"),
            Op::DIns(k, t, v) => format!("d-ins {k} {t} {v}"), Op::DRem(k, t) => format!("d-rem {k} {t}"), Op::DGet(k, t) => format!("d-get {k} {t}"),
            Op::SIns(k, x) => format!("s-ins {k} {x}"), Op::SRem(k, x) => format!("s-rem {k} {x}"), Op::SFill(k, lo, hi) => format!("s-fill {k} {lo} {hi}"),
            Op::SClear(k, lo, hi) => format!("s-clear {k} {lo} {hi}"), Op::SGet(k) => format!("s-get {k}"),
        }
    }
    fn parse(line: &str) -> Option<Op> {
        let t: Vec<&str> = line.split_whitespace().collect();
        let n = |i: usize| -> Option<u64> { t.get(i)?.parse().ok() };
        Some(match *t.first()? {
            "init-w" => Op::InitW(n(1)?, n(2)?), "init-d" => Op::InitD(n(1)?, n(2)? as u8, n(3)?), "init-s" => Op::InitS(n(1)?, n(2)?, n(3)?),
            "begin" => Op::Begin, "submit" => Op::Submit, "commit" => Op::Commit, "notify" => Op::Notify, "press" => Op::Press(n(1)?),
            "w-ins" => Op::WIns(n(1)?, n(2)?), "w-rem" => Op::WRem(n(1)?), "w-get" => Op::WGet(n(1)?),
            "d-ins" => Op::DIns(n(1)?, n(2)? as u8, n(3)?), "d-rem" => Op::DRem(n(1)?, n(2)? as u8), "d-get" => Op::DGet(n(1)?, n(2)? as u8),
            "s-ins" => Op::SIns(n(1)?, n(2)?), "s-rem" => Op::SRem(n(1)?, n(2)?), "s-fill" => Op::SFill(n(1)?, n(2)?, n(3)?),
            "s-clear" => Op::SClear(n(1)?, n(2)?, n(3)?), "s-get" => Op::SGet(n(1)?),
            _ => return None,
        })
    }
}
impl Case {
    fn text(&self) -> String {
        let mut s = format!("case cap={} thr=1024", self.cap);
        for o in &self.ops { s.push('\n'); s.push_str(&o.text()); }
        s.push_str("\nend");
        s
    }
    fn parse(text: &str) -> Option<Case> {
        let mut it = text.lines().map(str::trim).filter(|l| !l.is_empty());
        let h = it.next()?;
        let cap = h.split_whitespace().find_map(|t| t.strip_prefix("cap="))?.parse().ok()?;
        let mut ops = vec![];
        for l in it { if l == "end" { break; } ops.push(Op::parse(l.split(" obs=").next().unwrap())?); }
        Some(Case { cap, ops })
    }
}
/// sorted set → "1-5,9,12-13" / "-" when empty
fn fmt_set(s: &BTreeSet<u64>) -> String {
    if s.is_empty() { return "-".into(); }
    let v: Vec<u64> = s.iter().copied().collect();
    let mut out = String::new();
    let mut i = 0;
    while i < v.len() {
        let mut j = i;
        while j + 1 < v.len() && v[j + 1] == v[j] + 1 { j += 1; }
        if !out.is_empty() { out.push(','); }
        if j > i { out.push_str(&format!("{}-{}", v[i], v[j])); } else { out.push_str(&format!("{}", v[i])); }
        i = j + 1;
    }
    out
}
fn fmt_opt(v: Option<i128>) -> String { match v { Some(x) => format!("some {x}"), None => "none".into() } }

#[derive(Default)]
struct Reference { w: BTreeMap<u64, u64>, d: BTreeMap<(u64, u8), u64>, s: BTreeMap<u64, BTreeSet<u64>> }
struct Failure { sig: String, desc: String }
#[derive(Default)]
struct Stats { ops: u64, reads: u64, wide_reads: u64, wide_store_reads: u64, wide_rereads: u64, wide_reads_pinned: u64, neg_hits: u64,
    set_mem_hits: u64, set_stream: u64, set_fetch: u64, set_refetch: u64, set_spill_reads: u64, set_reads_staged: u64, max_set: u64, commits: u64, notifies: u64,
    reads_between_commit_and_notify: u64, caps: BTreeMap<u64, u64> }

/// Runs one case on the real code; returns the lines (op-with-observation, impl answer) and oracle failures.
fn run_case<S: SentinelCol>(case: &Case, dash: bool, lines: &mut Vec<(String, String, String)>, st: &mut Stats) -> Vec<Failure> {
    let kv = HarnessKv::default();
    let mut rf = Reference::default();
    {
        let mut init = vec![];
        for o in &case.ops {
            match o {
                Op::InitW(k, v) => { init.push(KvOp::Put(TypeId::of::<WCol>(), TypeId::of::<u64>(), *k, Box::new(*v))); rf.w.insert(*k, *v); }
                Op::InitD(k, t, v) => {
                    if *t == 0 { init.push(KvOp::Put(TypeId::of::<DCol>(), TypeId::of::<u64>(), *k, Box::new(*v))); } else { init.push(KvOp::Put(TypeId::of::<DCol>(), TypeId::of::<i64>(), *k, Box::new(*v as i64))); }
                    rf.d.insert((*k, *t), *v);
                }
                Op::InitS(k, lo, hi) => { for x in *lo..=*hi { init.push(KvOp::InsM(TypeId::of::<SCol>(), *k, x)); rf.s.entry(*k).or_default().insert(x); } }
                _ => {}
            }
        }
        kv.apply(init);
    }
    let mut env = Env::<S>::new(case.cap, kv.clone());
    *st.caps.entry(case.cap).or_default() += 1;
    let mut fails = vec![];
    lines.push((format!("case cap={} thr=1024", case.cap), "ok".into(), "ok".into()));
    let mut w_unnotified: BTreeMap<u64, u64> = BTreeMap::new(); // wide keys → number of un-notified batches mentioning them (pinned)
    let mut w_seen: BTreeSet<u64> = BTreeSet::new();
    let mut s_seen: BTreeSet<u64> = BTreeSet::new();
    let mut s_staged: BTreeMap<u64, u64> = BTreeMap::new();
    let mut batch_w: Vec<BTreeSet<u64>> = vec![]; // per submitted batch (FIFO, popped at notify)
    let mut cur_w: BTreeSet<u64> = BTreeSet::new();
    let mut batch_s: Vec<BTreeSet<u64>> = vec![];
    let mut cur_s: BTreeSet<u64> = BTreeSet::new();
    macro_rules! wb { () => { env.open.as_mut().expect("no open batch") }; }
    for (i, o) in case.ops.iter().enumerate() {
        st.ops += 1;
        let mut line = o.text();
        let mut ans = "ok".to_string();
        let mut expect: Option<String> = None;
        match o {
            Op::InitW(..) | Op::InitD(..) | Op::InitS(..) => {}
            Op::Begin => { env.begin(); cur_w.clear(); cur_s.clear(); }
            Op::Submit => { env.submit(); batch_w.push(std::mem::take(&mut cur_w)); batch_s.push(std::mem::take(&mut cur_s)); }
            Op::Commit => { env.commit_one(); st.commits += 1; }
            Op::Notify => {
                env.notify_one(); st.notifies += 1;
                for k in batch_w.remove(0) { if let Some(c) = w_unnotified.get_mut(&k) { *c -= 1; } }
                for k in batch_s.remove(0) { if let Some(c) = s_staged.get_mut(&k) { *c -= 1; } }
            }
            Op::Press(n) => {
                for _ in 0..*n {
                    env.fresh += 1; let f = HKey(env.fresh);
                    let _ = env.rt.block_on(env.single.get(&f));
                    let _ = env.rt.block_on(env.dynm.get::<u64>(&f));
                    if !dash { let _: Vec<u64> = env.rt.block_on(env.setm.get(&f)).collect(); }
                }
            }
            Op::WIns(k, v) => { env.open_keys.push(*k); env.rt.block_on(env.single.insert(HKey(*k), *v, wb!())); rf.w.insert(*k, *v); if cur_w.insert(*k) { *w_unnotified.entry(*k).or_default() += 1; } }
            Op::WRem(k) => { env.open_keys.push(*k); env.rt.block_on(env.single.remove(&HKey(*k), wb!())); rf.w.remove(k); if cur_w.insert(*k) { *w_unnotified.entry(*k).or_default() += 1; } }
            Op::WGet(k) => {
                let r0 = kv.0.wide_reads.load(Ordering::SeqCst);
                let v = env.rt.block_on(env.single.get(&HKey(*k)));
                let obs = kv.0.wide_reads.load(Ordering::SeqCst) - r0;
                line.push_str(&format!(" obs={obs}"));
                ans = fmt_opt(v.map(|x| x as i128));
                expect = Some(fmt_opt(rf.w.get(k).map(|x| *x as i128)));
                st.reads += 1; st.wide_reads += 1; st.wide_store_reads += obs;
                if obs > 0 && !w_seen.insert(*k) { st.wide_rereads += 1; }
                w_seen.insert(*k);
                if w_unnotified.get(k).copied().unwrap_or(0) > 0 { st.wide_reads_pinned += 1; }
                if env.pending_notify() > 0 { st.reads_between_commit_and_notify += 1; }
                if v.is_none() && obs == 0 { st.neg_hits += 1; }
            }
            Op::DIns(k, t, v) => {
                env.open_keys.push(*k);
                if *t == 0 { env.rt.block_on(env.dynm.insert::<u64>(HKey(*k), *v, wb!())); } else { env.rt.block_on(env.dynm.insert::<i64>(HKey(*k), *v as i64, wb!())); }
                rf.d.insert((*k, *t), *v);
            }
            Op::DRem(k, t) => {
                env.open_keys.push(*k);
                if *t == 0 { env.rt.block_on(env.dynm.remove::<u64>(&HKey(*k), wb!())); } else { env.rt.block_on(env.dynm.remove::<i64>(&HKey(*k), wb!())); }
                rf.d.remove(&(*k, *t));
            }
            Op::DGet(k, t) => {
                let r0 = kv.0.wide_reads.load(Ordering::SeqCst);
                let v: Option<i128> = if *t == 0 { env.rt.block_on(env.dynm.get::<u64>(&HKey(*k))).map(|x| x as i128) } else { env.rt.block_on(env.dynm.get::<i64>(&HKey(*k))).map(|x| x as i128) };
                let obs = kv.0.wide_reads.load(Ordering::SeqCst) - r0;
                line.push_str(&format!(" obs={obs}"));
                ans = fmt_opt(v);
                expect = Some(fmt_opt(rf.d.get(&(*k, *t)).map(|x| *x as i128)));
                st.reads += 1; st.wide_reads += 1; st.wide_store_reads += obs;
                if v.is_none() && obs == 0 { st.neg_hits += 1; }
            }
            Op::SIns(..) | Op::SRem(..) | Op::SFill(..) | Op::SClear(..) => {
                let (k, lo, hi, ins) = match o { Op::SIns(k, x) => (*k, *x, *x, true), Op::SRem(k, x) => (*k, *x, *x, false), Op::SFill(k, lo, hi) => (*k, *lo, *hi, true), Op::SClear(k, lo, hi) => (*k, *lo, *hi, false), _ => unreachable!() };
                env.open_keys.push(k);
                if cur_s.insert(k) { *s_staged.entry(k).or_default() += 1; }
                for x in lo..=hi {
                    match (dash, ins) {
                        (false, true) => env.rt.block_on(env.setm.insert(HKey(k), x, wb!())),
                        (false, false) => env.rt.block_on(env.setm.remove(&HKey(k), &x, wb!())),
                        (true, true) => env.rt.block_on(env.setd.insert(HKey(k), x, wb!())),
                        (true, false) => env.rt.block_on(env.setd.remove(&HKey(k), &x, wb!())),
                    }
                    if ins { rf.s.entry(k).or_default().insert(x); } else { rf.s.entry(k).or_default().remove(&x); }
                }
            }
            Op::SGet(k) => {
                let c0 = SET_CREATED.load(Ordering::SeqCst);
                let s0 = kv.0.scans.load(Ordering::SeqCst);
                let got: BTreeSet<u64> = if dash { env.rt.block_on(env.setd.get(&HKey(*k))).collect() } else { env.rt.block_on(env.setm.get(&HKey(*k))).collect() };
                let fetches = SET_CREATED.load(Ordering::SeqCst) - c0;
                let scans = kv.0.scans.load(Ordering::SeqCst) - s0;
                if !dash { line.push_str(&format!(" obs={fetches},{scans}")); }
                ans = fmt_set(&got);
                let e = rf.s.get(k).cloned().unwrap_or_default();
                st.max_set = st.max_set.max(e.len() as u64);
                expect = Some(fmt_set(&e));
                st.reads += 1;
                if scans == 0 { st.set_mem_hits += 1; } else if fetches == 0 { st.set_stream += 1; } else { st.set_fetch += 1; if !s_seen.insert(*k) { st.set_refetch += 1; } if e.len() > 1024 { st.set_spill_reads += 1; } }
                s_seen.insert(*k);
                if s_staged.get(k).copied().unwrap_or(0) > 0 { st.set_reads_staged += 1; }
                if env.pending_notify() > 0 { st.reads_between_commit_and_notify += 1; }
            }
        }
        let refans = expect.clone().unwrap_or_else(|| "ok".to_string());
        if let Some(e) = expect {
            if e != ans {
                let kind = match o { Op::SGet(_) => "set", Op::DGet(..) => "dyn", _ => "single" };
                fails.push(Failure { sig: format!("{kind}-read-differs-from-reference"), desc: format!("op #{i} `{}`: implementation returned `{}`, reference map says `{}`", o.text(), short(&ans), short(&e)) });
            }
        }
        lines.push((line, ans, refans));
    }
    lines.push(("end".into(), "ok".into(), "ok".into()));
    env.shutdown();
    fails
}
fn short(s: &str) -> String { if s.len() > 160 { format!("{}…({} chars)", &s[..160], s.len()) } else { s.to_string() } }

// ------------------------------------------------------------------------------------------------
// generator
// ------------------------------------------------------------------------------------------------
/// `respect` (only with `--restricted`; the default stream is unrestricted since F10 and F17 were fixed in
/// /repo): stay inside the region `getSafe` in which the code before those fixes was correct: when a set is read, its staging log holds at most one operation per element, and a
/// read that may fetch a set whose store image exceeds the threshold has no staged removal of one of
/// the first threshold+1 store elements.  The generator simulates the store image and a superset of the
/// log to guarantee this; the driver re-checks it on the model state (`assert-safe`).
fn gen_case(rng: &mut Rng, big: bool, respect: bool) -> Case {
    let cap = if rng.chance(1, 3) { 1 } else { rng.range(1, 16) };
    let nkeys = rng.range(1, 6);
    let mut ops = vec![];
    for k in 1..=nkeys {
        if rng.chance(1, 2) { ops.push(Op::InitW(k, rng.range(100, 199))); }
        if rng.chance(1, 3) { ops.push(Op::InitD(k, rng.below(2) as u8, rng.range(100, 199))); }
    }
    let set_keys = rng.range(1, 3);
    let mut big_key = 0;
    let mut sim_db: BTreeMap<u64, BTreeSet<u64>> = BTreeMap::new();
    for k in 1..=set_keys {
        if big && big_key == 0 && (k == set_keys || rng.chance(2, 3)) {
            big_key = k;
            let n = *rng.pick(&[990u64, 1020, 1023, 1024, 1025, 1026, 1030, 1100]);
            ops.push(Op::InitS(k, 1, n));
            sim_db.insert(k, (1..=n).collect());
        } else if rng.chance(1, 2) { let n = rng.range(1, 40); ops.push(Op::InitS(k, 1, n)); sim_db.insert(k, (1..=n).collect()); }
    }
    let n = if big { rng.range(10, 45) } else { rng.range(8, 70) };
    let mut open = false;
    let (mut pc, mut pn) = (0u64, 0u64); // submitted-not-committed, committed-not-notified
    let mut staged: BTreeMap<u64, BTreeMap<u64, bool>> = BTreeMap::new(); // superset of the log: key → element → is-insert
    let mut open_ops: Vec<(u64, u64, bool)> = vec![];
    let mut sub_ops: std::collections::VecDeque<Vec<(u64, u64, bool)>> = Default::default();
    let press_w = if cap <= 4 { 14 } else { 6 };
    for _ in 0..n {
        let r = rng.below(100);
        let k = rng.range(1, nkeys);
        let sk = rng.range(1, set_keys);
        macro_rules! need_open { () => { if !open { ops.push(Op::Begin); open = true; } }; }
        let safe_read = |sk: u64, staged: &BTreeMap<u64, BTreeMap<u64, bool>>, sim_db: &BTreeMap<u64, BTreeSet<u64>>| -> bool {
            if !respect { return true; }
            let db = match sim_db.get(&sk) { Some(d) => d, None => return true };
            if db.len() <= 1024 { return true; }
            let half: BTreeSet<u64> = db.iter().take(1025).copied().collect();
            !staged.get(&sk).map_or(false, |m| m.iter().any(|(x, ins)| !*ins && half.contains(x)))
        };
        match r {
            0..=12 => { need_open!(); ops.push(Op::WIns(k, rng.range(1, 99))); }
            13..=18 => { need_open!(); ops.push(Op::WRem(k)); }
            19..=33 => ops.push(Op::WGet(k)),
            34..=38 => { need_open!(); ops.push(Op::DIns(k, rng.below(2) as u8, rng.range(1, 99))); }
            39..=41 => { need_open!(); ops.push(Op::DRem(k, rng.below(2) as u8)); }
            42..=46 => ops.push(Op::DGet(k, rng.below(2) as u8)),
            47..=60 => {
                let is_big = big && sk == big_key;
                let range = if is_big { if rng.chance(2, 3) { (985, 1110) } else { (1, 1110) } } else { (1, 45) };
                let x = rng.range(range.0, range.1);
                let bulk = is_big && rng.chance(1, 3);
                let (lo, hi) = if bulk { let lo = rng.range(960, 1060); (lo, lo + rng.range(1, 80)) } else { (x, x) };
                if respect && (lo..=hi).any(|e| staged.get(&sk).map_or(false, |s| s.contains_key(&e))) { if safe_read(sk, &staged, &sim_db) { ops.push(Op::SGet(sk)); } continue; }
                need_open!();
                let ins = rng.chance(3, 5);
                for e in lo..=hi { staged.entry(sk).or_default().insert(e, ins); open_ops.push((sk, e, ins)); }
                ops.push(match (bulk, ins) { (true, true) => Op::SFill(sk, lo, hi), (true, false) => Op::SClear(sk, lo, hi), (false, true) => Op::SIns(sk, x), (false, false) => Op::SRem(sk, x) });
            }
            61..=74 => { if safe_read(sk, &staged, &sim_db) { ops.push(Op::SGet(sk)); } else { ops.push(Op::WGet(k)); } }
            75..=81 => { if open { ops.push(Op::Submit); open = false; pc += 1; sub_ops.push_back(std::mem::take(&mut open_ops)); } else { ops.push(Op::WGet(k)); } }
            82..=88 => {
                if pc > 0 {
                    ops.push(Op::Commit); pc -= 1; pn += 1;
                    for (kk, x, ins) in sub_ops.pop_front().unwrap() { let d = sim_db.entry(kk).or_default(); if ins { d.insert(x); } else { d.remove(&x); } }
                } else { ops.push(Op::WGet(k)); }
            }
            89..=94 => {
                if pn > 0 { ops.push(Op::Notify); pn -= 1; if !open && pc == 0 && pn == 0 { staged.clear(); } } else { ops.push(Op::DGet(k, 0)); }
            }
            _ => ops.push(Op::Press(rng.range(4, press_w))),
        }
    }
    if open { ops.push(Op::Submit); pc += 1; sub_ops.push_back(std::mem::take(&mut open_ops)); }
    for k in 1..=nkeys { if rng.chance(1, 2) { ops.push(Op::WGet(k)); } }
    // drain the pipeline, reading in between
    while pc > 0 || pn > 0 {
        if pc > 0 && (pn == 0 || rng.chance(1, 2)) {
            ops.push(Op::Commit); pc -= 1; pn += 1;
            for (kk, x, ins) in sub_ops.pop_front().unwrap() { let d = sim_db.entry(kk).or_default(); if ins { d.insert(x); } else { d.remove(&x); } }
        } else { ops.push(Op::Notify); pn -= 1; if pc == 0 && pn == 0 { staged.clear(); } }
        if rng.chance(1, 3) {
            let sk = rng.range(1, set_keys);
            let ok = { let db = sim_db.get(&sk); !respect || db.map_or(true, |d| d.len() <= 1024 || { let half: BTreeSet<u64> = d.iter().take(1025).copied().collect(); !staged.get(&sk).map_or(false, |m| m.iter().any(|(x, ins)| !*ins && half.contains(x))) }) };
            if ok { ops.push(Op::SGet(sk)); }
            ops.push(Op::WGet(rng.range(1, nkeys)));
        }
        if rng.chance(1, 6) { ops.push(Op::Press(rng.range(4, press_w))); }
    }
    ops.push(Op::Press(press_w));
    for k in 1..=nkeys { ops.push(Op::WGet(k)); ops.push(Op::DGet(k, 0)); ops.push(Op::DGet(k, 1)); }
    for k in 1..=set_keys { ops.push(Op::SGet(k)); }
    Case { cap, ops }
}

fn well_formed(c: &Case) -> bool {
    let (mut open, mut pc, mut pn) = (false, 0i64, 0i64);
    for o in &c.ops {
        match o {
            Op::Begin => { if open { return false; } open = true; }
            Op::Submit => { if !open { return false; } open = false; pc += 1; }
            Op::Commit => { if pc == 0 { return false; } pc -= 1; pn += 1; }
            Op::Notify => { if pn == 0 { return false; } pn -= 1; }
            Op::WIns(..) | Op::WRem(..) | Op::DIns(..) | Op::DRem(..) | Op::SIns(..) | Op::SRem(..) | Op::SFill(..) | Op::SClear(..) => { if !open { return false; } }
            _ => {}
        }
    }
    true
}
type Runner = fn(&Case, bool, &mut Vec<(String, String, String)>, &mut Stats) -> Vec<Failure>;
fn shrink(run: Runner, case: &Case, dash: bool, sig: &str) -> Case {
    // delta-debugging over ops: drop one op at a time while the same signature still fails and the case stays well-formed
    let mut cur = case.clone();
    let mut progress = true;
    let mut budget = 300;
    while progress && budget > 0 {
        progress = false;
        let mut i = 0;
        while i < cur.ops.len() && budget > 0 {
            let mut c = cur.clone();
            c.ops.remove(i);
            if well_formed(&c) {
                budget -= 1;
                let mut l = vec![]; let mut st = Stats::default();
                let r = std::panic::catch_unwind(std::panic::AssertUnwindSafe(|| run(&c, dash, &mut l, &mut st)));
                if let Ok(f) = r { if f.iter().any(|x| x.sig == sig) { cur = c; progress = true; continue; } }
            }
            i += 1;
        }
    }
    cur
}

// ------------------------------------------------------------------------------------------------
// two-thread scenario (real threads; the rendezvous is inside the harness KV's read, i.e. inside the
// cache's `init()` closure – between the store read of a fill and its insert-if-vacant)
// ------------------------------------------------------------------------------------------------
/// A fill of key 1 reads the store (100); another task writes 7, the write is committed, un-pinned
/// and evicted; then the fill installs what it read.  Returns (what the filling `get` returned,
/// what a later `get` returns, the latest write).
fn scenario_stale_fill<S: SentinelCol>(cap: u64, pressure: u64) -> (Option<u64>, Option<u64>, Option<u64>) {
    let kv = HarnessKv::default();
    kv.apply(vec![KvOp::Put(TypeId::of::<WCol>(), TypeId::of::<u64>(), 1, Box::new(100u64))]);
    let mut env = Env::<S>::new(cap, kv.clone());
    kv.arm_read_block(1);
    let single = env.single.clone();
    let t1 = std::thread::spawn(move || {
        let rt = tokio::runtime::Builder::new_current_thread().build().unwrap();
        rt.block_on(single.get(&HKey(1)))
    });
    kv.wait_read_reached(); // T1 has read 100 from the store and sits between the read and insert-if-vacant
    env.begin();
    { let b = env.open.as_mut().unwrap(); env.rt.block_on(env.single.insert(HKey(1), 7, b)); }
    env.submit();
    env.commit_one();
    env.notify_one(); // un-pinned
    for i in 0..pressure { let _ = env.rt.block_on(env.single.get(&HKey(2_000_000 + i))); }
    kv.release_read();
    let v1 = t1.join().unwrap();
    let after = env.rt.block_on(env.single.get(&HKey(1)));
    env.shutdown();
    (v1, after, Some(7))
}

/// The vacancy check of the fill: a fill of key 1 reads the store (100) and waits; another task writes 7
/// (not committed: the entry is pinned and present); the fill must NOT overwrite it.
fn scenario_fill_vs_write<S: SentinelCol>(cap: u64, remove: bool) -> (Option<u64>, Option<u64>, Option<u64>) {
    let kv = HarnessKv::default();
    kv.apply(vec![KvOp::Put(TypeId::of::<WCol>(), TypeId::of::<u64>(), 1, Box::new(100u64))]);
    let mut env = Env::<S>::new(cap, kv.clone());
    kv.arm_read_block(1);
    let single = env.single.clone();
    let t1 = std::thread::spawn(move || {
        let rt = tokio::runtime::Builder::new_current_thread().build().unwrap();
        rt.block_on(single.get(&HKey(1)))
    });
    kv.wait_read_reached();
    env.begin();
    { let b = env.open.as_mut().unwrap(); if remove { env.rt.block_on(env.single.remove(&HKey(1), b)); } else { env.rt.block_on(env.single.insert(HKey(1), 7, b)); } }
    kv.release_read();
    let v1 = t1.join().unwrap();
    let after = env.rt.block_on(env.single.get(&HKey(1)));
    env.shutdown();
    (v1, after, if remove { None } else { Some(7) })
}

/// Set cache, reader vs writer on one key: a `get` of set 1 (store {1,2}, nothing cached) has taken its staging
/// snapshot and scanned the store, and waits; another task inserts 9 (staged in the log; the set is not cached, so
/// nothing else happens); the `get` then installs the in-memory set it built from its OLD snapshot.
/// Returns (what the fetching get returned, what a later get returns, expected).
fn scenario_set_fill_vs_insert<S: SentinelCol>(cap: u64, remove: bool) -> (BTreeSet<u64>, BTreeSet<u64>, BTreeSet<u64>) {
    let kv = HarnessKv::default();
    kv.apply(vec![KvOp::InsM(TypeId::of::<SCol>(), 1, 1), KvOp::InsM(TypeId::of::<SCol>(), 1, 2)]);
    let mut env = Env::<S>::new(cap, kv.clone());
    kv.arm_scan_block(1);
    let setm = env.setm.clone();
    let t1 = std::thread::spawn(move || {
        let rt = tokio::runtime::Builder::new_current_thread().build().unwrap();
        rt.block_on(setm.get(&HKey(1))).collect::<BTreeSet<u64>>()
    });
    kv.wait_read_reached();
    env.begin();
    { let b = env.open.as_mut().unwrap(); if remove { env.rt.block_on(env.setm.remove(&HKey(1), &2, b)); } else { env.rt.block_on(env.setm.insert(HKey(1), 9, b)); } }
    kv.release_read();
    let v1 = t1.join().unwrap();
    let after: BTreeSet<u64> = env.rt.block_on(env.setm.get(&HKey(1))).collect();
    env.shutdown();
    (v1, after, if remove { [1u64].into_iter().collect() } else { [1u64, 2, 9].into_iter().collect() })
}

/// Set cache, read racing with commit + flush: a batch on set 1 (store {1,2}) is staged and submitted but not
/// committed; a `get` of the uncached set has taken its staging snapshot and its `scan_members` has READ the store
/// and is parked before returning; the batch is committed and its after-commit `FlushUpTo` runs (the staging log is
/// emptied); the scan resumes.  The read – and every later read – must contain the batch's effect.
/// `evicted`: the set was read (cached) before and is pushed out of a tiny cache first; otherwise it was never read.
/// Returns None when the set could not be evicted (nothing was tested).
fn scenario_scan_vs_commit_flush<S: SentinelCol>(cap: u64, evicted: bool, remove: bool) -> Option<(BTreeSet<u64>, BTreeSet<u64>, BTreeSet<u64>)> {
    let kv = HarnessKv::default();
    kv.apply(vec![KvOp::InsM(TypeId::of::<SCol>(), 1, 1), KvOp::InsM(TypeId::of::<SCol>(), 1, 2)]);
    let mut env = Env::<S>::new(cap, kv.clone());
    if evicted { let _: Vec<u64> = env.rt.block_on(env.setm.get(&HKey(1))).collect(); }
    env.begin();
    { let b = env.open.as_mut().unwrap(); if remove { env.rt.block_on(env.setm.remove(&HKey(1), &2, b)); } else { env.rt.block_on(env.setm.insert(HKey(1), 9, b)); } }
    env.submit();
    let want: BTreeSet<u64> = if remove { [1u64].into_iter().collect() } else { [1u64, 2, 9].into_iter().collect() };
    for attempt in 0..40u64 {
        if evicted { for _ in 0..(64 + 32 * attempt) { env.fresh += 1; let f = HKey(env.fresh); let _: Vec<u64> = env.rt.block_on(env.setm.get(&f)).collect(); } }
        kv.arm_scan_block(1);
        let setm = env.setm.clone();
        let kv2 = kv.clone();
        let t1 = std::thread::spawn(move || {
            let rt = tokio::runtime::Builder::new_current_thread().build().unwrap();
            let r = rt.block_on(setm.get(&HKey(1))).collect::<BTreeSet<u64>>();
            kv2.mark_done();
            r
        });
        if kv.wait_reached_or_done() {
            env.commit_one();
            env.notify_one(); // FlushUpTo(epoch): the staging log of key 1 is emptied
            kv.release_read();
            let v1 = t1.join().unwrap();
            let after: BTreeSet<u64> = env.rt.block_on(env.setm.get(&HKey(1))).collect();
            env.shutdown();
            return Some((v1, after, want));
        }
        let hit = t1.join().unwrap(); // still cached: the read never went to the store
        if hit != want { env.shutdown(); return Some((hit.clone(), hit, want)); }
    }
    env.shutdown();
    None
}

// ------------------------------------------------------------------------------------------------
macro_rules! pick_sent { ($idx:expr, $f:ident) => { match $idx { 0 => $f::<Sent0>, 1 => $f::<Sent1>, 2 => $f::<Sent2>, 3 => $f::<Sent3>, 4 => $f::<Sent4>, _ => $f::<Sent5> } }; }
fn main() {
    let a = args();
    let mut out = Out::new(&a.out);
    let dash = a.rest.iter().any(|x| x == "--dash");
    if !a.rest.iter().any(|x| x == "--verbose") { std::panic::set_hook(Box::new(|_| {})); }
    // calibration: a sentinel column that the after-commit pass visits after SCol
    let cands: [fn() -> bool; 6] = [sentinel_is_last::<Sent0>, sentinel_is_last::<Sent1>, sentinel_is_last::<Sent2>, sentinel_is_last::<Sent3>, sentinel_is_last::<Sent4>, sentinel_is_last::<Sent5>];
    let mut sidx = None;
    for (i, f) in cands.iter().enumerate() { if std::panic::catch_unwind(|| f()).unwrap_or(false) { sidx = Some(i); break; } }
    let sidx = match sidx { Some(i) => i, None => { eprintln!("harness: no sentinel column is notified last – the after-commit pass changed"); std::process::exit(2); } };
    let run: Runner = pick_sent!(sidx, run_case);
    let mut st = Stats::default();
    let mut fails_json: Vec<String> = vec![];
    let mut samples: Vec<String> = vec![];
    let mut distinct = std::collections::HashSet::new();
    let (mut evals, mut nontrivial, mut harness_errors) = (0u64, 0u64, 0u64);
    let mut conc_note = String::new();

    if a.rest.iter().any(|x| x == "--stale-fill") {
        let scen: fn(u64, u64) -> (Option<u64>, Option<u64>, Option<u64>) = pick_sent!(sidx, scenario_stale_fill);
        let (mut stale, mut runs) = (0, 0);
        let mut first = String::new();
        for cap in [1u64, 2, 4, 8] { for pressure in [64u64, 512] {
            let r = std::panic::catch_unwind(|| scen(cap, pressure));
            runs += 1;
            if let Ok((t1, after, want)) = r { if after != want { stale += 1; if first.is_empty() { first = format!("cap={cap} pressure={pressure}: filling get returned {:?}, a later get returned {:?}, latest write {:?}", t1, after, want); } } }
        } }
        conc_note = format!("stale-fill runs={runs} stale={stale} {first}");
        println!("{conc_note}");
        if stale > 0 {
            fails_json.push(format!("{{\"sig\":\"wide-stale-fill-two-threads\",\"desc\":{},\"case\":\"scenario stale-fill (run the harness with --stale-fill)\"}}",
                jstr(&format!("two threads: a cache fill whose store read precedes another task's write+commit+un-pin+evict installs the old value; {stale}/{runs} runs stale; {first}"))));
        }
    }

    if a.rest.iter().any(|x| x == "--fill-vs-write") {
        let scen: fn(u64, bool) -> (Option<u64>, Option<u64>, Option<u64>) = pick_sent!(sidx, scenario_fill_vs_write);
        let (mut bad, mut runs) = (0, 0);
        let mut first = String::new();
        for cap in [1u64, 4, 16] { for remove in [false, true] {
            let r = std::panic::catch_unwind(|| scen(cap, remove));
            runs += 1;
            match r {
                Ok((t1, after, want)) => { if after != want || t1 != want { bad += 1; if first.is_empty() { first = format!("cap={cap} remove={remove}: filling get returned {:?}, a later get returned {:?}, latest write {:?}", t1, after, want); } } }
                Err(_) => { bad += 1; if first.is_empty() { first = "scenario panicked".into(); } }
            }
        } }
        conc_note.push_str(&format!(" fill-vs-write runs={runs} bad={bad} {first}"));
        println!("fill-vs-write runs={runs} bad={bad} {first}");
        if bad > 0 {
            fails_json.push(format!("{{\"sig\":\"fill-overwrote-pinned-write\",\"desc\":{},\"case\":\"scenario fill-vs-write (run the harness with --fill-vs-write)\"}}",
                jstr(&format!("two threads: a cache fill that read the store before another task's (uncommitted, pinned) write overwrote or hid that write; {bad}/{runs} runs; {first}"))));
        }
    }

    if a.rest.iter().any(|x| x == "--set-fill-vs-insert") {
        let scen: fn(u64, bool) -> (BTreeSet<u64>, BTreeSet<u64>, BTreeSet<u64>) = pick_sent!(sidx, scenario_set_fill_vs_insert);
        let (mut bad, mut runs) = (0, 0);
        let mut first = String::new();
        for cap in [1u64, 4, 16] { for remove in [false, true] {
            let r = std::panic::catch_unwind(|| scen(cap, remove));
            runs += 1;
            match r {
                Ok((t1, after, want)) => { if after != want { bad += 1; if first.is_empty() { first = format!("cap={cap} remove={remove}: fetching get returned {}, a later get returned {}, expected {}", fmt_set(&t1), fmt_set(&after), fmt_set(&want)); } } }
                Err(_) => { bad += 1; if first.is_empty() { first = "scenario panicked".into(); } }
            }
        } }
        conc_note.push_str(&format!(" set-fill-vs-insert runs={runs} stale={bad} {first}"));
        println!("set-fill-vs-insert runs={runs} stale={bad} {first}");
        if bad > 0 {
            fails_json.push(format!("{{\"sig\":\"set-stale-fill-two-threads\",\"desc\":{},\"case\":\"scenario set-fill-vs-insert (run the harness with --set-fill-vs-insert)\"}}",
                jstr(&format!("two threads, key-of-set cache: a get that took its staging snapshot before another task's insert/remove installs an in-memory set without that operation; {bad}/{runs} runs stale; {first}"))));
        }
    }

    if a.rest.iter().any(|x| x == "--scan-vs-flush") {
        let scen: fn(u64, bool, bool) -> Option<(BTreeSet<u64>, BTreeSet<u64>, BTreeSet<u64>)> = pick_sent!(sidx, scenario_scan_vs_commit_flush);
        let (mut bad, mut runs, mut skipped) = (0, 0, 0);
        let mut first = String::new();
        for (cap, evicted) in [(4u64, false), (1, false), (1, true), (2, true)] { for remove in [false, true] {
            let r = std::panic::catch_unwind(|| scen(cap, evicted, remove));
            match r {
                Ok(Some((t1, after, want))) => { runs += 1; if after != want || t1 != want { bad += 1; if first.is_empty() { first = format!("cap={cap} evicted-first={evicted} remove={remove}: the racing get returned {}, a later get returned {}, expected {}", fmt_set(&t1), fmt_set(&after), fmt_set(&want)); } } }
                Ok(None) => skipped += 1,
                Err(_) => { runs += 1; bad += 1; if first.is_empty() { first = "scenario panicked".into(); } }
            }
        } }
        conc_note.push_str(&format!(" scan-vs-flush runs={runs} wrong={bad} not-evicted={skipped} {first}"));
        println!("scan-vs-flush runs={runs} wrong={bad} not-evicted={skipped} {first}");
        if bad > 0 {
            fails_json.push(format!("{{\"sig\":\"set-scan-vs-commit-flush-two-threads\",\"desc\":{},\"case\":\"scenario scan-vs-flush (run the harness with --scan-vs-flush)\"}}",
                jstr(&format!("two threads, key-of-set cache: a batch whose commit and after-commit flush both fall between a read's store scan and its install is missing from the set that is returned / cached (the staging snapshot must be the one taken BEFORE the scan: theorem set_get_snapshot_before_scan); {bad}/{runs} runs wrong; {first}"))));
        }
        if runs < 6 {
            fails_json.push(format!("{{\"sig\":\"panic\",\"desc\":{},\"case\":\"scenario scan-vs-flush\"}}", jstr(&format!("scan-vs-flush: only {runs} of 8 variants could be run ({skipped} could not evict the set)"))));
        }
    }

    let mut reff = String::new();
    let mut cases: Vec<Case> = vec![];
    if let Some(p) = &a.replay {
        let raw = std::fs::read_to_string(p).expect("replay file");
        let text = if raw.trim_start().starts_with('{') { extract_case(&raw).expect("replay json has no \"case\"") } else { raw };
        if !text.starts_with("scenario") { cases.push(Case::parse(&text).expect("unparsable case")); }
    } else {
        let unrestricted = !a.rest.iter().any(|x| x == "--restricted");
        let n = a.n.unwrap_or(if a.tier == "quick" { 150 } else { 1500 });
        let mut rng = Rng::new(a.seed);
        for i in 0..n { let big = i % 5 == 4; cases.push(gen_case(&mut rng, big, !unrestricted)); }
    }
    for case in &cases {
        let mut lines = vec![];
        let text = case.text();
        let r = std::panic::catch_unwind(std::panic::AssertUnwindSafe(|| run(case, dash, &mut lines, &mut st)));
        evals += 1;
        match r {
            Ok(fails) => {
                for (o, i, r) in &lines { out.line(o, i); reff.push_str(r); reff.push('\n'); }
                let nt = lines.iter().any(|(o, _, _)| o.contains("obs=") && !o.ends_with("obs=0") && !o.ends_with("obs=0,0")) && lines.iter().any(|(o, _, _)| o == "commit");
                if nt && distinct.insert(text.clone()) { nontrivial += 1; }
                if samples.len() < 3 && nt { samples.push(short(&text.replace('\n', "; "))); }
                let mut seen = std::collections::HashSet::new();
                for f in fails {
                    if !seen.insert(f.sig.clone()) { continue; }
                    let small = if a.replay.is_some() || a.rest.iter().any(|x| x == "--no-shrink") { case.clone() } else { shrink(run, case, dash, &f.sig) };
                    fails_json.push(format!("{{\"sig\":{},\"desc\":{},\"case\":{},\"orig\":{}}}", jstr(&f.sig), jstr(&f.desc), jstr(&small.text()), jstr(&text)));
                }
            }
            Err(e) => {
                harness_errors += 1;
                let msg = e.downcast_ref::<String>().cloned().or_else(|| e.downcast_ref::<&str>().map(|s| s.to_string())).unwrap_or_default();
                // keep the streams aligned: a case that died contributes no lines
                fails_json.push(format!("{{\"sig\":\"panic\",\"desc\":{},\"case\":{}}}", jstr(&format!("panic while running the case: {msg}")), jstr(&text)));
            }
        }
    }
    let caps = st.caps.iter().map(|(k, v)| format!("\"{k}\":{v}")).collect::<Vec<_>>().join(",");
    let dist = format!(
        "{{\"ops\":{},\"reads\":{},\"wide_reads\":{},\"wide_store_reads\":{},\"wide_store_rereads_after_eviction\":{},\"wide_reads_while_pinned\":{},\"wide_negative_hits\":{},\"set_reads_in_memory\":{},\"set_reads_streaming\":{},\"set_reads_fetching\":{},\"set_refetches_after_eviction\":{},\"set_fetches_over_threshold\":{},\"set_reads_with_staged_ops\":{},\"reads_between_commit_and_notify\":{},\"max_set_size\":{},\"commits\":{},\"notifies\":{},\"capacity_histogram\":{{{}}},\"sentinel_column\":{},\"harness_errors\":{}}}",
        st.ops, st.reads, st.wide_reads, st.wide_store_reads, st.wide_rereads, st.wide_reads_pinned, st.neg_hits, st.set_mem_hits, st.set_stream, st.set_fetch, st.set_refetch, st.set_spill_reads, st.set_reads_staged, st.reads_between_commit_and_notify, st.max_set, st.commits, st.notifies, caps, sidx, harness_errors);
    let report = format!(
        "{{\"evaluations\":{},\"distinct_nontrivial\":{},\"rule\":{},\"samples\":[{}],\"distribution\":{},\"concurrency\":{},\"oracle_failures\":[{}]}}",
        evals, nontrivial, jstr("case has at least one background commit and at least one read that went to the store (miss / streaming / fetch)"),
        samples.iter().map(|s| jstr(s)).collect::<Vec<_>>().join(","), dist, jstr(&conc_note), fails_json.join(","));
    std::fs::write(format!("{}/ref.txt", a.out), reff).unwrap();
    out.finish(&report);
}
fn extract_case(json: &str) -> Option<String> {
    let i = json.find("\"case\"")?;
    let rest = &json[i + 6..];
    let q = rest.find('"')?;
    let mut out = String::new();
    let mut it = rest[q + 1..].chars();
    while let Some(c) = it.next() {
        match c {
            '"' => return Some(out),
            '\\' => match it.next()? { 'n' => out.push('\n'), 't' => out.push('\t'), '"' => out.push('"'), '\\' => out.push('\\'), 'u' => { let h: String = (0..4).filter_map(|_| it.next()).collect(); out.push(char::from_u32(u32::from_str_radix(&h, 16).ok()?)?); } o => out.push(o) },
            c => out.push(c),
        }
    }
    None
}
