//! C12 — correspondence harness for the postcard-style codec (`/repo/crates/serialize`).
//!
//! Runs the REAL `Encode`/`Decode` impls in-process on a type universe instantiated to nesting
//! depth 3, writes one op per line for the Lean driver (`drv_codec`) and what the implementation
//! answered, and judges the implementation directly (oracle: decode(encode v) == v, consumed == len,
//! values written back to back are read back in sequence).
//!
//! Line protocol (fields separated by `|`):
//!   V|desc|value|junkhex            -> hex|OUTCOME
//!   P|n|desc1|val1|..|descn|valn|junkhex -> hex|OUTCOME1|..|OUTCOMEn   (back to back, one stream)
//!   M|desc|streamhex                -> OUTCOME            (malformed / mutated stream)
//!   I|mode|item;item;..|junkhex     -> hex|IOUTCOME       (interned handles; mode fresh|warm)
//!   J|mode|itemty;..|pre;..|streamhex -> IOUTCOME         (mutated interned stream)
//! OUTCOME = ok|rendering|consumed  or  eof / invalid / panic.
#![allow(clippy::all, dead_code, unused_imports, unused_macros)]
use std::any::type_name;
use std::borrow::Cow;
use std::cell::{Cell, RefCell};
use std::cmp::Reverse;
use std::collections::{BTreeMap, BTreeSet, HashMap, HashSet, LinkedList, VecDeque};
use std::hash::Hash;
use std::io;
use std::marker::PhantomData;
use std::num::*;
use std::ops::{Bound, Range, RangeFrom, RangeFull, RangeInclusive, RangeTo, RangeToInclusive};
use std::panic::{catch_unwind, AssertUnwindSafe};
use std::path::{Path, PathBuf};
use std::rc::Rc;
use std::sync::atomic::*;
use std::sync::Arc;
use std::time::Duration;

use bitvec::prelude::{BitVec, Lsb0, Msb0};
use dashmap::{DashMap, DashSet};
use fxhash::FxBuildHasher;
use qbice_serialize::{session::Session, Decode, Decoder, Encode, Encoder, Plugin, PostcardDecoder, PostcardEncoder};
use qbice_stable_hash::{BuildStableHasher, Sip128Hasher, StableHash, StableHasher};
use qbice_storage::intern::{Interned, Interner};
use qbice_verif_harness::{args, hex, jstr, unhex, Out, Rng};
use smallvec::SmallVec;

// ------------------------------------------------------------------------------------------------
// generation context
// ------------------------------------------------------------------------------------------------
pub struct Gen {
    pub rng: Rng,
    pub size: u32, // collection size budget, shrinks with nesting
}
impl Gen {
    fn len(&mut self) -> usize {
        // mostly small; now and then long enough for a 2-byte length prefix
        let s = self.size;
        if s >= 4 && self.rng.chance(1, 40) { return self.rng.range(126, 131) as usize; }
        let m = match s { 0 => 1, 1 => 2, 2 => 3, _ => 5 };
        self.rng.below(m + 1) as usize
    }
    fn sub<R>(&mut self, f: impl FnOnce(&mut Gen) -> R) -> R {
        let old = self.size;
        self.size = old.saturating_sub(1).min(3).max(if old > 0 { 1 } else { 0 });
        if old >= 4 { self.size = 2; }
        let r = f(self);
        self.size = old;
        r
    }
}

/// every 7-bit varint boundary ±1, plus 0/1/max/max-1
fn u_edges(bits: u32) -> Vec<u128> {
    let max: u128 = if bits == 128 { u128::MAX } else { (1u128 << bits) - 1 };
    let mut v = vec![0, 1, max, max - 1];
    let mut k = 7;
    while k < bits + 7 {
        if k < 128 {
            let b = 1u128 << k;
            for d in [b.wrapping_sub(1), b, b.wrapping_add(1)] { if d <= max { v.push(d); } }
        }
        k += 7;
    }
    v.sort(); v.dedup(); v
}
/// zigzag boundaries: |i| around 2^(7k-1), plus min/max/0/±1
fn i_edges(bits: u32) -> Vec<i128> {
    let max: i128 = if bits == 128 { i128::MAX } else { (1i128 << (bits - 1)) - 1 };
    let min: i128 = if bits == 128 { i128::MIN } else { -(1i128 << (bits - 1)) };
    let mut v = vec![0, 1, -1, 2, -2, max, max - 1, min, min + 1];
    let mut k = 7;
    while k < bits + 7 {
        if k - 1 < 127 {
            let b = 1i128 << (k - 1);
            for d in [b - 1, b, b + 1] {
                for s in [d, -d, -d - 1] { if s <= max && s >= min { v.push(s); } }
            }
        }
        k += 7;
    }
    v.sort(); v.dedup(); v
}
fn gen_u(g: &mut Gen, bits: u32) -> u128 {
    let max: u128 = if bits == 128 { u128::MAX } else { (1u128 << bits) - 1 };
    if g.rng.chance(2, 5) { let e = u_edges(bits); return *g.rng.pick(&e); }
    let nb = g.rng.range(0, bits as u64) as u32;
    let r = ((g.rng.next() as u128) << 64) | g.rng.next() as u128;
    if nb == 0 { 0 } else if nb >= 128 { r & max } else { (r & ((1u128 << nb) - 1)) & max }
}
fn gen_i(g: &mut Gen, bits: u32) -> i128 {
    if g.rng.chance(2, 5) { let e = i_edges(bits); return *g.rng.pick(&e); }
    let u = gen_u(g, bits);
    // reinterpret as two's complement of width `bits`
    if bits == 128 { u as i128 } else {
        let sign = 1u128 << (bits - 1);
        if u & sign != 0 { (u as i128) - (1i128 << bits) } else { u as i128 }
    }
}

const STR_POOL: &[&str] = &["", "a", "hello", "é", "漢字", "😀", "a\u{0}b", "\u{7f}\u{80}\u{7ff}\u{800}\u{ffff}\u{10000}\u{10ffff}", "|,()[]#:;", "ß∂ƒ"];
fn gen_string(g: &mut Gen) -> String {
    if g.rng.chance(1, 30) { let n = g.rng.range(126, 131) as usize; return "x".repeat(n); }
    if g.rng.chance(1, 3) {
        let n = g.rng.below(6) as usize;
        (0..n).map(|_| gen_char(g)).collect()
    } else { (*g.rng.pick(STR_POOL)).to_string() }
}
const CHAR_EDGES: &[u32] = &[0, 1, 0x7f, 0x80, 0x81, 0x3fff, 0x4000, 0x4001, 0xD7FF, 0xE000, 0xFFFF, 0x10000, 0x10FFFF, 0x1FFFF, 0x41, 0x1F600];
fn gen_char(g: &mut Gen) -> char {
    loop {
        let c = if g.rng.chance(1, 2) { *g.rng.pick(CHAR_EDGES) } else { g.rng.below(0x110000) as u32 };
        if let Some(c) = char::from_u32(c) { return c; }
    }
}

// ------------------------------------------------------------------------------------------------
// Describe: type descriptor, canonical rendering, generator, oracle equality
// ------------------------------------------------------------------------------------------------
pub trait Describe: Sized + Encode + Decode + 'static {
    fn desc() -> String;
    fn depth() -> u32 { 0 }
    fn gen(g: &mut Gen) -> Self;
    fn render(&self) -> String;
    /// oracle equality: `decoded` is what a round trip of `self` must give
    /// (skipped fields: the declared default; floats: same bits; unordered collections: as sets)
    fn same(&self, decoded: &Self) -> bool;
    fn edges() -> Vec<Self> { vec![] }
    fn from_u16(_x: u16) -> Option<Self> { None }
}

fn shex(b: &[u8]) -> String { let mut s = String::from("s"); for x in b { s.push_str(&format!("{:02x}", x)); } s }
fn list(items: Vec<String>) -> String { format!("[{}]", items.join(",")) }
fn sorted_list(mut items: Vec<String>) -> String { items.sort(); list(items) }

macro_rules! uint_leaf { ($($t:ty, $d:expr, $bits:expr);*) => {$(
    impl Describe for $t {
        fn desc() -> String { $d.into() }
        fn gen(g: &mut Gen) -> Self { gen_u(g, $bits) as $t }
        fn render(&self) -> String { format!("{}", self) }
        fn same(&self, o: &Self) -> bool { self == o }
        fn edges() -> Vec<Self> { u_edges($bits).into_iter().map(|x| x as $t).collect() }
        fn from_u16(x: u16) -> Option<Self> { if $bits == 16 { Some(x as $t) } else { None } }
    }
)*}}
macro_rules! sint_leaf { ($($t:ty, $d:expr, $bits:expr);*) => {$(
    impl Describe for $t {
        fn desc() -> String { $d.into() }
        fn gen(g: &mut Gen) -> Self { gen_i(g, $bits) as $t }
        fn render(&self) -> String { format!("{}", self) }
        fn same(&self, o: &Self) -> bool { self == o }
        fn edges() -> Vec<Self> { i_edges($bits).into_iter().map(|x| x as $t).collect() }
        fn from_u16(x: u16) -> Option<Self> { if $bits == 16 { Some(x as i16 as $t) } else { None } }
    }
)*}}
uint_leaf!(u8, "u8", 8; u16, "u16", 16; u32, "u32", 32; u64, "u64", 64; u128, "u128", 128; usize, "usize", 64);
sint_leaf!(i8, "i8", 8; i16, "i16", 16; i32, "i32", 32; i64, "i64", 64; i128, "i128", 128; isize, "isize", 64);

macro_rules! nz_leaf { ($($t:ty, $inner:ty, $d:expr);*) => {$(
    impl Describe for $t {
        fn desc() -> String { $d.into() }
        fn gen(g: &mut Gen) -> Self { loop { if let Some(x) = <$t>::new(<$inner>::gen(g)) { return x; } } }
        fn render(&self) -> String { format!("{}", self.get()) }
        fn same(&self, o: &Self) -> bool { self == o }
        fn edges() -> Vec<Self> { <$inner>::edges().into_iter().filter_map(<$t>::new).collect() }
        fn from_u16(x: u16) -> Option<Self> { <$inner>::from_u16(x).and_then(<$t>::new) }
    }
)*}}
nz_leaf!(NonZeroU8, u8, "nzu8"; NonZeroU16, u16, "nzu16"; NonZeroU32, u32, "nzu32"; NonZeroU64, u64, "nzu64";
         NonZeroU128, u128, "nzu128"; NonZeroUsize, usize, "nzusize";
         NonZeroI8, i8, "nzi8"; NonZeroI16, i16, "nzi16"; NonZeroI32, i32, "nzi32"; NonZeroI64, i64, "nzi64";
         NonZeroI128, i128, "nzi128"; NonZeroIsize, isize, "nzisize");

macro_rules! atomic_leaf { ($($t:ty, $inner:ty);*) => {$(
    impl Describe for $t {
        fn desc() -> String { <$inner>::desc() }
        fn gen(g: &mut Gen) -> Self { <$t>::new(<$inner>::gen(g)) }
        fn render(&self) -> String { self.load(Ordering::Relaxed).render() }
        fn same(&self, o: &Self) -> bool { self.load(Ordering::Relaxed) == o.load(Ordering::Relaxed) }
    }
)*}}
atomic_leaf!(AtomicBool, bool; AtomicI8, i8; AtomicI16, i16; AtomicI32, i32; AtomicI64, i64; AtomicIsize, isize;
             AtomicU8, u8; AtomicU16, u16; AtomicU32, u32; AtomicU64, u64; AtomicUsize, usize);

impl Describe for bool {
    fn desc() -> String { "bool".into() }
    fn gen(g: &mut Gen) -> Self { g.rng.chance(1, 2) }
    fn render(&self) -> String { if *self { "T".into() } else { "F".into() } }
    fn same(&self, o: &Self) -> bool { self == o }
    fn edges() -> Vec<Self> { vec![false, true] }
}
impl Describe for char {
    fn desc() -> String { "char".into() }
    fn gen(g: &mut Gen) -> Self { gen_char(g) }
    fn render(&self) -> String { format!("{}", *self as u32) }
    fn same(&self, o: &Self) -> bool { self == o }
    fn edges() -> Vec<Self> { CHAR_EDGES.iter().filter_map(|c| char::from_u32(*c)).collect() }
}
impl Describe for f32 {
    fn desc() -> String { "f32".into() }
    fn gen(g: &mut Gen) -> Self {
        if g.rng.chance(1, 3) { *g.rng.pick(&[0.0f32, -0.0, 1.5, f32::INFINITY, f32::NEG_INFINITY, f32::NAN, f32::MIN_POSITIVE, f32::MAX, f32::from_bits(0x7fc0_0001), f32::from_bits(0xffff_ffff), f32::from_bits(1)]) }
        else { f32::from_bits(g.rng.next() as u32) }
    }
    fn render(&self) -> String { format!("{}", self.to_bits()) }
    fn same(&self, o: &Self) -> bool { self.to_bits() == o.to_bits() }
    fn edges() -> Vec<Self> { [0u32, 1, 0x8000_0000, 0x7f80_0000, 0x7fc0_0000, 0x7fc0_0001, 0xffff_ffff, 0x0102_0304].iter().map(|b| f32::from_bits(*b)).collect() }
}
impl Describe for f64 {
    fn desc() -> String { "f64".into() }
    fn gen(g: &mut Gen) -> Self {
        if g.rng.chance(1, 3) { *g.rng.pick(&[0.0f64, -0.0, 1.5, f64::INFINITY, f64::NAN, f64::MAX, f64::from_bits(0x7ff8_0000_0000_0001), f64::from_bits(u64::MAX), f64::from_bits(1)]) }
        else { f64::from_bits(g.rng.next()) }
    }
    fn render(&self) -> String { format!("{}", self.to_bits()) }
    fn same(&self, o: &Self) -> bool { self.to_bits() == o.to_bits() }
    fn edges() -> Vec<Self> { [0u64, 1, 1 << 63, 0x7ff0_0000_0000_0000, 0x7ff8_0000_0000_0001, u64::MAX, 0x0102_0304_0506_0708].iter().map(|b| f64::from_bits(*b)).collect() }
}
impl Describe for () {
    fn desc() -> String { "unit".into() }
    fn gen(_: &mut Gen) -> Self {}
    fn render(&self) -> String { "U".into() }
    fn same(&self, _: &Self) -> bool { true }
    fn edges() -> Vec<Self> { vec![()] }
}
impl Describe for RangeFull {
    fn desc() -> String { "unit".into() }
    fn gen(_: &mut Gen) -> Self { .. }
    fn render(&self) -> String { "U".into() }
    fn same(&self, _: &Self) -> bool { true }
}
impl<T: 'static> Describe for PhantomData<T> {
    fn desc() -> String { "unit".into() }
    fn depth() -> u32 { 1 }
    fn gen(_: &mut Gen) -> Self { PhantomData }
    fn render(&self) -> String { "U".into() }
    fn same(&self, _: &Self) -> bool { true }
}
impl Describe for String {
    fn desc() -> String { "str".into() }
    fn gen(g: &mut Gen) -> Self { gen_string(g) }
    fn render(&self) -> String { shex(self.as_bytes()) }
    fn same(&self, o: &Self) -> bool { self == o }
    fn edges() -> Vec<Self> { let mut v: Vec<String> = STR_POOL.iter().map(|s| s.to_string()).collect(); v.push("y".repeat(127)); v.push("y".repeat(128)); v.push("z".repeat(16384)); v }
}
macro_rules! str_like { ($($t:ty, $mk:expr);*) => {$(
    impl Describe for $t {
        fn desc() -> String { "str".into() }
        fn depth() -> u32 { 1 }
        fn gen(g: &mut Gen) -> Self { let s = gen_string(g); ($mk)(s) }
        fn render(&self) -> String { shex(AsRef::<std::ffi::OsStr>::as_ref(&**self).to_str().unwrap().as_bytes()) }
        fn same(&self, o: &Self) -> bool { **self == **o }
    }
)*}}
str_like!(Box<str>, |s: String| s.into_boxed_str(); Rc<str>, |s: String| Rc::<str>::from(s); Arc<str>, |s: String| Arc::<str>::from(s);
          Box<Path>, |s: String| PathBuf::from(s).into_boxed_path(); Rc<Path>, |s: String| Rc::<Path>::from(PathBuf::from(s)); Arc<Path>, |s: String| Arc::<Path>::from(PathBuf::from(s)));
impl Describe for PathBuf {
    fn desc() -> String { "str".into() }
    fn gen(g: &mut Gen) -> Self { PathBuf::from(gen_string(g)) }
    fn render(&self) -> String { shex(self.to_str().unwrap().as_bytes()) }
    fn same(&self, o: &Self) -> bool { self == o }
}
impl Describe for Cow<'static, str> {
    fn desc() -> String { "str".into() }
    fn depth() -> u32 { 1 }
    fn gen(g: &mut Gen) -> Self { if g.rng.chance(1, 4) { Cow::Borrowed(*g.rng.pick(STR_POOL)) } else { Cow::Owned(gen_string(g)) } }
    fn render(&self) -> String { shex(self.as_bytes()) }
    fn same(&self, o: &Self) -> bool { self == o }
}
impl Describe for Duration {
    fn desc() -> String { "dur".into() }
    fn gen(g: &mut Gen) -> Self {
        let s = u64::gen(g);
        let n = if g.rng.chance(1, 2) { *g.rng.pick(&[0u32, 1, 127, 128, 16383, 16384, 2097151, 2097152, 268435455, 268435456, 999_999_999, 999_999_998]) } else { g.rng.below(1_000_000_000) as u32 };
        Duration::new(s, n)
    }
    fn render(&self) -> String { format!("[{},{}]", self.as_secs(), self.subsec_nanos()) }
    fn same(&self, o: &Self) -> bool { self == o }
    fn edges() -> Vec<Self> { vec![Duration::new(0, 0), Duration::new(u64::MAX, 999_999_999), Duration::new(1, 268435456), Duration::new(127, 128)] }
}
