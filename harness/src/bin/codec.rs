//! C12 — correspondence harness for the postcard-style codec (`/repo/crates/serialize`).
//!
//! Runs the REAL `Encode`/`Decode` impls in-process on a type universe instantiated to nesting
//! depth 3, writes one op per line for the Lean driver (`drv_codec`) and what the implementation
//! answered, and judges the implementation directly (oracle: decode(encode v) == v, consumed == len,
//! values written back to back are read back in sequence).
//!
//! Line protocol (fields separated by `|`):
//!   V|desc|value|junkhex            -> hex|OUTCOME
//!   P|n|desc1|val1|..|descn|valn|junkhex -> hex|OUTCOME1|..|OUTCOMEn   (back to back, one stream)
//!   M|desc|streamhex                -> OUTCOME            (malformed / mutated stream)
//!   I|mode|item;item;..|junkhex     -> hex|IOUTCOME       (interned handles; mode fresh|warm)
//!   J|mode|itemty;..|pre;..|streamhex -> IOUTCOME         (mutated interned stream)
//!   N|mode|env|type|value|junkhex|extra -> hex|OUTCOME    (nested interned handles: handles inside handle payloads;
//!                                                          a handle prints its hash in the op, its allocation class in the outcome)
//!   O|mode|env|type|value|streamhex -> OUTCOME            (mutated nested stream)
//!   Q|env|type|value                -> hex                (nested, colliding hashes: encoder only)
//!   K|env|type|value|junkhex|ty~val^ty~val.. -> hex|OUTCOME (one decode step of a history on a long-lived interner; the last
//!                                                          field lists the values alive at that moment)
//! OUTCOME = ok|rendering|consumed  or  eof / invalid / panic.
#![allow(clippy::all, dead_code, unused_imports, unused_macros)]
use std::any::type_name;
use std::borrow::Cow;
use std::cell::{Cell, RefCell};
use std::cmp::Reverse;
use std::collections::{BTreeMap, BTreeSet, HashMap, HashSet, LinkedList, VecDeque};
use std::hash::Hash;
use std::io;
use std::marker::PhantomData;
use std::num::*;
use std::ops::{Bound, Range, RangeFrom, RangeFull, RangeInclusive, RangeTo, RangeToInclusive};
use std::panic::{catch_unwind, AssertUnwindSafe};
use std::path::{Path, PathBuf};
use std::rc::Rc;
use std::sync::atomic::*;
use std::sync::Arc;
use std::time::Duration;

use bitvec::prelude::{BitVec, Lsb0, Msb0};
use dashmap::{DashMap, DashSet};
use fxhash::FxBuildHasher;
use qbice_serialize::{session::Session, Decode, Decoder, Encode, Encoder, Plugin, PostcardDecoder, PostcardEncoder};
use qbice_stable_hash::{BuildStableHasher, Sip128Hasher, StableHash, StableHasher};
use qbice_storage::intern::{Interned, Interner};
use qbice_verif_harness::{args, hex, jstr, unhex, Out, Rng};
use smallvec::SmallVec;

// ------------------------------------------------------------------------------------------------
// generation context
// ------------------------------------------------------------------------------------------------
pub struct Gen {
    pub rng: Rng,
    pub size: u32, // collection size budget, shrinks with nesting
}
impl Gen {
    fn len(&mut self) -> usize {
        // mostly small; now and then long enough for a 2-byte length prefix
        let s = self.size;
        if s >= 4 && self.rng.chance(1, 40) { return self.rng.range(126, 131) as usize; }
        let m = match s { 0 => 1, 1 => 2, 2 => 3, _ => 5 };
        self.rng.below(m + 1) as usize
    }
    fn sub<R>(&mut self, f: impl FnOnce(&mut Gen) -> R) -> R {
        let old = self.size;
        self.size = old.saturating_sub(1).min(3).max(if old > 0 { 1 } else { 0 });
        if old >= 4 { self.size = 2; }
        let r = f(self);
        self.size = old;
        r
    }
}

/// every 7-bit varint boundary ±1, plus 0/1/max/max-1
fn u_edges(bits: u32) -> Vec<u128> {
    let max: u128 = if bits == 128 { u128::MAX } else { (1u128 << bits) - 1 };
    let mut v = vec![0, 1, max, max - 1];
    let mut k = 7;
    while k < bits + 7 {
        if k < 128 {
            let b = 1u128 << k;
            for d in [b.wrapping_sub(1), b, b.wrapping_add(1)] { if d <= max { v.push(d); } }
        }
        k += 7;
    }
    v.sort(); v.dedup(); v
}
/// zigzag boundaries: |i| around 2^(7k-1), plus min/max/0/±1
fn i_edges(bits: u32) -> Vec<i128> {
    let max: i128 = if bits == 128 { i128::MAX } else { (1i128 << (bits - 1)) - 1 };
    let min: i128 = if bits == 128 { i128::MIN } else { -(1i128 << (bits - 1)) };
    let mut v = vec![0, 1, -1, 2, -2, max, max - 1, min, min + 1];
    let mut k = 7;
    while k < bits + 7 {
        if k - 1 < 127 {
            let b = 1i128 << (k - 1);
            for d in [b - 1, b, b + 1] {
                for s in [d, -d, -d - 1] { if s <= max && s >= min { v.push(s); } }
            }
        }
        k += 7;
    }
    v.sort(); v.dedup(); v
}
fn gen_u(g: &mut Gen, bits: u32) -> u128 {
    let max: u128 = if bits == 128 { u128::MAX } else { (1u128 << bits) - 1 };
    if g.rng.chance(2, 5) { let e = u_edges(bits); return *g.rng.pick(&e); }
    let nb = g.rng.range(0, bits as u64) as u32;
    let r = ((g.rng.next() as u128) << 64) | g.rng.next() as u128;
    if nb == 0 { 0 } else if nb >= 128 { r & max } else { (r & ((1u128 << nb) - 1)) & max }
}
fn gen_i(g: &mut Gen, bits: u32) -> i128 {
    if g.rng.chance(2, 5) { let e = i_edges(bits); return *g.rng.pick(&e); }
    let u = gen_u(g, bits);
    // reinterpret as two's complement of width `bits`
    if bits == 128 { u as i128 } else {
        let sign = 1u128 << (bits - 1);
        if u & sign != 0 { (u as i128) - (1i128 << bits) } else { u as i128 }
    }
}

const STR_POOL: &[&str] = &["", "a", "hello", "é", "漢字", "😀", "a\u{0}b", "\u{7f}\u{80}\u{7ff}\u{800}\u{ffff}\u{10000}\u{10ffff}", "|,()[]#:;", "ß∂ƒ"];
fn gen_string(g: &mut Gen) -> String {
    if g.rng.chance(1, 30) { let n = g.rng.range(126, 131) as usize; return "x".repeat(n); }
    if g.rng.chance(1, 3) {
        let n = g.rng.below(6) as usize;
        (0..n).map(|_| gen_char(g)).collect()
    } else { (*g.rng.pick(STR_POOL)).to_string() }
}
const CHAR_EDGES: &[u32] = &[0, 1, 0x7f, 0x80, 0x81, 0x3fff, 0x4000, 0x4001, 0xD7FF, 0xE000, 0xFFFF, 0x10000, 0x10FFFF, 0x1FFFF, 0x41, 0x1F600];
fn gen_char(g: &mut Gen) -> char {
    loop {
        let c = if g.rng.chance(1, 2) { *g.rng.pick(CHAR_EDGES) } else { g.rng.below(0x110000) as u32 };
        if let Some(c) = char::from_u32(c) { return c; }
    }
}

// ------------------------------------------------------------------------------------------------
// Describe: type descriptor, canonical rendering, generator, oracle equality
// ------------------------------------------------------------------------------------------------
pub trait Describe: Sized + Encode + Decode + 'static {
    fn desc() -> String;
    fn depth() -> u32 { 0 }
    fn mk(g: &mut Gen) -> Self;
    fn render(&self) -> String;
    /// oracle equality: `decoded` is what a round trip of `self` must give
    /// (skipped fields: the declared default; floats: same bits; unordered collections: as sets)
    fn same(&self, decoded: &Self) -> bool;
    fn edges() -> Vec<Self> { vec![] }
    fn from_u16(_x: u16) -> Option<Self> { None }
}

fn shex(b: &[u8]) -> String { let mut s = String::from("s"); for x in b { s.push_str(&format!("{:02x}", x)); } s }
fn list(items: Vec<String>) -> String { format!("[{}]", items.join(",")) }
fn sorted_list(mut items: Vec<String>) -> String { items.sort(); list(items) }

macro_rules! uint_leaf { ($($t:ty, $d:expr, $bits:expr);*) => {$(
    impl Describe for $t {
        fn desc() -> String { $d.into() }
        fn mk(g: &mut Gen) -> Self { gen_u(g, $bits) as $t }
        fn render(&self) -> String { format!("{}", self) }
        fn same(&self, o: &Self) -> bool { self == o }
        fn edges() -> Vec<Self> { u_edges($bits).into_iter().map(|x| x as $t).collect() }
        fn from_u16(x: u16) -> Option<Self> { if $bits == 16 { Some(x as $t) } else { None } }
    }
)*}}
macro_rules! sint_leaf { ($($t:ty, $d:expr, $bits:expr);*) => {$(
    impl Describe for $t {
        fn desc() -> String { $d.into() }
        fn mk(g: &mut Gen) -> Self { gen_i(g, $bits) as $t }
        fn render(&self) -> String { format!("{}", self) }
        fn same(&self, o: &Self) -> bool { self == o }
        fn edges() -> Vec<Self> { i_edges($bits).into_iter().map(|x| x as $t).collect() }
        fn from_u16(x: u16) -> Option<Self> { if $bits == 16 { Some(x as i16 as $t) } else { None } }
    }
)*}}
uint_leaf!(u8, "u8", 8; u16, "u16", 16; u32, "u32", 32; u64, "u64", 64; u128, "u128", 128; usize, "usize", 64);
sint_leaf!(i8, "i8", 8; i16, "i16", 16; i32, "i32", 32; i64, "i64", 64; i128, "i128", 128; isize, "isize", 64);

macro_rules! nz_leaf { ($($t:ty, $inner:ty, $d:expr);*) => {$(
    impl Describe for $t {
        fn desc() -> String { $d.into() }
        fn mk(g: &mut Gen) -> Self { loop { if let Some(x) = <$t>::new(<$inner>::mk(g)) { return x; } } }
        fn render(&self) -> String { format!("{}", self.get()) }
        fn same(&self, o: &Self) -> bool { self == o }
        fn edges() -> Vec<Self> { <$inner>::edges().into_iter().filter_map(<$t>::new).collect() }
        fn from_u16(x: u16) -> Option<Self> { <$inner>::from_u16(x).and_then(<$t>::new) }
    }
)*}}
nz_leaf!(NonZeroU8, u8, "nzu8"; NonZeroU16, u16, "nzu16"; NonZeroU32, u32, "nzu32"; NonZeroU64, u64, "nzu64";
         NonZeroU128, u128, "nzu128"; NonZeroUsize, usize, "nzusize";
         NonZeroI8, i8, "nzi8"; NonZeroI16, i16, "nzi16"; NonZeroI32, i32, "nzi32"; NonZeroI64, i64, "nzi64";
         NonZeroI128, i128, "nzi128"; NonZeroIsize, isize, "nzisize");

macro_rules! atomic_leaf { ($($t:ty, $inner:ty);*) => {$(
    impl Describe for $t {
        fn desc() -> String { <$inner>::desc() }
        fn mk(g: &mut Gen) -> Self { <$t>::new(<$inner>::mk(g)) }
        fn render(&self) -> String { self.load(Ordering::Relaxed).render() }
        fn same(&self, o: &Self) -> bool { self.load(Ordering::Relaxed) == o.load(Ordering::Relaxed) }
    }
)*}}
atomic_leaf!(AtomicBool, bool; AtomicI8, i8; AtomicI16, i16; AtomicI32, i32; AtomicI64, i64; AtomicIsize, isize;
             AtomicU8, u8; AtomicU16, u16; AtomicU32, u32; AtomicU64, u64; AtomicUsize, usize);

impl Describe for bool {
    fn desc() -> String { "bool".into() }
    fn mk(g: &mut Gen) -> Self { g.rng.chance(1, 2) }
    fn render(&self) -> String { if *self { "T".into() } else { "F".into() } }
    fn same(&self, o: &Self) -> bool { self == o }
    fn edges() -> Vec<Self> { vec![false, true] }
}
impl Describe for char {
    fn desc() -> String { "char".into() }
    fn mk(g: &mut Gen) -> Self { gen_char(g) }
    fn render(&self) -> String { format!("{}", *self as u32) }
    fn same(&self, o: &Self) -> bool { self == o }
    fn edges() -> Vec<Self> { CHAR_EDGES.iter().filter_map(|c| char::from_u32(*c)).collect() }
}
impl Describe for f32 {
    fn desc() -> String { "f32".into() }
    fn mk(g: &mut Gen) -> Self {
        if g.rng.chance(1, 3) { *g.rng.pick(&[0.0f32, -0.0, 1.5, f32::INFINITY, f32::NEG_INFINITY, f32::NAN, f32::MIN_POSITIVE, f32::MAX, f32::from_bits(0x7fc0_0001), f32::from_bits(0xffff_ffff), f32::from_bits(1)]) }
        else { f32::from_bits(g.rng.next() as u32) }
    }
    fn render(&self) -> String { format!("{}", self.to_bits()) }
    fn same(&self, o: &Self) -> bool { self.to_bits() == o.to_bits() }
    fn edges() -> Vec<Self> { [0u32, 1, 0x8000_0000, 0x7f80_0000, 0x7fc0_0000, 0x7fc0_0001, 0xffff_ffff, 0x0102_0304].iter().map(|b| f32::from_bits(*b)).collect() }
}
impl Describe for f64 {
    fn desc() -> String { "f64".into() }
    fn mk(g: &mut Gen) -> Self {
        if g.rng.chance(1, 3) { *g.rng.pick(&[0.0f64, -0.0, 1.5, f64::INFINITY, f64::NAN, f64::MAX, f64::from_bits(0x7ff8_0000_0000_0001), f64::from_bits(u64::MAX), f64::from_bits(1)]) }
        else { f64::from_bits(g.rng.next()) }
    }
    fn render(&self) -> String { format!("{}", self.to_bits()) }
    fn same(&self, o: &Self) -> bool { self.to_bits() == o.to_bits() }
    fn edges() -> Vec<Self> { [0u64, 1, 1 << 63, 0x7ff0_0000_0000_0000, 0x7ff8_0000_0000_0001, u64::MAX, 0x0102_0304_0506_0708].iter().map(|b| f64::from_bits(*b)).collect() }
}
impl Describe for () {
    fn desc() -> String { "unit".into() }
    fn mk(_: &mut Gen) -> Self {}
    fn render(&self) -> String { "U".into() }
    fn same(&self, _: &Self) -> bool { true }
    fn edges() -> Vec<Self> { vec![()] }
}
impl Describe for RangeFull {
    fn desc() -> String { "unit".into() }
    fn mk(_: &mut Gen) -> Self { .. }
    fn render(&self) -> String { "U".into() }
    fn same(&self, _: &Self) -> bool { true }
}
impl<T: 'static + Encode> Describe for PhantomData<T> {
    fn desc() -> String { "unit".into() }
    fn depth() -> u32 { 1 }
    fn mk(_: &mut Gen) -> Self { PhantomData }
    fn render(&self) -> String { "U".into() }
    fn same(&self, _: &Self) -> bool { true }
}
impl Describe for String {
    fn desc() -> String { "str".into() }
    fn mk(g: &mut Gen) -> Self { gen_string(g) }
    fn render(&self) -> String { shex(self.as_bytes()) }
    fn same(&self, o: &Self) -> bool { self == o }
    fn edges() -> Vec<Self> { let mut v: Vec<String> = STR_POOL.iter().map(|s| s.to_string()).collect(); v.push("y".repeat(127)); v.push("y".repeat(128)); v.push("z".repeat(16384)); v }
}
macro_rules! str_like { ($($t:ty, $mk:expr);*) => {$(
    impl Describe for $t {
        fn desc() -> String { "str".into() }
        fn depth() -> u32 { 1 }
        fn mk(g: &mut Gen) -> Self { let s = gen_string(g); ($mk)(s) }
        fn render(&self) -> String { shex(AsRef::<std::ffi::OsStr>::as_ref(&**self).to_str().unwrap().as_bytes()) }
        fn same(&self, o: &Self) -> bool { **self == **o }
    }
)*}}
str_like!(Box<str>, |s: String| s.into_boxed_str(); Rc<str>, |s: String| Rc::<str>::from(s); Arc<str>, |s: String| Arc::<str>::from(s);
          Box<Path>, |s: String| PathBuf::from(s).into_boxed_path(); Rc<Path>, |s: String| Rc::<Path>::from(PathBuf::from(s)); Arc<Path>, |s: String| Arc::<Path>::from(PathBuf::from(s)));
impl Describe for PathBuf {
    fn desc() -> String { "str".into() }
    fn mk(g: &mut Gen) -> Self { PathBuf::from(gen_string(g)) }
    fn render(&self) -> String { shex(self.to_str().unwrap().as_bytes()) }
    fn same(&self, o: &Self) -> bool { self == o }
}
impl Describe for Cow<'static, str> {
    fn desc() -> String { "str".into() }
    fn depth() -> u32 { 1 }
    fn mk(g: &mut Gen) -> Self { if g.rng.chance(1, 4) { Cow::Borrowed(*g.rng.pick(STR_POOL)) } else { Cow::Owned(gen_string(g)) } }
    fn render(&self) -> String { shex(self.as_bytes()) }
    fn same(&self, o: &Self) -> bool { self == o }
}
impl Describe for Duration {
    fn desc() -> String { "dur".into() }
    fn mk(g: &mut Gen) -> Self {
        let s = u64::mk(g);
        let n = if g.rng.chance(1, 2) { *g.rng.pick(&[0u32, 1, 127, 128, 16383, 16384, 2097151, 2097152, 268435455, 268435456, 999_999_999, 999_999_998]) } else { g.rng.below(1_000_000_000) as u32 };
        Duration::new(s, n)
    }
    fn render(&self) -> String { format!("[{},{}]", self.as_secs(), self.subsec_nanos()) }
    fn same(&self, o: &Self) -> bool { self == o }
    fn edges() -> Vec<Self> { vec![Duration::new(0, 0), Duration::new(u64::MAX, 999_999_999), Duration::new(1, 268435456), Duration::new(127, 128)] }
}

// ------------------------------------------------------------------------------------------------
// transparent wrappers
// ------------------------------------------------------------------------------------------------
macro_rules! wrapper { ($($w:ident, $mk:expr, $get:expr);*) => {$(
    impl<T: Describe> Describe for $w<T> {
        fn desc() -> String { T::desc() }
        fn depth() -> u32 { T::depth() + 1 }
        fn mk(g: &mut Gen) -> Self { ($mk)(T::mk(g)) }
        fn render(&self) -> String { ($get)(self, |x: &T| x.render()) }
        fn same(&self, o: &Self) -> bool { ($get)(self, |a: &T| ($get)(o, |b: &T| a.same(b))) }
    }
)*}}
fn with_box<T, R>(b: &Box<T>, f: impl FnOnce(&T) -> R) -> R { f(&**b) }
fn with_rc<T, R>(b: &Rc<T>, f: impl FnOnce(&T) -> R) -> R { f(&**b) }
fn with_arc<T, R>(b: &Arc<T>, f: impl FnOnce(&T) -> R) -> R { f(&**b) }
fn with_refcell<T, R>(b: &RefCell<T>, f: impl FnOnce(&T) -> R) -> R { f(&*b.borrow()) }
fn with_wrapping<T, R>(b: &Wrapping<T>, f: impl FnOnce(&T) -> R) -> R { f(&b.0) }
fn with_reverse<T, R>(b: &Reverse<T>, f: impl FnOnce(&T) -> R) -> R { f(&b.0) }
wrapper!(Box, Box::new, with_box; Rc, Rc::new, with_rc; Arc, Arc::new, with_arc; RefCell, RefCell::new, with_refcell;
         Wrapping, Wrapping, with_wrapping; Reverse, Reverse, with_reverse);

impl<T: Describe + Copy> Describe for Cell<T> {
    fn desc() -> String { T::desc() }
    fn depth() -> u32 { T::depth() + 1 }
    fn mk(g: &mut Gen) -> Self { Cell::new(T::mk(g)) }
    fn render(&self) -> String { self.get().render() }
    fn same(&self, o: &Self) -> bool { self.get().same(&o.get()) }
}
impl<T: Describe + Clone> Describe for Cow<'static, T> {
    fn desc() -> String { T::desc() }
    fn depth() -> u32 { T::depth() + 1 }
    fn mk(g: &mut Gen) -> Self {
        let v = T::mk(g);
        if g.rng.chance(1, 16) { Cow::Borrowed(Box::leak(Box::new(v))) } else { Cow::Owned(v) }
    }
    fn render(&self) -> String { (**self).render() }
    fn same(&self, o: &Self) -> bool { (**self).same(&**o) }
}

// ------------------------------------------------------------------------------------------------
// Option / Result / Bound
// ------------------------------------------------------------------------------------------------
impl<T: Describe> Describe for Option<T> {
    fn desc() -> String { format!("opt({})", T::desc()) }
    fn depth() -> u32 { T::depth() + 1 }
    fn mk(g: &mut Gen) -> Self { if g.rng.chance(1, 4) { None } else { Some(T::mk(g)) } }
    fn render(&self) -> String { match self { None => "#0(U)".into(), Some(v) => format!("#1({})", v.render()) } }
    fn same(&self, o: &Self) -> bool { match (self, o) { (None, None) => true, (Some(a), Some(b)) => a.same(b), _ => false } }
}
impl<T: Describe, E: Describe> Describe for Result<T, E> {
    fn desc() -> String { format!("res({},{})", T::desc(), E::desc()) }
    fn depth() -> u32 { T::depth().max(E::depth()) + 1 }
    fn mk(g: &mut Gen) -> Self { if g.rng.chance(1, 2) { Ok(T::mk(g)) } else { Err(E::mk(g)) } }
    fn render(&self) -> String { match self { Err(e) => format!("#0({})", e.render()), Ok(v) => format!("#1({})", v.render()) } }
    fn same(&self, o: &Self) -> bool { match (self, o) { (Ok(a), Ok(b)) => a.same(b), (Err(a), Err(b)) => a.same(b), _ => false } }
}
impl<T: Describe> Describe for Bound<T> {
    fn desc() -> String { format!("bound({})", T::desc()) }
    fn depth() -> u32 { T::depth() + 1 }
    fn mk(g: &mut Gen) -> Self { match g.rng.below(3) { 0 => Bound::Unbounded, 1 => Bound::Included(T::mk(g)), _ => Bound::Excluded(T::mk(g)) } }
    fn render(&self) -> String { match self { Bound::Unbounded => "#0(U)".into(), Bound::Included(v) => format!("#1({})", v.render()), Bound::Excluded(v) => format!("#2({})", v.render()) } }
    fn same(&self, o: &Self) -> bool { match (self, o) { (Bound::Unbounded, Bound::Unbounded) => true, (Bound::Included(a), Bound::Included(b)) => a.same(b), (Bound::Excluded(a), Bound::Excluded(b)) => a.same(b), _ => false } }
}

// ------------------------------------------------------------------------------------------------
// sequences
// ------------------------------------------------------------------------------------------------
fn gen_vec<T: Describe>(g: &mut Gen) -> Vec<T> { let n = g.len(); g.sub(|g| (0..n).map(|_| T::mk(g)).collect()) }
fn same_iter<'a, T: Describe>(a: impl Iterator<Item = &'a T>, b: impl Iterator<Item = &'a T>) -> bool {
    let a: Vec<&T> = a.collect(); let b: Vec<&T> = b.collect();
    a.len() == b.len() && a.iter().zip(b.iter()).all(|(x, y)| x.same(y))
}
macro_rules! seq_like { ($($t:ty, [$($gp:tt)*], $from:expr);*) => {$(
    impl<$($gp)*> Describe for $t {
        fn desc() -> String { format!("seq({})", T::desc()) }
        fn depth() -> u32 { T::depth() + 1 }
        fn mk(g: &mut Gen) -> Self { ($from)(gen_vec::<T>(g)) }
        fn render(&self) -> String { list(self.iter().map(|x| x.render()).collect()) }
        fn same(&self, o: &Self) -> bool { same_iter(self.iter(), o.iter()) }
    }
)*}}
seq_like!(Vec<T>, [T: Describe], |v: Vec<T>| v;
          VecDeque<T>, [T: Describe], |v: Vec<T>| { let mut v = v; let tail = v.split_off(v.len() / 2); let mut d: VecDeque<T> = tail.into_iter().collect(); for x in v.into_iter().rev() { d.push_front(x); } d };
          LinkedList<T>, [T: Describe], |v: Vec<T>| v.into_iter().collect::<LinkedList<T>>();
          Box<[T]>, [T: Describe], |v: Vec<T>| v.into_boxed_slice();
          Rc<[T]>, [T: Describe], |v: Vec<T>| Rc::<[T]>::from(v);
          Arc<[T]>, [T: Describe], |v: Vec<T>| Arc::<[T]>::from(v);
          SmallVec<[T; 2]>, [T: Describe], |v: Vec<T>| v.into_iter().collect::<SmallVec<[T; 2]>>();
          Cow<'static, [T]>, [T: Describe + Clone], |v: Vec<T>| Cow::<'static, [T]>::Owned(v));

impl<T: Describe, const N: usize> Describe for [T; N] {
    fn desc() -> String { format!("arr({},{})", N, T::desc()) }
    fn depth() -> u32 { T::depth() + 1 }
    fn mk(g: &mut Gen) -> Self { g.sub(|g| std::array::from_fn(|_| T::mk(g))) }
    fn render(&self) -> String { list(self.iter().map(|x| x.render()).collect()) }
    fn same(&self, o: &Self) -> bool { same_iter(self.iter(), o.iter()) }
}

// ------------------------------------------------------------------------------------------------
// sets and maps (a map is a sequence of pairs in iteration order; rendering of a *decoded* collection is
// sorted, the value on the op line is in iteration order = encoding order)
// ------------------------------------------------------------------------------------------------
pub type FxSet<T> = HashSet<T, FxBuildHasher>;
pub type FxMap<K, V> = HashMap<K, V, FxBuildHasher>;
pub type FxDashSet<T> = DashSet<T, FxBuildHasher>;
pub type FxDashMap<K, V> = DashMap<K, V, FxBuildHasher>;

impl<T: Describe + Ord> Describe for BTreeSet<T> {
    fn desc() -> String { format!("set({})", T::desc()) }
    fn depth() -> u32 { T::depth() + 1 }
    fn mk(g: &mut Gen) -> Self { gen_vec::<T>(g).into_iter().collect() }
    fn render(&self) -> String { list(self.iter().map(|x| x.render()).collect()) }
    fn same(&self, o: &Self) -> bool { self.len() == o.len() && self.iter().all(|x| o.get(x).map_or(false, |y| x.same(y))) }
}
impl<T: Describe + Eq + Hash> Describe for FxSet<T> {
    fn desc() -> String { format!("set({})", T::desc()) }
    fn depth() -> u32 { T::depth() + 1 }
    fn mk(g: &mut Gen) -> Self { gen_vec::<T>(g).into_iter().collect() }
    fn render(&self) -> String { list(self.iter().map(|x| x.render()).collect()) }
    fn same(&self, o: &Self) -> bool { self.len() == o.len() && self.iter().all(|x| o.get(x).map_or(false, |y| x.same(y))) }
}
impl<T: Describe + Eq + Hash> Describe for FxDashSet<T> {
    fn desc() -> String { format!("set({})", T::desc()) }
    fn depth() -> u32 { T::depth() + 1 }
    fn mk(g: &mut Gen) -> Self { gen_vec::<T>(g).into_iter().collect() }
    fn render(&self) -> String { list(self.iter().map(|x| x.key().render()).collect()) }
    fn same(&self, o: &Self) -> bool { self.len() == o.len() && self.iter().all(|x| o.get(x.key()).map_or(false, |y| x.key().same(y.key()))) }
}
fn pair(k: String, v: String) -> String { format!("[{},{}]", k, v) }
impl<K: Describe + Ord, V: Describe> Describe for BTreeMap<K, V> {
    fn desc() -> String { format!("map({},{})", K::desc(), V::desc()) }
    fn depth() -> u32 { K::depth().max(V::depth()) + 1 }
    fn mk(g: &mut Gen) -> Self { let ks = gen_vec::<K>(g); g.sub(|g| ks.into_iter().map(|k| (k, V::mk(g))).collect()) }
    fn render(&self) -> String { list(self.iter().map(|(k, v)| pair(k.render(), v.render())).collect()) }
    fn same(&self, o: &Self) -> bool { self.len() == o.len() && self.iter().all(|(k, v)| o.get_key_value(k).map_or(false, |(k2, v2)| k.same(k2) && v.same(v2))) }
}
impl<K: Describe + Eq + Hash, V: Describe> Describe for FxMap<K, V> {
    fn desc() -> String { format!("map({},{})", K::desc(), V::desc()) }
    fn depth() -> u32 { K::depth().max(V::depth()) + 1 }
    fn mk(g: &mut Gen) -> Self { let ks = gen_vec::<K>(g); g.sub(|g| ks.into_iter().map(|k| (k, V::mk(g))).collect()) }
    fn render(&self) -> String { list(self.iter().map(|(k, v)| pair(k.render(), v.render())).collect()) }
    fn same(&self, o: &Self) -> bool { self.len() == o.len() && self.iter().all(|(k, v)| o.get_key_value(k).map_or(false, |(k2, v2)| k.same(k2) && v.same(v2))) }
}
impl<K: Describe + Eq + Hash, V: Describe> Describe for FxDashMap<K, V> {
    fn desc() -> String { format!("map({},{})", K::desc(), V::desc()) }
    fn depth() -> u32 { K::depth().max(V::depth()) + 1 }
    fn mk(g: &mut Gen) -> Self { let ks = gen_vec::<K>(g); g.sub(|g| ks.into_iter().map(|k| (k, V::mk(g))).collect()) }
    fn render(&self) -> String { list(self.iter().map(|r| pair(r.key().render(), r.value().render())).collect()) }
    fn same(&self, o: &Self) -> bool { self.len() == o.len() && self.iter().all(|r| o.get(r.key()).map_or(false, |r2| r.key().same(r2.key()) && r.value().same(r2.value()))) }
}

// ------------------------------------------------------------------------------------------------
// tuples, ranges
// ------------------------------------------------------------------------------------------------
macro_rules! tuple_impl { ($($n:ident $i:tt),+) => {
    impl<$($n: Describe),+> Describe for ($($n,)+) {
        fn desc() -> String { format!("tup({})", vec![$($n::desc()),+].join(",")) }
        fn depth() -> u32 { 0u32 $(.max($n::depth()))+ + 1 }
        fn mk(g: &mut Gen) -> Self { g.sub(|g| ($($n::mk(g),)+)) }
        fn render(&self) -> String { list(vec![$(self.$i.render()),+]) }
        fn same(&self, o: &Self) -> bool { true $(&& self.$i.same(&o.$i))+ }
    }
}}
tuple_impl!(A 0);
tuple_impl!(A 0, B 1);
tuple_impl!(A 0, B 1, C 2);
tuple_impl!(A 0, B 1, C 2, D 3);
tuple_impl!(A 0, B 1, C 2, D 3, E 4);
tuple_impl!(A 0, B 1, C 2, D 3, E 4, F 5);
tuple_impl!(A 0, B 1, C 2, D 3, E 4, F 5, G 6);
tuple_impl!(A 0, B 1, C 2, D 3, E 4, F 5, G 6, H 7);
tuple_impl!(A 0, B 1, C 2, D 3, E 4, F 5, G 6, H 7, I 8);
tuple_impl!(A 0, B 1, C 2, D 3, E 4, F 5, G 6, H 7, I 8, J 9);
tuple_impl!(A 0, B 1, C 2, D 3, E 4, F 5, G 6, H 7, I 8, J 9, K 10);
tuple_impl!(A 0, B 1, C 2, D 3, E 4, F 5, G 6, H 7, I 8, J 9, K 10, L 11);

impl<T: Describe> Describe for Range<T> {
    fn desc() -> String { format!("tup({},{})", T::desc(), T::desc()) }
    fn depth() -> u32 { T::depth() + 1 }
    fn mk(g: &mut Gen) -> Self { T::mk(g)..T::mk(g) }
    fn render(&self) -> String { list(vec![self.start.render(), self.end.render()]) }
    fn same(&self, o: &Self) -> bool { self.start.same(&o.start) && self.end.same(&o.end) }
}
impl<T: Describe> Describe for RangeInclusive<T> {
    fn desc() -> String { format!("tup({},{})", T::desc(), T::desc()) }
    fn depth() -> u32 { T::depth() + 1 }
    fn mk(g: &mut Gen) -> Self { T::mk(g)..=T::mk(g) }
    fn render(&self) -> String { list(vec![self.start().render(), self.end().render()]) }
    fn same(&self, o: &Self) -> bool { self.start().same(o.start()) && self.end().same(o.end()) }
}
impl<T: Describe> Describe for RangeFrom<T> {
    fn desc() -> String { format!("tup({})", T::desc()) }
    fn depth() -> u32 { T::depth() + 1 }
    fn mk(g: &mut Gen) -> Self { T::mk(g).. }
    fn render(&self) -> String { list(vec![self.start.render()]) }
    fn same(&self, o: &Self) -> bool { self.start.same(&o.start) }
}
impl<T: Describe> Describe for RangeTo<T> {
    fn desc() -> String { format!("tup({})", T::desc()) }
    fn depth() -> u32 { T::depth() + 1 }
    fn mk(g: &mut Gen) -> Self { ..T::mk(g) }
    fn render(&self) -> String { list(vec![self.end.render()]) }
    fn same(&self, o: &Self) -> bool { self.end.same(&o.end) }
}
impl<T: Describe> Describe for RangeToInclusive<T> {
    fn desc() -> String { format!("tup({})", T::desc()) }
    fn depth() -> u32 { T::depth() + 1 }
    fn mk(g: &mut Gen) -> Self { ..=T::mk(g) }
    fn render(&self) -> String { list(vec![self.end.render()]) }
    fn same(&self, o: &Self) -> bool { self.end.same(&o.end) }
}

// ------------------------------------------------------------------------------------------------
// derived structs and enums (generic, with skipped fields)
// ------------------------------------------------------------------------------------------------
#[derive(Encode, Decode, Debug, Clone, Copy, PartialEq, Eq, PartialOrd, Ord, Hash)]
#[serialize_crate(qbice_serialize)]
pub struct UnitS;
#[derive(Encode, Decode, Debug, Clone)]
#[serialize_crate(qbice_serialize)]
pub struct NamedS<T> { a: u16, #[serialize(skip)] s: u32, b: T, #[serialize(skip)] z: String, c: i64 }
#[derive(Encode, Decode, Debug, Clone)]
#[serialize_crate(qbice_serialize)]
pub struct TupleS<T>(T, #[serialize(skip)] u8, i32);
#[derive(Encode, Decode, Debug, Clone)]
#[serialize_crate(qbice_serialize)]
pub enum EnumE<T> { A, B(T), C { x: u32, #[serialize(skip)] y: u16, z: T }, D(#[serialize(skip)] u8, T, String), E }
#[derive(Encode, Decode, Debug, Clone)]
#[serialize_crate(qbice_serialize)]
pub struct Pair<A, B> { l: A, r: B }
#[derive(Encode, Decode, Debug, Clone)]
#[serialize_crate(qbice_serialize)]
pub enum Either<A, B> { L(A), R(B), N }
macro_rules! big_enum { ($($v:ident),*) => {
    #[derive(Encode, Decode, Debug, Clone, Copy, PartialEq, Eq, PartialOrd, Ord, Hash)]
    #[serialize_crate(qbice_serialize)]
    pub enum Big { $($v,)* W(u16) }
    const BIG_UNITS: &[Big] = &[$(Big::$v),*];
}}
big_enum!(V0,V1,V2,V3,V4,V5,V6,V7,V8,V9,V10,V11,V12,V13,V14,V15,V16,V17,V18,V19,V20,V21,V22,V23,V24,V25,V26,V27,V28,V29,V30,V31,V32,V33,V34,V35,V36,V37,V38,V39,V40,V41,V42,V43,V44,V45,V46,V47,V48,V49,V50,V51,V52,V53,V54,V55,V56,V57,V58,V59,V60,V61,V62,V63,V64,V65,V66,V67,V68,V69,V70,V71,V72,V73,V74,V75,V76,V77,V78,V79,V80,V81,V82,V83,V84,V85,V86,V87,V88,V89,V90,V91,V92,V93,V94,V95,V96,V97,V98,V99,V100,V101,V102,V103,V104,V105,V106,V107,V108,V109,V110,V111,V112,V113,V114,V115,V116,V117,V118,V119,V120,V121,V122,V123,V124,V125,V126,V127,V128,V129);

impl Describe for UnitS {
    fn desc() -> String { "tup()".into() }
    fn mk(_: &mut Gen) -> Self { UnitS }
    fn render(&self) -> String { "[]".into() }
    fn same(&self, _: &Self) -> bool { true }
}
impl<T: Describe> Describe for NamedS<T> {
    fn desc() -> String { format!("tup(u16,skip(0),{},skip(s),i64)", T::desc()) }
    fn depth() -> u32 { T::depth() + 1 }
    fn mk(g: &mut Gen) -> Self { NamedS { a: u16::mk(g), s: u32::mk(g), b: g.sub(|g| T::mk(g)), z: gen_string(g), c: i64::mk(g) } }
    fn render(&self) -> String { list(vec![self.a.render(), self.s.render(), self.b.render(), self.z.render(), self.c.render()]) }
    fn same(&self, o: &Self) -> bool { self.a == o.a && o.s == 0 && self.b.same(&o.b) && o.z.is_empty() && self.c == o.c }
}
impl<T: Describe> Describe for TupleS<T> {
    fn desc() -> String { format!("tup({},skip(0),i32)", T::desc()) }
    fn depth() -> u32 { T::depth() + 1 }
    fn mk(g: &mut Gen) -> Self { TupleS(g.sub(|g| T::mk(g)), u8::mk(g), i32::mk(g)) }
    fn render(&self) -> String { list(vec![self.0.render(), self.1.render(), self.2.render()]) }
    fn same(&self, o: &Self) -> bool { self.0.same(&o.0) && o.1 == 0 && self.2 == o.2 }
}
impl<T: Describe> Describe for EnumE<T> {
    fn desc() -> String { let t = T::desc(); format!("enum(tup(),tup({t}),tup(u32,skip(0),{t}),tup(skip(0),{t},str),tup())") }
    fn depth() -> u32 { T::depth() + 1 }
    fn mk(g: &mut Gen) -> Self {
        match g.rng.below(5) {
            0 => EnumE::A, 1 => EnumE::B(g.sub(|g| T::mk(g))),
            2 => EnumE::C { x: u32::mk(g), y: u16::mk(g), z: g.sub(|g| T::mk(g)) },
            3 => EnumE::D(u8::mk(g), g.sub(|g| T::mk(g)), gen_string(g)), _ => EnumE::E }
    }
    fn render(&self) -> String {
        match self {
            EnumE::A => "#0([])".into(), EnumE::B(t) => format!("#1([{}])", t.render()),
            EnumE::C { x, y, z } => format!("#2([{},{},{}])", x.render(), y.render(), z.render()),
            EnumE::D(a, t, s) => format!("#3([{},{},{}])", a.render(), t.render(), s.render()), EnumE::E => "#4([])".into() }
    }
    fn same(&self, o: &Self) -> bool {
        match (self, o) {
            (EnumE::A, EnumE::A) | (EnumE::E, EnumE::E) => true,
            (EnumE::B(a), EnumE::B(b)) => a.same(b),
            (EnumE::C { x, z, .. }, EnumE::C { x: x2, y: y2, z: z2 }) => x == x2 && *y2 == 0 && z.same(z2),
            (EnumE::D(_, t, s), EnumE::D(a2, t2, s2)) => *a2 == 0 && t.same(t2) && s == s2,
            _ => false }
    }
}
impl<A: Describe, B: Describe> Describe for Pair<A, B> {
    fn desc() -> String { format!("tup({},{})", A::desc(), B::desc()) }
    fn depth() -> u32 { A::depth().max(B::depth()) + 1 }
    fn mk(g: &mut Gen) -> Self { g.sub(|g| Pair { l: A::mk(g), r: B::mk(g) }) }
    fn render(&self) -> String { list(vec![self.l.render(), self.r.render()]) }
    fn same(&self, o: &Self) -> bool { self.l.same(&o.l) && self.r.same(&o.r) }
}
impl<A: Describe, B: Describe> Describe for Either<A, B> {
    fn desc() -> String { format!("enum(tup({}),tup({}),tup())", A::desc(), B::desc()) }
    fn depth() -> u32 { A::depth().max(B::depth()) + 1 }
    fn mk(g: &mut Gen) -> Self { match g.rng.below(5) { 0 | 1 => Either::L(g.sub(|g| A::mk(g))), 2 | 3 => Either::R(g.sub(|g| B::mk(g))), _ => Either::N } }
    fn render(&self) -> String { match self { Either::L(a) => format!("#0([{}])", a.render()), Either::R(b) => format!("#1([{}])", b.render()), Either::N => "#2([])".into() } }
    fn same(&self, o: &Self) -> bool { match (self, o) { (Either::L(a), Either::L(b)) => a.same(b), (Either::R(a), Either::R(b)) => a.same(b), (Either::N, Either::N) => true, _ => false } }
}
impl Describe for Big {
    fn desc() -> String { let mut v = vec!["tup()".to_string(); BIG_UNITS.len()]; v.push("tup(u16)".into()); format!("enum({})", v.join(",")) }
    fn mk(g: &mut Gen) -> Self { if g.rng.chance(1, 4) { Big::W(u16::mk(g)) } else if g.rng.chance(1, 2) { *g.rng.pick(&[Big::V0, Big::V1, Big::V126, Big::V127, Big::V128, Big::V129]) } else { *g.rng.pick(BIG_UNITS) } }
    fn render(&self) -> String { match self { Big::W(x) => format!("#{}([{}])", BIG_UNITS.len(), x), u => format!("#{}([])", BIG_UNITS.iter().position(|b| b == u).unwrap()) } }
    fn same(&self, o: &Self) -> bool { self == o }
    fn edges() -> Vec<Self> { let mut v = BIG_UNITS.to_vec(); v.push(Big::W(0)); v.push(Big::W(65535)); v }
}

// ------------------------------------------------------------------------------------------------
// BitVec (feature bitvec)
// ------------------------------------------------------------------------------------------------
macro_rules! bitvec_impl { ($($t:ty, $o:ty, $w:expr, $oc:expr, $bits:expr);*) => {$(
    impl Describe for BitVec<$t, $o> {
        fn desc() -> String { format!("bv({},{})", $w, $oc) }
        fn mk(g: &mut Gen) -> Self {
            let len: usize = if g.rng.chance(1, 10) { 0 } else if g.rng.chance(1, 2) {
                let k = g.rng.range(1, 4) as usize; let base = *g.rng.pick(&[8usize, $bits]) * k; (base + 1 - g.rng.below(3) as usize).max(1)
            } else { g.rng.range(1, 200) as usize };
            if len == 0 { return BitVec::new(); }
            let nw = (len + $bits - 1) / $bits;
            let words: Vec<$t> = (0..nw).map(|_| <$t>::mk(g)).collect();
            let mut bv = BitVec::<$t, $o>::from_vec(words);
            bv.truncate(len);
            bv
        }
        fn render(&self) -> String { format!("b{}:{}", self.len(), self.as_raw_slice().iter().map(|w| w.to_string()).collect::<Vec<_>>().join(".")) }
        fn same(&self, o: &Self) -> bool { self.len() == o.len() && self == o }
    }
)*}}
bitvec_impl!(u8, Lsb0, "8", "L", 8; u8, Msb0, "8", "M", 8; u16, Lsb0, "16", "L", 16; u16, Msb0, "16", "M", 16;
             u32, Lsb0, "32", "L", 32; u32, Msb0, "32", "M", 32; u64, Lsb0, "64", "L", 64; u64, Msb0, "64", "M", 64;
             usize, Lsb0, "size", "L", 64; usize, Msb0, "size", "M", 64);

// ------------------------------------------------------------------------------------------------
// running the real codec: outcome classes, tracing encoder, guarded decoder
// ------------------------------------------------------------------------------------------------
#[derive(Clone, Debug, PartialEq)]
pub enum Outcome { Ok { render: String, consumed: usize }, Eof, Invalid, Other(String), Panic }
impl Outcome {
    fn show(&self) -> String {
        match self {
            Outcome::Ok { render, consumed } => format!("ok|{}|{}", render, consumed),
            Outcome::Eof => "eof".into(), Outcome::Invalid => "invalid".into(),
            Outcome::Other(k) => format!("other:{k}"), Outcome::Panic => "panic".into() }
    }
    fn class(&self) -> &'static str { match self { Outcome::Ok { .. } => "ok", Outcome::Eof => "eof", Outcome::Invalid => "invalid", Outcome::Other(_) => "other", Outcome::Panic => "panic" } }
}
fn classify(e: &io::Error) -> Outcome {
    match e.kind() { io::ErrorKind::UnexpectedEof => Outcome::Eof, io::ErrorKind::InvalidData => Outcome::Invalid, k => Outcome::Other(format!("{k:?}")) }
}

#[derive(Clone, Copy, Debug, PartialEq)]
pub enum Kind { U8, U16, U32, U64, U128, Usize, I8, I16, I32, I64, I128, Isize, Bool, Char, F32, F64, Raw }
#[derive(Clone, Debug)]
pub struct Rec { kind: Kind, off: usize, len: usize }
/// An `Encoder` that delegates every primitive to the real `PostcardEncoder` and records where each
/// primitive landed — the map used to mutate streams structurally.
pub struct Tracer { inner: PostcardEncoder<Vec<u8>>, recs: Vec<Rec> }
impl Tracer {
    fn new() -> Self { Tracer { inner: PostcardEncoder::new(Vec::new()), recs: vec![] } }
    fn rec<R>(&mut self, kind: Kind, f: impl FnOnce(&mut PostcardEncoder<Vec<u8>>) -> R) -> R {
        let off = self.inner.get_ref().len();
        let r = f(&mut self.inner);
        let len = self.inner.get_ref().len() - off;
        self.recs.push(Rec { kind, off, len });
        r
    }
}
impl Encoder for Tracer {
    fn emit_u8(&mut self, v: u8) -> io::Result<()> { self.rec(Kind::U8, |e| e.emit_u8(v)) }
    fn emit_u16(&mut self, v: u16) -> io::Result<()> { self.rec(Kind::U16, |e| e.emit_u16(v)) }
    fn emit_u32(&mut self, v: u32) -> io::Result<()> { self.rec(Kind::U32, |e| e.emit_u32(v)) }
    fn emit_u64(&mut self, v: u64) -> io::Result<()> { self.rec(Kind::U64, |e| e.emit_u64(v)) }
    fn emit_u128(&mut self, v: u128) -> io::Result<()> { self.rec(Kind::U128, |e| e.emit_u128(v)) }
    fn emit_usize(&mut self, v: usize) -> io::Result<()> { self.rec(Kind::Usize, |e| e.emit_usize(v)) }
    fn emit_i8(&mut self, v: i8) -> io::Result<()> { self.rec(Kind::I8, |e| e.emit_i8(v)) }
    fn emit_i16(&mut self, v: i16) -> io::Result<()> { self.rec(Kind::I16, |e| e.emit_i16(v)) }
    fn emit_i32(&mut self, v: i32) -> io::Result<()> { self.rec(Kind::I32, |e| e.emit_i32(v)) }
    fn emit_i64(&mut self, v: i64) -> io::Result<()> { self.rec(Kind::I64, |e| e.emit_i64(v)) }
    fn emit_i128(&mut self, v: i128) -> io::Result<()> { self.rec(Kind::I128, |e| e.emit_i128(v)) }
    fn emit_isize(&mut self, v: isize) -> io::Result<()> { self.rec(Kind::Isize, |e| e.emit_isize(v)) }
    fn emit_raw_bytes(&mut self, s: &[u8]) -> io::Result<()> { self.rec(Kind::Raw, |e| e.emit_raw_bytes(s)) }
    fn emit_bool(&mut self, v: bool) -> io::Result<()> { self.rec(Kind::Bool, |e| e.emit_bool(v)) }
    fn emit_char(&mut self, v: char) -> io::Result<()> { self.rec(Kind::Char, |e| e.emit_char(v)) }
    fn emit_f32(&mut self, v: f32) -> io::Result<()> { self.rec(Kind::F32, |e| e.emit_f32(v)) }
    fn emit_f64(&mut self, v: f64) -> io::Result<()> { self.rec(Kind::F64, |e| e.emit_f64(v)) }
    fn emit_str(&mut self, v: &str) -> io::Result<()> { self.emit_usize(v.len())?; self.emit_raw_bytes(v.as_bytes()) }
    fn emit_bytes(&mut self, v: &[u8]) -> io::Result<()> { self.emit_usize(v.len())?; self.emit_raw_bytes(v) }
}

/// A `Decoder` that delegates every primitive to the real `PostcardDecoder` but stops (and says so) when
/// a `usize` larger than `LIMIT` is read: a mutated length prefix must not make the real code
/// pre-allocate terabytes (allocation failure aborts the process, it cannot be caught).  A tripped case
/// is discarded and counted; an untripped one is re-run on the plain `PostcardDecoder`.
pub struct Guard<'a> { inner: PostcardDecoder<&'a [u8]>, tripped: bool, limit: usize }
const LIMIT: usize = 1 << 16;
/// `--guarded`: also the valid-value stages stop at absurd lengths (used by the plugin to re-run a shard after the
/// real decoder aborted the process on an allocation failure, so that a concrete failing input is still found)
static GUARDED: AtomicBool = AtomicBool::new(false);
fn vlimit() -> usize { if GUARDED.load(Ordering::Relaxed) { LIMIT } else { usize::MAX } }
impl<'a> Guard<'a> {
    fn new(stream: &'a [u8], limit: usize) -> Self { Guard { inner: PostcardDecoder::new(stream), tripped: false, limit } }
    fn remaining(&self) -> usize { self.inner.get_ref().len() }
}
impl<'a> Decoder for Guard<'a> {
    fn read_u8(&mut self) -> io::Result<u8> { self.inner.read_u8() }
    fn read_u16(&mut self) -> io::Result<u16> { self.inner.read_u16() }
    fn read_u32(&mut self) -> io::Result<u32> { self.inner.read_u32() }
    fn read_u64(&mut self) -> io::Result<u64> { self.inner.read_u64() }
    fn read_u128(&mut self) -> io::Result<u128> { self.inner.read_u128() }
    fn read_usize(&mut self) -> io::Result<usize> {
        let v = self.inner.read_usize()?;
        if v > self.limit { self.tripped = true; return Err(io::Error::new(io::ErrorKind::Other, "guard")); }
        Ok(v)
    }
    fn read_i8(&mut self) -> io::Result<i8> { self.inner.read_i8() }
    fn read_i16(&mut self) -> io::Result<i16> { self.inner.read_i16() }
    fn read_i32(&mut self) -> io::Result<i32> { self.inner.read_i32() }
    fn read_i64(&mut self) -> io::Result<i64> { self.inner.read_i64() }
    fn read_i128(&mut self) -> io::Result<i128> { self.inner.read_i128() }
    fn read_isize(&mut self) -> io::Result<isize> { self.inner.read_isize() }
    fn read_raw_bytes(&mut self, len: usize) -> io::Result<Vec<u8>> {
        // `PostcardDecoder::read_raw_bytes` allocates `len` zeroed bytes and then fails with UnexpectedEof when the
        // input is shorter; answer the same without the allocation (which aborts the process when it is absurd)
        if len > self.remaining() { return Err(io::Error::new(io::ErrorKind::UnexpectedEof, "failed to fill whole buffer")); }
        self.inner.read_raw_bytes(len)
    }
    fn read_bool(&mut self) -> io::Result<bool> { self.inner.read_bool() }
    fn read_char(&mut self) -> io::Result<char> { self.inner.read_char() }
    fn read_f32(&mut self) -> io::Result<f32> { self.inner.read_f32() }
    fn read_f64(&mut self) -> io::Result<f64> { self.inner.read_f64() }
}

/// All encoding goes through `Tracer` and all decoding through `Guard` (both only wrap the primitives
/// of the real `PostcardEncoder` / `PostcardDecoder`; the `Encode`/`Decode` impls and the top-level
/// `Encoder::encode` / `Decoder::decode` entry points are the real ones) — one instantiation of the
/// generic impls per type keeps the build time of several hundred types reasonable.
fn trace_real<T: Encode>(v: &T, plugin: &Plugin) -> (Vec<u8>, Vec<Rec>) {
    let mut t = Tracer::new();
    t.encode(v, plugin).expect("encode into a Vec cannot fail");
    (t.inner.into_inner(), t.recs)
}
fn encode_real<T: Encode>(v: &T, plugin: &Plugin) -> Vec<u8> { trace_real(v, plugin).0 }
/// decode one `T` with the real top-level entry point; returns the value or the error class
fn decode_real<T: Decode>(dec: &mut Guard, plugin: &Plugin) -> Result<T, Outcome> {
    match catch_unwind(AssertUnwindSafe(|| dec.decode::<T>(plugin))) {
        Ok(Ok(v)) => Ok(v), Ok(Err(e)) => Err(classify(&e)), Err(_) => Err(Outcome::Panic) }
}

// ------------------------------------------------------------------------------------------------
// type-erased values and the registry of concrete types
// ------------------------------------------------------------------------------------------------
pub trait Erased {
    fn desc(&self) -> String;
    fn render(&self) -> String;
    fn encode_to(&self, enc: &mut Tracer, plugin: &Plugin);
    fn trace(&self, plugin: &Plugin) -> (Vec<u8>, Vec<Rec>);
    /// decode a `T` from `dec`; the outcome, and (if ok) whether it equals `self` by the oracle
    fn decode_cmp(&self, dec: &mut Guard, plugin: &Plugin, star: bool) -> (Outcome, bool);
}
pub struct Holder<T>(pub T);
fn unordered(desc: &str) -> bool { desc.contains("set(") || desc.contains("map(") }
impl<T: Describe> Erased for Holder<T> {
    fn desc(&self) -> String { T::desc() }
    fn render(&self) -> String { self.0.render() }
    fn encode_to(&self, enc: &mut Tracer, plugin: &Plugin) { enc.encode(&self.0, plugin).expect("vec write") }
    fn trace(&self, plugin: &Plugin) -> (Vec<u8>, Vec<Rec>) { trace_real(&self.0, plugin) }
    fn decode_cmp(&self, dec: &mut Guard, plugin: &Plugin, star: bool) -> (Outcome, bool) {
        let before = dec.remaining();
        match decode_real::<T>(dec, plugin) {
            Ok(d) => {
                let consumed = before - dec.remaining();
                let render = if star { "*".to_string() } else { render_decoded(&d) };
                (Outcome::Ok { render, consumed }, self.0.same(&d))
            }
            Err(o) => (o, false),
        }
    }
}
/// rendering of a decoded value: unordered collections sorted.  The sort is applied textually on the
/// rendering of the decoded value by re-parsing it along the descriptor (see `canon`).
fn render_decoded<T: Describe>(d: &T) -> String { canon(&T::desc(), &d.render()) }

pub struct Entry {
    pub rust: &'static str, pub desc: String, pub depth: u32, pub f7: bool,
    pub mk: fn(&mut Gen) -> Box<dyn Erased>,
    pub edges: fn() -> Vec<Box<dyn Erased>>,
    pub from_u16: fn(u16) -> Option<Box<dyn Erased>>,
}
fn entry<T: Describe>() -> Entry {
    let desc = T::desc();
    let f7 = ["bv(16", "bv(32", "bv(64", "bv(size"].iter().any(|p| desc.contains(p));
    Entry { rust: type_name::<T>(), desc, depth: T::depth(), f7,
        mk: |g| Box::new(Holder(T::mk(g))),
        edges: || T::edges().into_iter().map(|v| Box::new(Holder(v)) as Box<dyn Erased>).collect(),
        from_u16: |x| T::from_u16(x).map(|v| Box::new(Holder(v)) as Box<dyn Erased>) }
}

// ---- canonical form of a rendering: entries of set(..)/map(..) nodes sorted -----------------------
#[derive(Debug, Clone)]
enum D { Leaf, Opt(Box<D>), Res(Box<D>, Box<D>), Seq(Box<D>), Set(Box<D>), Map(Box<D>, Box<D>), Arr(Box<D>), Tup(Vec<D>), Enum(Vec<D>), Bound(Box<D>) }
struct P<'a> { s: &'a [u8], i: usize }
impl<'a> P<'a> {
    fn eat(&mut self, c: u8) { assert!(self.s[self.i] == c, "expected {} at {} in {}", c as char, self.i, String::from_utf8_lossy(self.s)); self.i += 1; }
    fn peek(&self) -> u8 { if self.i < self.s.len() { self.s[self.i] } else { 0 } }
    fn ident(&mut self) -> String { let st = self.i; while self.i < self.s.len() && (self.s[self.i].is_ascii_alphanumeric()) { self.i += 1; } String::from_utf8_lossy(&self.s[st..self.i]).into() }
    fn args(&mut self) -> Vec<D> { let mut v = vec![]; self.eat(b'('); if self.peek() == b')' { self.i += 1; return v; } loop { v.push(self.desc()); if self.peek() == b',' { self.i += 1; } else { self.eat(b')'); return v; } } }
    fn desc(&mut self) -> D {
        let id = self.ident();
        match id.as_str() {
            "opt" => { let mut a = self.args(); D::Opt(Box::new(a.remove(0))) }
            "res" => { let mut a = self.args(); let x = a.remove(0); D::Res(Box::new(x), Box::new(a.remove(0))) }
            "seq" => { let mut a = self.args(); D::Seq(Box::new(a.remove(0))) }
            "set" => { let mut a = self.args(); D::Set(Box::new(a.remove(0))) }
            "map" => { let mut a = self.args(); let x = a.remove(0); D::Map(Box::new(x), Box::new(a.remove(0))) }
            "bound" => { let mut a = self.args(); D::Bound(Box::new(a.remove(0))) }
            "arr" => { self.eat(b'('); while self.peek() != b',' { self.i += 1; } self.i += 1; let d = self.desc(); self.eat(b')'); D::Arr(Box::new(d)) }
            "tup" => D::Tup(self.args()),
            "enum" => D::Enum(self.args()),
            "skip" | "bv" => { let mut depth = 0; loop { let c = self.s[self.i]; self.i += 1; if c == b'(' { depth += 1 } else if c == b')' { depth -= 1; if depth == 0 { break; } } } D::Leaf }
            _ => D::Leaf,
        }
    }
    /// re-emit the value at the cursor in canonical form
    fn val(&mut self, d: &D) -> String {
        match d {
            D::Leaf => { let st = self.i; let mut depth = 0i32;
                while self.i < self.s.len() { let c = self.s[self.i]; if c == b'[' || c == b'(' { depth += 1 } else if c == b']' || c == b')' { if depth == 0 { break; } depth -= 1 } else if c == b',' && depth == 0 { break; } self.i += 1; }
                String::from_utf8_lossy(&self.s[st..self.i]).into() }
            D::Opt(t) | D::Bound(t) => { self.eat(b'#'); let tag = self.ident(); self.eat(b'('); let r = if tag == "0" { self.val(&D::Leaf) } else { self.val(t) }; self.eat(b')'); format!("#{tag}({r})") }
            D::Res(t, e) => { self.eat(b'#'); let tag = self.ident(); self.eat(b'('); let r = if tag == "0" { self.val(e) } else { self.val(t) }; self.eat(b')'); format!("#{tag}({r})") }
            D::Enum(vs) => { self.eat(b'#'); let tag = self.ident(); self.eat(b'('); let i: usize = tag.parse().unwrap(); let r = self.val(&vs[i]); self.eat(b')'); format!("#{tag}({r})") }
            D::Seq(t) | D::Arr(t) => list(self.items(|p, _| p.val(t))),
            D::Set(t) => sorted_list(self.items(|p, _| p.val(t))),
            D::Map(k, v) => { let kv = D::Tup(vec![(**k).clone(), (**v).clone()]); sorted_list(self.items(|p, _| p.val(&kv))) }
            D::Tup(ts) => list(self.items(|p, i| p.val(&ts[i]))),
        }
    }
    fn items(&mut self, mut f: impl FnMut(&mut Self, usize) -> String) -> Vec<String> {
        let mut v = vec![]; self.eat(b'['); if self.peek() == b']' { self.i += 1; return v; }
        loop { let i = v.len(); v.push(f(self, i)); if self.peek() == b',' { self.i += 1; } else { self.eat(b']'); return v; } }
    }
}
fn canon(desc: &str, rendering: &str) -> String {
    if !unordered(desc) { return rendering.to_string(); }
    let d = P { s: desc.as_bytes(), i: 0 }.desc();
    P { s: rendering.as_bytes(), i: 0 }.val(&d)
}

// ------------------------------------------------------------------------------------------------
// the universe, instantiated to nesting depth 3 by macro
// ------------------------------------------------------------------------------------------------
type Arr0<T> = [T; 0];
type Arr1<T> = [T; 1];
type Arr3<T> = [T; 3];
type BoxSl<T> = Box<[T]>;
type RcSl<T> = Rc<[T]>;
type ArcSl<T> = Arc<[T]>;
type SV<T> = SmallVec<[T; 2]>;
type Tup1<T> = (T,);
type CowT<T> = Cow<'static, T>;
type CowSl<T> = Cow<'static, [T]>;
type BSet<T> = BTreeSet<T>;

macro_rules! reg { ($v:ident; $($t:ty),* $(,)?) => { $( $v.push(entry::<$t>()); )* } }
macro_rules! cross {
    ($v:ident; [$($c:ident),*]; $ts:tt) => { $( cross!(@one $v; $c; $ts); )* };
    (@one $v:ident; $c:ident; [$($t:ty),*]) => { $( $v.push(entry::<$c<$t>>()); )* };
}
macro_rules! cross2 {
    ($v:ident; [$($c:ident),*]; $ts:tt) => { $( cross2!(@one $v; $c; $ts); )* };
    (@one $v:ident; $c:ident; [$(($a:ty, $b:ty)),*]) => { $( $v.push(entry::<$c<$a, $b>>()); )* };
}

pub fn registry() -> Vec<Entry> {
    let mut v: Vec<Entry> = vec![];
    // depth 0: every leaf
    reg!(v; u8, u16, u32, u64, u128, usize, i8, i16, i32, i64, i128, isize,
         NonZeroU8, NonZeroU16, NonZeroU32, NonZeroU64, NonZeroU128, NonZeroUsize,
         NonZeroI8, NonZeroI16, NonZeroI32, NonZeroI64, NonZeroI128, NonZeroIsize,
         bool, char, f32, f64, (), RangeFull, String, PathBuf, Duration, UnitS, Big,
         AtomicBool, AtomicI8, AtomicI16, AtomicI32, AtomicI64, AtomicIsize, AtomicU8, AtomicU16, AtomicU32, AtomicU64, AtomicUsize,
         Box<str>, Rc<str>, Arc<str>, Box<Path>, Rc<Path>, Arc<Path>, Cow<'static, str>,
         BitVec<u8, Lsb0>, BitVec<u8, Msb0>);
    // stores wider than a byte (finding F7, fixed by /repo e089897), alone and inside containers
    reg!(v; BitVec<u16, Lsb0>, BitVec<u16, Msb0>, BitVec<u32, Lsb0>, BitVec<u32, Msb0>, BitVec<u64, Lsb0>, BitVec<u64, Msb0>,
         BitVec<usize, Lsb0>, BitVec<usize, Msb0>, (u8, BitVec<usize, Lsb0>), Option<BitVec<u32, Msb0>>,
         Vec<BitVec<usize, Lsb0>>, (BitVec<u16, Msb0>, String, BitVec<u64, Lsb0>));
    // depth 1: every unary constructor over a spread of leaves
    cross!(v; [Option, Vec, VecDeque, LinkedList, Box, Rc, Arc, RefCell, Wrapping, Reverse, Range, RangeInclusive,
               RangeFrom, RangeTo, RangeToInclusive, Bound, PhantomData, NamedS, TupleS, EnumE,
               Arr0, Arr1, Arr3, BoxSl, RcSl, ArcSl, SV, Tup1];
           [u16, i64, String]);
    cross!(v; [Option, Vec, EnumE]; [u8, i8, u32, i16, i32, u64, u128, i128, usize, isize, bool, char, f32, f64, (), NonZeroU16, NonZeroI64, Duration, Big, AtomicU32]);
    cross!(v; [BSet, FxSet, FxDashSet]; [u16, String, i64, Big, char]);
    cross!(v; [Cell]; [u8, i16, u64, bool, char, f32, NonZeroI8]);
    cross!(v; [CowT]; [u32, String, i128]);
    cross!(v; [CowSl]; [u8, u16, String]);
    cross2!(v; [Result, Pair, Either, BTreeMap, FxMap, FxDashMap]; [(u8, u8), (u16, String), (String, i64)]);
    reg!(v; (u8, i16), (u16, String, f32), (u8, u16, u32, u64), (i8, i16, i32, i64, i128), (bool, char, (), String, u8, u8),
         (u8, u8, u8, u8, u8, u8, u8), (u16, u16, u16, u16, u16, u16, u16, u16), (i16, i16, i16, i16, i16, i16, i16, i16, i16),
         (u32, u8, u32, u8, u32, u8, u32, u8, u32, u8), (u8, u16, u32, u64, u128, i8, i16, i32, i64, i128, bool),
         (u8, u16, u32, u64, u128, usize, i8, i16, i32, i64, i128, isize), [u16; 32], [String; 2],
         Vec<BitVec<u8, Lsb0>>, Option<BitVec<u8, Msb0>>, (BitVec<u8, Lsb0>, u16), Result<i32, u128>, BTreeMap<char, bool>);
    // depth 2: every unary constructor over depth-1 types
    cross!(v; [Option, Vec, VecDeque, LinkedList, Box, Rc, Arc, RefCell, Wrapping, Reverse, Range, RangeInclusive,
               RangeFrom, RangeTo, RangeToInclusive, Bound, PhantomData, NamedS, TupleS, EnumE,
               Arr0, Arr1, Arr3, BoxSl, RcSl, ArcSl, SV, Tup1];
           [Option<u16>, Vec<String>, EnumE<i16>]);
    cross!(v; [Option, Vec, Bound, NamedS]; [(u8, i64), FxMap<u16, String>, Result<u8, u8>, BSet<String>]);
    cross!(v; [BSet, FxSet, FxDashSet]; [Option<u32>, Vec<u8>, (u8, u16), Reverse<u64>]);
    cross!(v; [Cell]; [Option<u32>, (u8, u16), Wrapping<i64>, [u16; 3]]);
    cross!(v; [CowT]; [Vec<u8>, Option<i64>]);
    cross!(v; [CowSl]; [Option<u8>, (u8, String)]);
    cross2!(v; [Result, Pair, Either, BTreeMap, FxMap, FxDashMap]; [(Option<u8>, Vec<u16>), ((u8, u8), String)]);
    // depth 3
    cross!(v; [Option, Vec, VecDeque, LinkedList, Box, Rc, Arc, RefCell, Wrapping, Reverse, Range, RangeInclusive,
               RangeFrom, RangeTo, RangeToInclusive, Bound, PhantomData, NamedS, TupleS, EnumE,
               Arr0, Arr1, Arr3, BoxSl, RcSl, ArcSl, SV, Tup1];
           [Vec<Option<i32>>, FxMap<u8, Vec<u16>>]);
    cross!(v; [Option, Vec, EnumE]; [Option<(u16, String)>, NamedS<Vec<u8>>]);
    cross!(v; [BSet, FxSet, FxDashSet]; [Vec<Option<u8>>, (u8, Option<String>)]);
    cross2!(v; [Result, Pair, Either, BTreeMap, FxMap, FxDashMap]; [(Vec<Option<u8>>, Option<Vec<u16>>)]);
    reg!(v; Vec<Vec<Vec<u16>>>, Option<Option<Option<i64>>>, Result<Result<u8, String>, Vec<Option<i16>>>,
         BTreeMap<String, BTreeMap<u16, Vec<u8>>>, (Vec<(u8, Option<String>)>, EnumE<EnumE<u8>>, Bound<Range<i32>>),
         Vec<Vec<Vec<Vec<Option<u8>>>>>, NamedS<TupleS<EnumE<Pair<u8, Either<u16, String>>>>>, Arc<Rc<Box<RefCell<Cell<u16>>>>>,
         Vec<(Duration, NonZeroU64, Big)>, Option<Vec<Bound<NonZeroI16>>>);
    v
}

// ------------------------------------------------------------------------------------------------
// statistics, oracle bookkeeping
// ------------------------------------------------------------------------------------------------
#[derive(Default)]
pub struct Stats {
    lines: u64, nontrivial: HashSet<u64>, by_stage: BTreeMap<String, u64>, by_depth: BTreeMap<u32, u64>,
    enc_len: BTreeMap<String, u64>, classes: BTreeMap<String, u64>, mutations: BTreeMap<String, u64>,
    rust_types: HashSet<&'static str>, descs: HashSet<String>, guard_skipped: u64, hyp_violated: u64,
    failures: Vec<(String, String, String)>, fail_sigs: HashSet<String>, samples: Vec<String>,
}
fn fnv(s: &str) -> u64 { let mut h = 0xcbf29ce484222325u64; for b in s.bytes() { h ^= b as u64; h = h.wrapping_mul(0x100000001b3); } h }
impl Stats {
    fn bump(m: &mut BTreeMap<String, u64>, k: &str) { *m.entry(k.to_string()).or_insert(0) += 1; }
    fn line(&mut self, out: &mut Out, stage: &str, op: &str, imp: &str, nontrivial: bool) {
        out.line(op, imp); self.lines += 1; Self::bump(&mut self.by_stage, stage);
        if nontrivial { self.nontrivial.insert(fnv(op)); }
        if self.samples.len() < 6 && (self.lines % 997 == 1) { self.samples.push(format!("{op} => {imp}")); }
    }
    fn len_bucket(&mut self, n: usize) { let b = match n { 0 => "0", 1 => "1", 2..=3 => "2-3", 4..=9 => "4-9", 10..=31 => "10-31", 32..=127 => "32-127", _ => "128+" }; Self::bump(&mut self.enc_len, b); }
    fn fail(&mut self, sig: String, desc: String, case: String) {
        if self.fail_sigs.insert(sig.clone()) || self.failures.len() < 40 { if self.failures.len() < 200 { self.failures.push((sig, desc, case)); } }
    }
}
fn verdict(o: &Outcome, same: bool, enc_len: usize) -> Option<&'static str> {
    match o {
        Outcome::Ok { consumed, .. } => if !same { Some("mismatch") } else if *consumed != enc_len { Some("consumed") } else { None },
        Outcome::Eof => Some("error-eof"), Outcome::Invalid => Some("error-invalid"), Outcome::Other(_) => Some("error-other"), Outcome::Panic => Some("panic"),
    }
}
fn junk(rng: &mut Rng) -> Vec<u8> { let n = rng.below(4); (0..n).map(|_| if rng.chance(1, 3) { *rng.pick(&[0u8, 1, 0x80, 0xff]) } else { rng.next() as u8 }).collect() }

fn value_case(out: &mut Out, st: &mut Stats, stage: &str, e: &dyn Erased, depth: u32, rng: &mut Rng, plugin: &Plugin) {
    let desc = e.desc();
    let val = e.render();
    let mut enc = Tracer::new();
    e.encode_to(&mut enc, plugin);
    let bytes = enc.inner.into_inner();
    let j = junk(rng);
    let mut stream = bytes.clone(); stream.extend_from_slice(&j);
    let mut dec = Guard::new(&stream[..], vlimit());
    let (o, same) = e.decode_cmp(&mut dec, plugin, false);
    if dec.tripped { st.guard_skipped += 1; return; }
    let op = format!("V|{}|{}|{}", desc, val, hex(&j));
    let imp = format!("{}|{}", hex(&bytes), o.show());
    st.line(out, stage, &op, &imp, bytes.len() >= 2);
    st.len_bucket(bytes.len()); *st.by_depth.entry(depth).or_insert(0) += 1;
    if let Some(kind) = verdict(&o, same, bytes.len()) {
        st.fail(format!("{kind}:{desc}"), format!("decode(encode v) {kind}: type {desc} value {val} bytes {} -> {}", hex(&bytes), o.show()), op);
    }
}

fn pair_case(out: &mut Out, st: &mut Stats, reg: &[Entry], rng: &mut Rng, plugin: &Plugin, size: u32) {
    let k = rng.range(2, 4) as usize;
    let mut idx: Vec<usize> = (0..k).map(|_| rng.below(reg.len() as u64) as usize).collect();
    // (finding F7 is fixed — /repo e089897 — so wide-store BitVecs may sit anywhere in the stream)
    let mut g = Gen { rng: Rng(rng.next()), size };
    let vals: Vec<Box<dyn Erased>> = idx.iter().map(|i| (reg[*i].mk)(&mut g)).collect();
    let mut enc = Tracer::new();
    let mut ends = vec![];
    for v in &vals { v.encode_to(&mut enc, plugin); ends.push(enc.inner.get_ref().len()); }
    let bytes = enc.inner.into_inner();
    let j = junk(rng);
    let mut stream = bytes.clone(); stream.extend_from_slice(&j);
    let mut dec = Guard::new(&stream[..], vlimit());
    let mut op = format!("P|{}", k);
    let mut imp = hex(&bytes);
    let mut bad: Option<(String, String)> = None;
    let mut start = 0usize;
    let mut stopped = false;
    for (n, v) in vals.iter().enumerate() {
        op.push_str(&format!("|{}|{}", v.desc(), v.render()));
        if stopped { imp.push_str("|-"); continue; }
        let (o, same) = v.decode_cmp(&mut dec, plugin, false);
        imp.push_str(&format!("|{}", o.show()));
        if !matches!(o, Outcome::Ok { .. }) { stopped = true; }
        if bad.is_none() { if let Some(kind) = verdict(&o, same, ends[n] - start) { bad = Some((v.desc(), kind.to_string())); } }
        start = ends[n];
    }
    op.push_str(&format!("|{}", hex(&j)));
    if dec.tripped { st.guard_skipped += 1; return; }
    st.line(out, "pairs", &op, &imp, true);
    if let Some((d, kind)) = bad { st.fail(format!("{kind}:{d}"), format!("back-to-back: element of type {d} {kind}; stream {}", hex(&bytes)), op); }
}

// ------------------------------------------------------------------------------------------------
// malformed streams: structure-aware mutations of valid encodings
// ------------------------------------------------------------------------------------------------
fn varint_max(k: Kind) -> Option<usize> { match k { Kind::U16 | Kind::I16 => Some(3), Kind::U32 | Kind::I32 | Kind::Char => Some(5), Kind::U64 | Kind::I64 | Kind::Usize | Kind::Isize => Some(10), Kind::U128 | Kind::I128 => Some(19), _ => None } }
fn leb(mut v: u128) -> Vec<u8> { let mut o = vec![]; while v >= 0x80 { o.push((v as u8) | 0x80); v >>= 7; } o.push(v as u8); o }
fn unleb(b: &[u8]) -> u128 { let mut r = 0u128; for (i, x) in b.iter().enumerate() { if 7 * i < 128 { r |= ((x & 0x7f) as u128) << (7 * i); } } r }
fn splice(bytes: &[u8], r: &Rec, new: &[u8]) -> Vec<u8> { let mut o = bytes[..r.off].to_vec(); o.extend_from_slice(new); o.extend_from_slice(&bytes[r.off + r.len..]); o }
fn mutate(bytes: &[u8], recs: &[Rec], rng: &mut Rng) -> (Vec<u8>, &'static str) {
    let varints: Vec<&Rec> = recs.iter().filter(|r| varint_max(r.kind).is_some()).collect();
    let tags: Vec<&Rec> = recs.iter().filter(|r| matches!(r.kind, Kind::U8 | Kind::Bool | Kind::I8)).collect();
    let raws: Vec<&Rec> = recs.iter().filter(|r| r.kind == Kind::Raw && r.len > 0).collect();
    for _ in 0..8 {
        match rng.below(10) {
            0 | 1 if !bytes.is_empty() => { let cut = rng.below(bytes.len() as u64) as usize; return (bytes[..cut].to_vec(), "truncate"); }
            2 if !varints.is_empty() => {
                let r = *rng.pick(&varints); let mx = varint_max(r.kind).unwrap();
                let mut b = bytes[r.off..r.off + r.len].to_vec();
                let pad = rng.range(1, (mx + 2 - r.len.min(mx + 1)).max(1) as u64) as usize;
                *b.last_mut().unwrap() |= 0x80; for _ in 0..pad - 1 { b.push(0x80); } b.push(0x00);
                return (splice(bytes, r, &b), "varint-overlong");
            }
            3 if !varints.is_empty() => {
                let r = *rng.pick(&varints); let mx = varint_max(r.kind).unwrap();
                let mut b = vec![0xffu8; mx - 1]; b.push(*rng.pick(&[0x7fu8, 0x01, 0x03, 0x00, 0x0f, 0x02]));
                return (splice(bytes, r, &b), "varint-highbits");
            }
            4 if !varints.is_empty() => {
                let r = *rng.pick(&varints); let mx = varint_max(r.kind).unwrap();
                let mut b = vec![0x80u8; mx + rng.below(2) as usize]; if rng.chance(1, 2) { b.push(0) }
                return (splice(bytes, r, &b), "varint-too-long");
            }
            5 if !varints.is_empty() => {
                let r = *rng.pick(&varints); let v = unleb(&bytes[r.off..r.off + r.len]);
                let nv: u128 = match r.kind {
                    Kind::Usize => { let c = [0, v.wrapping_add(1), v.saturating_sub(1), v + 2, 2 * v + 1, 127, 128]; (*rng.pick(&c)).min(200) }
                    Kind::Char => *rng.pick(&[0xD800u128, 0xDFFF, 0x110000, 0xFFFF_FFFF, 0x41, 0xD7FF]),
                    _ => if rng.chance(1, 2) { 0 } else { rng.below(300) as u128 },
                };
                return (splice(bytes, r, &leb(nv)), "value-change");
            }
            6 if !tags.is_empty() => { let r = *rng.pick(&tags); let b = [*rng.pick(&[0u8, 1, 2, 3, 0x7f, 0x80, 0xff])]; return (splice(bytes, r, &b), "tag"); }
            7 if !raws.is_empty() => {
                let r = *rng.pick(&raws); let mut b = bytes[r.off..r.off + r.len].to_vec();
                if b.len() >= 3 && rng.chance(1, 3) { b[0] = 0xED; b[1] = 0xA0; b[2] = 0x80; }
                else { let i = rng.below(b.len() as u64) as usize; b[i] = *rng.pick(&[0xffu8, 0xc0, 0x80, 0xf8, 0xc2, 0xe0, 0xf4]); }
                return (splice(bytes, r, &b), "utf8");
            }
            8 if !bytes.is_empty() => { let mut b = bytes.to_vec(); let i = rng.below(b.len() as u64) as usize; b[i] = if rng.chance(1, 2) { b[i] ^ (1 << rng.below(8)) } else { rng.next() as u8 }; return (b, "byte-flip"); }
            9 => return (bytes.to_vec(), "unchanged"),
            _ => {}
        }
    }
    (bytes.to_vec(), "unchanged")
}
fn malformed_case(out: &mut Out, st: &mut Stats, e: &dyn Erased, rng: &mut Rng, plugin: &Plugin, all_prefixes: bool) {
    let desc = e.desc();
    let (bytes, recs) = e.trace(plugin);
    let star = unordered(&desc);
    let streams: Vec<(Vec<u8>, &'static str)> = if all_prefixes { (0..bytes.len()).map(|c| (bytes[..c].to_vec(), "truncate")).collect() } else { vec![mutate(&bytes, &recs, rng)] };
    for (stream, what) in streams {
        let mut dec = Guard::new(&stream[..], LIMIT);
        let (o, _) = e.decode_cmp(&mut dec, plugin, star);
        if dec.tripped { st.guard_skipped += 1; continue; }
        Stats::bump(&mut st.classes, o.class()); Stats::bump(&mut st.mutations, what);
        st.line(out, "malformed", &format!("M|{}|{}", desc, hex(&stream)), &o.show(), true);
    }
}

// ------------------------------------------------------------------------------------------------
// interned handles
// ------------------------------------------------------------------------------------------------
#[derive(Clone, Copy)]
pub struct MaskedSip { inner: Sip128Hasher, mask: u128 }
impl StableHasher for MaskedSip {
    type Hash = u128;
    fn finish(&self) -> u128 { StableHasher::finish(&self.inner) & self.mask }
    fn write(&mut self, bytes: &[u8]) { StableHasher::write(&mut self.inner, bytes) }
    fn sub_hash(&self, f: &mut dyn FnMut(&mut dyn StableHasher<Hash = u128>)) -> u128 { let mut s = *self; f(&mut s); s.finish() }
}
#[derive(Clone, Copy)]
pub struct MaskedBuilder { seed: u64, mask: u128 }
impl BuildStableHasher for MaskedBuilder {
    type Hash = u128; type Hasher = MaskedSip;
    fn build_stable_hasher(&self) -> MaskedSip { let mut h = MaskedSip { inner: Sip128Hasher::default(), mask: self.mask }; self.seed.stable_hash(&mut h); h }
}
pub enum Flat { Plain { desc: String, render: String }, Handle { tid: u32, desc: String, hash: u128, render: String, ptr: usize } }
fn plain<T: Describe>(v: &T) -> Flat { Flat::Plain { desc: T::desc(), render: v.render() } }
fn ptr_of<T: ?Sized>(h: &Interned<T>) -> usize { (&**h) as *const T as *const u8 as usize }
fn h_string(h: &Interned<String>, it: &Interner) -> Flat { Flat::Handle { tid: 0, desc: "str".into(), hash: it.hash_128(&**h).to_u128(), render: h.render(), ptr: ptr_of(h) } }
fn h_u64(h: &Interned<u64>, it: &Interner) -> Flat { Flat::Handle { tid: 1, desc: "u64".into(), hash: it.hash_128(&**h).to_u128(), render: h.render(), ptr: ptr_of(h) } }
fn h_vec16(h: &Interned<Vec<u16>>, it: &Interner) -> Flat { Flat::Handle { tid: 2, desc: "seq(u16)".into(), hash: it.hash_128(&**h).to_u128(), render: h.render(), ptr: ptr_of(h) } }
fn h_str(h: &Interned<str>, it: &Interner) -> Flat { Flat::Handle { tid: 3, desc: "str".into(), hash: it.hash_128(&**h).to_u128(), render: shex(h.as_bytes()), ptr: ptr_of(h) } }
fn h_sl32(h: &Interned<[u32]>, it: &Interner) -> Flat { Flat::Handle { tid: 4, desc: "seq(u32)".into(), hash: it.hash_128(&**h).to_u128(), render: list(h.iter().map(|x| x.render()).collect()), ptr: ptr_of(h) } }

/// how a handle is made: through the interner (warm) or as a private allocation (fresh: no conflation
/// of colliding values before encoding)
pub struct Mk<'a> { it: Option<&'a Interner> }
impl<'a> Mk<'a> {
    fn sized<T: StableHash + qbice_stable_type_id::Identifiable + Send + Sync + 'static>(&self, v: T) -> Interned<T> { match self.it { Some(i) => i.intern(v), None => Interned::new_duplicating(v) } }
    fn str(&self, v: String) -> Interned<str> { match self.it { Some(i) => i.intern_unsized(v.into_boxed_str()), None => Interned::new_duplicating_unsized(v.into_boxed_str()) } }
    fn sl32(&self, v: Vec<u32>) -> Interned<[u32]> { match self.it { Some(i) => i.intern_unsized(v.into_boxed_slice()), None => Interned::new_duplicating_unsized(v.into_boxed_slice()) } }
}
const IPOOL_S: &[&str] = &["", "a", "b", "ab", "漢", "hello", "x", "y"];
fn pool_string(rng: &mut Rng) -> String { (*rng.pick(IPOOL_S)).to_string() }
fn pool_u64(rng: &mut Rng) -> u64 { *rng.pick(&[0u64, 1, 2, 127, 128, u64::MAX, 300]) }
fn pool_v16(rng: &mut Rng) -> Vec<u16> { let n = rng.below(3); (0..n).map(|_| *rng.pick(&[0u16, 1, 200])).collect() }

pub trait Shape: Encode + Decode + Sized { fn build(rng: &mut Rng, mk: &Mk) -> Self; fn flat(&self, it: &Interner) -> Vec<Flat>; }
type S1 = Vec<Interned<String>>;
type S2 = (Interned<u64>, u16, Interned<u64>, Option<Interned<String>>, Interned<u64>);
type S3 = Vec<(Interned<Vec<u16>>, Interned<String>)>;
type S4 = (Vec<Interned<str>>, Vec<Interned<[u32]>>);
impl Shape for S1 {
    fn build(rng: &mut Rng, mk: &Mk) -> Self { let n = rng.below(7); (0..n).map(|_| mk.sized(pool_string(rng))).collect() }
    fn flat(&self, it: &Interner) -> Vec<Flat> { let mut v = vec![plain(&self.len())]; v.extend(self.iter().map(|h| h_string(h, it))); v }
}
impl Shape for S2 {
    fn build(rng: &mut Rng, mk: &Mk) -> Self { (mk.sized(pool_u64(rng)), rng.next() as u16, mk.sized(pool_u64(rng)), if rng.chance(2, 3) { Some(mk.sized(pool_string(rng))) } else { None }, mk.sized(pool_u64(rng))) }
    fn flat(&self, it: &Interner) -> Vec<Flat> {
        let mut v = vec![h_u64(&self.0, it), plain(&self.1), h_u64(&self.2, it)];
        match &self.3 { None => v.push(plain(&false)), Some(h) => { v.push(plain(&true)); v.push(h_string(h, it)); } }
        v.push(h_u64(&self.4, it)); v
    }
}
impl Shape for S3 {
    fn build(rng: &mut Rng, mk: &Mk) -> Self { let n = rng.below(5); (0..n).map(|_| (mk.sized(pool_v16(rng)), mk.sized(pool_string(rng)))).collect() }
    fn flat(&self, it: &Interner) -> Vec<Flat> { let mut v = vec![plain(&self.len())]; for (a, b) in self { v.push(h_vec16(a, it)); v.push(h_string(b, it)); } v }
}
impl Shape for S4 {
    fn build(rng: &mut Rng, mk: &Mk) -> Self {
        let n = rng.below(5); let m = rng.below(4);
        ((0..n).map(|_| mk.str(pool_string(rng))).collect(), (0..m).map(|_| mk.sl32(pool_v16(rng).into_iter().map(|x| x as u32).collect())).collect())
    }
    fn flat(&self, it: &Interner) -> Vec<Flat> {
        let mut v = vec![plain(&self.0.len())]; v.extend(self.0.iter().map(|h| h_str(h, it)));
        v.push(plain(&self.1.len())); v.extend(self.1.iter().map(|h| h_sl32(h, it))); v
    }
}
fn show_decoded(fl: &[Flat]) -> String {
    let mut o = vec![];
    for (i, f) in fl.iter().enumerate() {
        match f {
            Flat::Plain { render, .. } => o.push(format!("p:{render}")),
            Flat::Handle { tid, render, ptr, .. } => {
                let class = fl.iter().position(|g| matches!(g, Flat::Handle { tid: t2, ptr: p2, .. } if t2 == tid && p2 == ptr)).unwrap_or(i);
                o.push(format!("h:{class}:{render}"));
            }
        }
    }
    o.join(";")
}
fn interned_case<S: Shape>(out: &mut Out, st: &mut Stats, rng: &mut Rng) {
    let warm = rng.chance(1, 3);
    let mask: u128 = if !warm && rng.chance(1, 3) { 0x3 } else { u128::MAX };
    let hb = MaskedBuilder { seed: rng.next(), mask };
    let enc_it = Interner::new(4, hb);
    let mut enc_plugin = Plugin::new(); enc_plugin.insert(enc_it.clone());
    let dec_it = if warm { enc_it.clone() } else { Interner::new(4, hb) };
    let mut dec_plugin = Plugin::new(); dec_plugin.insert(dec_it.clone());
    let mk = Mk { it: if warm { Some(&enc_it) } else { None } };
    let v = S::build(rng, &mk);
    let fl = v.flat(&enc_it);
    let (bytes, recs) = trace_real(&v, &enc_plugin);
    let items: Vec<String> = fl.iter().map(|f| match f { Flat::Plain { desc, render } => format!("p:{desc}:{render}"), Flat::Handle { tid, desc, hash, render, .. } => format!("h:{tid}:{desc}:{hash}:{render}") }).collect();
    let mode = if warm { "warm" } else { "fresh" };
    // does the hypothesis of `interned_roundtrip` hold on this structure?
    let hs: Vec<(u32, u128, &String)> = fl.iter().filter_map(|f| if let Flat::Handle { tid, hash, render, .. } = f { Some((*tid, *hash, render)) } else { None }).collect();
    let hyp = hs.iter().all(|a| hs.iter().all(|b| !(a.0 == b.0 && a.1 == b.1) || a.2 == b.2));
    if !hyp { st.hyp_violated += 1; }
    let mutated = rng.chance(1, 5);
    if !mutated {
        let j = junk(rng);
        let mut stream = bytes.clone(); stream.extend_from_slice(&j);
        let mut dec = Guard::new(&stream[..], vlimit());
        let r = decode_real::<S>(&mut dec, &dec_plugin);
        if dec.tripped { st.guard_skipped += 1; return; }
        let consumed = stream.len() - dec.remaining();
        let (imp_o, ok) = match &r {
            Ok(d) => {
                let dfl = d.flat(&dec_it);
                let shown = show_decoded(&dfl);
                // oracle: same values, same sharing, exact consumption
                let same_vals = dfl.len() == fl.len() && dfl.iter().zip(fl.iter()).all(|(a, b)| match (a, b) {
                    (Flat::Plain { render: x, .. }, Flat::Plain { render: y, .. }) => x == y,
                    (Flat::Handle { render: x, tid: t, .. }, Flat::Handle { render: y, tid: u, .. }) => x == y && t == u, _ => false });
                let sharing = dfl.iter().enumerate().all(|(i, a)| dfl.iter().enumerate().all(|(k, b)| match (a, b, &fl[i], &fl[k]) {
                    (Flat::Handle { tid: t, ptr: p, .. }, Flat::Handle { tid: u, ptr: q, .. }, Flat::Handle { render: x, .. }, Flat::Handle { render: y, .. }) if t == u => (p == q) == (x == y), _ => true }));
                (format!("ok|{}|{}", shown, consumed), same_vals && sharing && consumed == bytes.len())
            }
            Err(o) => (o.show(), false),
        };
        let op = format!("I|{}|{}|{}", mode, items.join(";"), hex(&j));
        st.line(out, "interned", &op, &format!("{}|{}", hex(&bytes), imp_o), true);
        if hyp && !ok { st.fail("interned:roundtrip".into(), format!("interned structure not reproduced: {imp_o}"), op); }
    } else {
        // mutated stream: truncation, an invalid handle tag, or (full-width hash only: the lookup then misses and the
        // decoder panics; with the 2-bit hasher it could hit and shift the shape of the structure, which the flat
        // item list of the model does not follow) a first occurrence turned into a reference
        let tags: Vec<&Rec> = recs.iter().filter(|r| r.kind == Kind::U8).collect();
        let stream = if tags.is_empty() || rng.chance(1, 2) { if bytes.is_empty() { bytes.clone() } else { bytes[..rng.below(bytes.len() as u64) as usize].to_vec() } }
                     else { let r = *rng.pick(&tags); let nb = if bytes[r.off] == 0 && mask == u128::MAX && rng.chance(2, 3) { 1u8 } else { *rng.pick(&[2u8, 3, 0xff]) }; splice(&bytes, r, &[nb]) };
        let dec_it2 = dec_it.clone();
        let mut dec = Guard::new(&stream[..], LIMIT);
        let r = decode_real::<S>(&mut dec, &dec_plugin);
        if dec.tripped { st.guard_skipped += 1; return; }
        let consumed = stream.len() - dec.remaining();
        let imp_o = match &r { Ok(d) => format!("ok|{}|{}", show_decoded(&d.flat(&dec_it2)), consumed), Err(o) => o.show() };
        Stats::bump(&mut st.classes, &format!("interned-{}", imp_o.split('|').next().unwrap()));
        let tys: Vec<String> = fl.iter().map(|f| match f { Flat::Plain { desc, .. } => format!("p:{desc}"), Flat::Handle { tid, desc, .. } => format!("h:{tid}:{desc}") }).collect();
        // the values the decoder-side interner already holds (warm) and the hash table for the model
        let known: Vec<String> = fl.iter().filter_map(|f| if let Flat::Handle { tid, desc, hash, render, .. } = f { Some(format!("{tid}:{desc}:{hash}:{render}")) } else { None }).collect();
        st.line(out, "interned", &format!("J|{}|{}|{}|{}", mode, tys.join(";"), known.join(";"), hex(&stream)), &imp_o, true);
    }
    drop(v);
}

// ------------------------------------------------------------------------------------------------
// nested interned handles: handles inside the payloads of handles (trees / DAGs with sharing)
// ------------------------------------------------------------------------------------------------
// type ids of the model (`env` of Model/CodecNested): 0 NNode, 1 NExpr, 2 str, 3 String, 4 [Interned<NNode>]
const NENV: &str = "0=T(Pu16,S(H0),O(H2),Pstr);1=E(T(),T(H0),T(H1,Pu16),T(H1,H1),T(H3),T(H4));2=Pstr;3=Pstr;4=S(H0)";
const NEXPR_TY: &str = "E(T(),T(H0),T(H1,Pu16),T(H1,H1),T(H3),T(H4))";
#[derive(Encode, Decode, Debug, Clone, PartialEq, Eq)]
#[serialize_crate(qbice_serialize)]
pub struct NNode { label: u16, kids: Vec<Interned<NNode>>, name: Option<Interned<str>>, note: String }
#[derive(Encode, Decode, Debug, Clone, PartialEq, Eq)]
#[serialize_crate(qbice_serialize)]
pub enum NExpr { Nil, Ref(Interned<NNode>), Cons(Interned<NExpr>, u16), Pair(Interned<NExpr>, Interned<NExpr>), Name(Interned<String>), Many(Interned<[Interned<NNode>]>) }
impl StableHash for NNode { fn stable_hash<S: StableHasher + ?Sized>(&self, st: &mut S) { self.label.stable_hash(st); self.kids.stable_hash(st); self.name.stable_hash(st); self.note.stable_hash(st); } }
impl StableHash for NExpr {
    fn stable_hash<S: StableHasher + ?Sized>(&self, st: &mut S) {
        match self { NExpr::Nil => 0u8.stable_hash(st), NExpr::Ref(n) => { 1u8.stable_hash(st); n.stable_hash(st) } NExpr::Cons(e, k) => { 2u8.stable_hash(st); e.stable_hash(st); k.stable_hash(st) }
            NExpr::Pair(a, b) => { 3u8.stable_hash(st); a.stable_hash(st); b.stable_hash(st) } NExpr::Name(s) => { 4u8.stable_hash(st); s.stable_hash(st) } NExpr::Many(s) => { 5u8.stable_hash(st); s.stable_hash(st) } }
    }
}
impl qbice_stable_type_id::Identifiable for NNode { const STABLE_TYPE_ID: qbice_stable_type_id::StableTypeID = qbice_stable_type_id::StableTypeID::from_unique_type_name("qbice_verif::codec::NNode"); }
impl qbice_stable_type_id::Identifiable for NExpr { const STABLE_TYPE_ID: qbice_stable_type_id::StableTypeID = qbice_stable_type_id::StableTypeID::from_unique_type_name("qbice_verif::codec::NExpr"); }

/// one traversal: renders the value (handles print their hash, or — `classes` — the pre-order index of the first
/// occurrence of their allocation) and lists every handle occurrence in pre-order: (type id, pointer, hash rendering)
/// `marks`: a handle that is not the allocation the interner holds under its hash (a private `new_duplicating` copy) prints
/// `d` instead of `h`; `occ.3` says so for every occurrence
thread_local! { static DUP_IDS: RefCell<Vec<usize>> = RefCell::new(vec![]); }
fn dup_id(ptr: usize) -> usize { DUP_IDS.with(|d| { let mut d = d.borrow_mut(); match d.iter().position(|p| *p == ptr) { Some(i) => i, None => { d.push(ptr); d.len() - 1 } } }) }
pub struct NCx<'a> { it: &'a Interner, classes: bool, occ: Vec<(u32, usize, String, bool)>, marks: bool }
pub trait NShape { fn nty() -> String; fn nrender(&self, cx: &mut NCx) -> String; }
pub trait NPay { const TID: u32; fn pay_render(&self, cx: &mut NCx) -> String; }
impl<T: NPay + StableHash + qbice_stable_type_id::Identifiable + Send + Sync + 'static + ?Sized> NShape for Interned<T> {
    fn nty() -> String { format!("H{}", T::TID) }
    fn nrender(&self, cx: &mut NCx) -> String {
        let ptr = (&**self) as *const T as *const u8 as usize;
        let h128 = cx.it.hash_128(&**self);
        let dup = match cx.it.get_from_hash::<T>(h128) { Some(r) => ((&*r) as *const T as *const u8 as usize) != ptr, None => true };
        let i = cx.occ.len();
        cx.occ.push((T::TID, ptr, String::new(), dup));
        let pay = self.pay_render(cx);
        let hashed = if cx.marks && dup { format!("d{}_{}{{{}}}", dup_id(ptr), h128.to_u128(), pay) } else { format!("h{}{{{}}}", h128.to_u128(), pay) };
        if cx.classes {
            let cls = cx.occ.iter().position(|o| o.0 == T::TID && o.1 == ptr).unwrap_or(i);
            format!("h{}{{{}}}", cls, pay)
        } else { cx.occ[i].2 = hashed.clone(); hashed }
    }
}
macro_rules! nplain { ($($t:ty),*) => { $(impl NShape for $t { fn nty() -> String { format!("P{}", <$t as Describe>::desc()) } fn nrender(&self, _: &mut NCx) -> String { Describe::render(self) } })* } }
nplain!(u16, u32, String);
impl<T: NShape> NShape for Vec<T> { fn nty() -> String { format!("S({})", T::nty()) } fn nrender(&self, cx: &mut NCx) -> String { list(self.iter().map(|x| x.nrender(cx)).collect()) } }
impl<T: NShape> NShape for Option<T> { fn nty() -> String { format!("O({})", T::nty()) } fn nrender(&self, cx: &mut NCx) -> String { match self { None => "#0([])".into(), Some(v) => format!("#1({})", v.nrender(cx)) } } }
impl<A: NShape, B: NShape, C: NShape, D: NShape> NShape for (A, B, C, D) {
    fn nty() -> String { format!("T({},{},{},{})", A::nty(), B::nty(), C::nty(), D::nty()) }
    fn nrender(&self, cx: &mut NCx) -> String { let a = self.0.nrender(cx); let b = self.1.nrender(cx); let c = self.2.nrender(cx); let d = self.3.nrender(cx); list(vec![a, b, c, d]) }
}
impl NPay for NNode { const TID: u32 = 0; fn pay_render(&self, cx: &mut NCx) -> String { let k = self.kids.nrender(cx); let n = self.name.nrender(cx); list(vec![Describe::render(&self.label), k, n, Describe::render(&self.note)]) } }
impl NPay for NExpr { const TID: u32 = 1; fn pay_render(&self, cx: &mut NCx) -> String { self.nrender(cx) } }
impl NPay for str { const TID: u32 = 2; fn pay_render(&self, _: &mut NCx) -> String { shex(self.as_bytes()) } }
impl NPay for String { const TID: u32 = 3; fn pay_render(&self, _: &mut NCx) -> String { shex(self.as_bytes()) } }
impl NPay for [Interned<NNode>] { const TID: u32 = 4; fn pay_render(&self, cx: &mut NCx) -> String { list(self.iter().map(|x| x.nrender(cx)).collect()) } }
impl NShape for NExpr {
    fn nty() -> String { NEXPR_TY.into() }
    fn nrender(&self, cx: &mut NCx) -> String {
        match self { NExpr::Nil => "#0([])".into(), NExpr::Ref(n) => format!("#1([{}])", n.nrender(cx)), NExpr::Cons(e, k) => { let a = e.nrender(cx); format!("#2([{},{}])", a, k) }
            NExpr::Pair(a, b) => { let x = a.nrender(cx); let y = b.nrender(cx); format!("#3([{},{}])", x, y) } NExpr::Name(s) => format!("#4([{}])", s.nrender(cx)), NExpr::Many(s) => format!("#5([{}])", s.nrender(cx)) }
    }
}
/// values built bottom-up; children are picked among the earlier ones, so sharing, repetition and depth abound.
/// The second component is the size of the value as a tree (what the textual rendering costs).
pub struct NPool { strs: Vec<Interned<str>>, strings: Vec<Interned<String>>, nodes: Vec<(Interned<NNode>, usize)>, exprs: Vec<(Interned<NExpr>, usize)>, slices: Vec<(Interned<[Interned<NNode>]>, usize)>, depth: usize }
const NCAP: usize = 120;
impl NPool {
    fn build(rng: &mut Rng, mk: &Mk) -> NPool {
        let words = ["", "a", "b", "ab"];
        let mut p = NPool { strs: vec![], strings: vec![], nodes: vec![], exprs: vec![], slices: vec![], depth: 0 };
        for _ in 0..rng.range(1, 3) { p.strs.push(mk.str((*rng.pick(&words)).to_string())); }
        for _ in 0..rng.range(1, 3) { p.strings.push(mk.sized((*rng.pick(&words)).to_string())); }
        let mut depth_of: Vec<usize> = vec![];
        for _ in 0..rng.range(1, 7) {
            let mut kids = vec![]; let mut size = 1usize; let mut d = 1usize;
            for _ in 0..rng.below(4) { if p.nodes.is_empty() { break; } let i = if rng.chance(1, 2) { p.nodes.len() - 1 } else { rng.below(p.nodes.len() as u64) as usize }; let (k, s) = &p.nodes[i]; if size + s <= NCAP { kids.push(if mk.it.is_some() && rng.chance(1, 20) { Interned::new_duplicating((**k).clone()) } else { k.clone() }); size += s; d = d.max(depth_of[i] + 1); } }
            let name = if rng.chance(1, 2) { size += 1; Some(rng.pick(&p.strs).clone()) } else { None };
            let n = NNode { label: rng.below(3) as u16, kids, name, note: (*rng.pick(&["", "n"])).to_string() };
            p.nodes.push((mk.sized(n), size)); depth_of.push(d); p.depth = p.depth.max(d);
        }
        for _ in 0..rng.below(3) {
            let mut v = vec![]; let mut size = 1usize;
            for _ in 0..rng.below(4) { let (k, s) = rng.pick(&p.nodes); if size + s <= NCAP { v.push(k.clone()); size += s; } }
            let h = match mk.it { Some(i) => i.intern_unsized(v.into_boxed_slice()), None => Interned::new_duplicating_unsized(v.into_boxed_slice()) };
            p.slices.push((h, size));
        }
        for _ in 0..rng.below(6) {
            let (e, size) = match rng.below(6) {
                1 => { let (n, s) = rng.pick(&p.nodes); (NExpr::Ref(n.clone()), 1 + s) }
                2 if !p.exprs.is_empty() => { let (e, s) = rng.pick(&p.exprs); (NExpr::Cons(e.clone(), *rng.pick(&[0u16, 300])), 1 + s) }
                3 if !p.exprs.is_empty() => { let (a, s) = rng.pick(&p.exprs).clone(); let (b, t) = rng.pick(&p.exprs).clone(); if s + t < NCAP { (NExpr::Pair(a, b), 1 + s + t) } else { (NExpr::Nil, 1) } }
                4 => (NExpr::Name(rng.pick(&p.strings).clone()), 2),
                5 if !p.slices.is_empty() => { let (s, z) = rng.pick(&p.slices); (NExpr::Many(s.clone()), 1 + z) }
                _ => (NExpr::Nil, 1),
            };
            p.exprs.push((mk.sized(e), size));
        }
        if p.exprs.is_empty() { p.exprs.push((mk.sized(NExpr::Nil), 1)); }
        if p.slices.is_empty() { p.slices.push((match mk.it { Some(i) => i.intern_unsized(Vec::new().into_boxed_slice()), None => Interned::new_duplicating_unsized(Vec::new().into_boxed_slice()) }, 1)); }
        p
    }
    fn node(&self, rng: &mut Rng) -> Interned<NNode> { if rng.chance(1, 2) { self.nodes.last().unwrap().0.clone() } else { rng.pick(&self.nodes).0.clone() } }
}
pub trait NTop: NShape + Encode + Decode + PartialEq + Sized { fn from_pool(p: &NPool, rng: &mut Rng) -> Self; }
type N1 = Vec<Interned<NNode>>;
type N2 = (Interned<NNode>, Interned<NExpr>, Option<Interned<NNode>>, Vec<Interned<str>>);
type N3 = Vec<NExpr>;
type N4 = (Interned<[Interned<NNode>]>, Interned<NNode>, u32, Interned<String>);
impl NTop for N1 { fn from_pool(p: &NPool, rng: &mut Rng) -> Self { (0..rng.below(5)).map(|_| p.node(rng)).collect() } }
impl NTop for N2 { fn from_pool(p: &NPool, rng: &mut Rng) -> Self { (p.node(rng), rng.pick(&p.exprs).0.clone(), if rng.chance(2, 3) { Some(p.node(rng)) } else { None }, (0..rng.below(3)).map(|_| rng.pick(&p.strs).clone()).collect()) } }
impl NTop for N3 { fn from_pool(p: &NPool, rng: &mut Rng) -> Self { (0..rng.below(5)).map(|_| { let e: &NExpr = &rng.pick(&p.exprs).0; e.clone() }).collect() } }
impl NTop for N4 { fn from_pool(p: &NPool, rng: &mut Rng) -> Self { (rng.pick(&p.slices).0.clone(), p.node(rng), rng.next() as u32, rng.pick(&p.strings).clone()) } }

/// Finding F61 (fixed by /repo 8f43b2a; regression input that must PASS, run first in shard 0 of every run): the decoder-side interner holds a live
/// value `e` whose inner handle is an `Interned::new_duplicating` copy (public API; "doesn't guarantee deduplication").
/// Decoding `encode((e, intern(leaf)))` after the tuple was dropped: the decoder interns the inner value it reads (a
/// fresh allocation, nothing equal is registered), `intern(outer)` returns the live `e` and drops the decoded payload —
/// before the fix the only owner of that allocation, so the reference to the inner value that followed missed and `expect`
/// panicked; since the fix the decode session keeps every produced handle alive.  Model: `dec true` / `dec false`,
/// theorem `interned_roundtrip_nested_weak` (hypothesis `IOkW`: no canonicity of the live entries required).
fn nested_boundary_probe(st: &mut Stats) {
    let it = Interner::new(4, MaskedBuilder { seed: 7, mask: u128::MAX });
    let mut plugin = Plugin::new(); plugin.insert(it.clone());
    let leaf = NNode { label: 1, kids: vec![], name: None, note: String::new() };
    let e = it.intern(NNode { label: 2, kids: vec![Interned::new_duplicating(leaf.clone())], name: None, note: String::new() });
    let v: (Interned<NNode>, Interned<NNode>) = (e.clone(), it.intern(leaf));
    let bytes = encode_real(&v, &plugin);
    drop(v);
    let mut dec = Guard::new(&bytes[..], LIMIT);
    let r = decode_real::<(Interned<NNode>, Interned<NNode>)>(&mut dec, &plugin);
    let ok = matches!(&r, Ok(d) if d.0 == e && d.1.label == 1 && dec.remaining() == 0);
    Stats::bump(&mut st.classes, &format!("nested-F61-live-value-with-new_duplicating-inner-handle-decode-{}", match &r { Ok(_) => "ok".to_string(), Err(o) => o.show() }));
    if !ok {
        st.fail("nested:live-newdup-inner".into(),
            format!("decode(encode v) {} for v = (e, it.intern(leaf)), e = it.intern(NNode{{label:2, kids:[Interned::new_duplicating(leaf)]}}) alive in the shared interner, v dropped before decoding; bytes {}",
                match &r { Ok(_) => "differs".to_string(), Err(o) => o.show() }, hex(&bytes)),
            "codec --stages nested --shard 0 K (deterministic probe nested_boundary_probe)".into());
    }
    drop(e);
}

fn nested_case<S: NTop>(out: &mut Out, st: &mut Stats, rng: &mut Rng) {
    DUP_IDS.with(|d| d.borrow_mut().clear());
    let warm = rng.chance(1, 3);
    let mask: u128 = if !warm && rng.chance(1, 6) { 0x3 } else { u128::MAX };
    let hb = MaskedBuilder { seed: rng.next(), mask };
    let enc_it = Interner::new(4, hb);
    let mut enc_plugin = Plugin::new(); enc_plugin.insert(enc_it.clone());
    let dec_it = if warm { enc_it.clone() } else { Interner::new(4, hb) };
    let mut dec_plugin = Plugin::new(); dec_plugin.insert(dec_it.clone());
    let mk = Mk { it: if warm { Some(&enc_it) } else { None } };
    let pool = NPool::build(rng, &mk);
    let v = S::from_pool(&pool, rng);
    let depth = pool.depth;
    if rng.chance(1, 2) { drop(pool); }   // the value alone keeps its parts alive / other equal values are alive too
    let mut cx = NCx { it: &enc_it, classes: false, occ: vec![], marks: false };
    let val = v.nrender(&mut cx);
    let occ = cx.occ;
    let (bytes, recs) = trace_real(&v, &enc_plugin);
    let mode = if warm { "warm" } else { "fresh" };
    // warm: the op text says which handles are private copies (`Interned::new_duplicating`, ~5 % of the kids): the live
    // value that holds one is a non-canonical entry of the decoder-side interner
    let val_cmp = val.clone();
    let val = if warm { let mut cm = NCx { it: &enc_it, classes: false, occ: vec![], marks: true }; v.nrender(&mut cm) } else { val };
    if occ.iter().any(|o| o.3) && warm { Stats::bump(&mut st.classes, "nested-warm-with-new_duplicating-inner-handle"); }
    let ty = S::nty();
    // hypothesis of `interned_roundtrip_nested`: equal (type id, hash) only for equal payloads (the hash is part of the rendering)
    let hash_of = |r: &String| r[1..r.find('{').unwrap()].to_string();
    let hyp = occ.iter().all(|a| occ.iter().all(|b| !(a.0 == b.0 && hash_of(&a.2) == hash_of(&b.2)) || a.2 == b.2));
    if !hyp { st.hyp_violated += 1; }
    let repeated = occ.iter().enumerate().any(|(i, a)| occ[..i].iter().any(|b| a.0 == b.0 && a.2 == b.2));
    Stats::bump(&mut st.classes, &format!("nested-depth-{}", depth.min(6)));
    Stats::bump(&mut st.classes, if repeated { "nested-with-sharing" } else { "nested-no-sharing" });
    Stats::bump(&mut st.classes, &format!("nested-occurrences-{}", match occ.len() { 0 => "0", 1..=3 => "1-3", 4..=15 => "4-15", 16..=63 => "16-63", _ => "64+" }));
    let mutated = mask == u128::MAX && rng.chance(1, 5);
    if !hyp {
        // colliding hashes: the encoder is still followed byte for byte (seen-set order: a descendant colliding with an
        // ancestor is written as a reference); the decoder is not (the hashes of the conflated payloads it builds and
        // drops on the way are unknown to the model) — the flat `I` ops compare both sides under collisions
        st.line(out, "nested", &format!("Q|{}|{}|{}", NENV, ty, val), &hex(&bytes), true);
        Stats::bump(&mut st.classes, "nested-colliding-encode-only");
        let mut dec = Guard::new(&bytes[..], LIMIT);
        let r = decode_real::<S>(&mut dec, &dec_plugin);
        Stats::bump(&mut st.classes, &format!("nested-colliding-decode-{}", match &r { Ok(_) => "ok".to_string(), Err(o) => o.show() }));
        return;
    }
    {
        // oracle, encoder side ("equal sub-values are encoded once"): the handle tags are the only `emit_u8` calls of these
        // types; the number of handles written in full is the number of distinct (type id, payload) in the value
        let full = recs.iter().filter(|r| r.kind == Kind::U8 && bytes[r.off] == 0).count();
        let distinct: HashSet<(u32, &String)> = occ.iter().map(|o| (o.0, &o.2)).collect();
        if full != distinct.len() {
            st.fail("nested:encoded-once".into(), format!("{} handles written in full, {} distinct interned values: type {ty} value {val} bytes {}", full, distinct.len(), hex(&bytes)), format!("N|{}|{}|{}|{}|-|-", mode, NENV, ty, val));
        }
    }
    if !mutated {
        let j = junk(rng);
        let mut stream = bytes.clone(); stream.extend_from_slice(&j);
        let mut dec = Guard::new(&stream[..], vlimit());
        let r = decode_real::<S>(&mut dec, &dec_plugin);
        if dec.tripped { st.guard_skipped += 1; return; }
        let consumed = stream.len() - dec.remaining();
        let mut extra = "-".to_string();
        let (imp_o, bad): (String, Option<(&str, String)>) = match &r {
            Ok(d) => {
                let mut c2 = NCx { it: &dec_it, classes: true, occ: vec![], marks: false };
                let shown = d.nrender(&mut c2);
                let docc = c2.occ;
                if mask != u128::MAX { let mut c3 = NCx { it: &dec_it, classes: false, occ: vec![], marks: false }; extra = d.nrender(&mut c3); }
                let same_shape = docc.len() == occ.len() && docc.iter().zip(occ.iter()).all(|(a, b)| a.0 == b.0);
                let bad = if *d != v || !same_shape { Some(("nested:roundtrip", "decoded value differs from the original".to_string())) }
                    else if consumed != bytes.len() { Some(("nested:consumed", format!("consumed {consumed} of {} bytes", bytes.len()))) }
                    else if let Some((i, k)) = (0..occ.len()).flat_map(|i| (0..occ.len()).map(move |k| (i, k))).find(|(i, k)| occ[*i].0 == occ[*k].0 && !docc[*i].3 && !docc[*k].3 && (docc[*i].1 == docc[*k].1) != (occ[*i].2 == occ[*k].2)) {
                        Some(("nested:sharing", format!("handle occurrences {i} and {k} (pre-order) of type {}: equal values {} but same allocation {}", occ[i].0, occ[i].2 == occ[k].2, docc[i].1 == docc[k].1))) }
                    else if let Some(i) = (0..occ.len()).find(|i| occ[*i].0 != occ[0].0 && docc[*i].1 == docc[0].1 && occ[0].0 < 2 && occ[*i].0 < 2) { Some(("nested:types-share", format!("occurrence {i} shares an allocation with a handle of another type"))) }
                    else if warm && docc.iter().zip(occ.iter()).any(|(a, b)| a.1 != b.1) { Some(("nested:not-canonical", "decoding through the encoder's interner did not return the live originals".to_string())) }
                    else {
                        // decoding the same bytes again while the first result is alive: the same allocations
                        let mut dec2 = Guard::new(&stream[..], vlimit());
                        match decode_real::<S>(&mut dec2, &dec_plugin) {
                            Ok(d2) => { let mut c4 = NCx { it: &dec_it, classes: true, occ: vec![], marks: false }; let _ = d2.nrender(&mut c4);
                                if d2 != *d || c4.occ.iter().zip(docc.iter()).any(|(a, b)| a.1 != b.1) { Some(("nested:second-decode", "a second decode through the same interner did not return the first one's allocations".to_string())) } else { None } }
                            Err(o) => Some(("nested:second-decode", format!("a second decode through the same interner failed: {}", o.show()))),
                        }
                    };
                (format!("ok|{}|{}", shown, consumed), bad)
            }
            Err(o) => (o.show(), Some(("nested:roundtrip", format!("decoding a valid encoding failed: {}", o.show())))),
        };
        let op = format!("N|{}|{}|{}|{}|{}|{}", mode, NENV, ty, val, hex(&j), extra);
        st.line(out, "nested", &op, &format!("{}|{}", hex(&bytes), imp_o), true);
        if hyp { if let Some((sig, desc)) = bad { st.fail(sig.into(), format!("{desc}: type {ty} value {val} bytes {} -> {imp_o}", hex(&bytes)), op); } }
    } else {
        // mutated stream: truncation, an invalid handle tag, or a first occurrence turned into a reference (its payload is
        // then read as a hash: the lookup misses and the decoder panics)
        let tags: Vec<&Rec> = recs.iter().filter(|r| r.kind == Kind::U8).collect();
        let stream = if tags.is_empty() || rng.chance(1, 2) { if bytes.is_empty() { bytes.clone() } else { bytes[..rng.below(bytes.len() as u64) as usize].to_vec() } }
                     else { let r = *rng.pick(&tags); let nb = if bytes[r.off] == 0 && rng.chance(2, 3) { 1u8 } else { *rng.pick(&[2u8, 3, 0xff]) }; splice(&bytes, r, &[nb]) };
        let mut dec = Guard::new(&stream[..], LIMIT);
        let r = decode_real::<S>(&mut dec, &dec_plugin);
        if dec.tripped { st.guard_skipped += 1; return; }
        let consumed = stream.len() - dec.remaining();
        let imp_o = match &r { Ok(d) => { let mut c2 = NCx { it: &dec_it, classes: true, occ: vec![], marks: false }; format!("ok|{}|{}", d.nrender(&mut c2), consumed) } Err(o) => o.show() };
        Stats::bump(&mut st.classes, &format!("nested-mutated-{}", imp_o.split('|').next().unwrap()));
        st.line(out, "nested", &format!("O|{}|{}|{}|{}|{}", mode, NENV, ty, val, hex(&stream)), &imp_o, true);
    }
    drop(v);
}

// ------------------------------------------------------------------------------------------------
// interned handles, HISTORIES on one long-lived interner: encode / decode-and-keep / decode-and-drop / drop / vacuum.
// Dropping every handle to a value leaves a DEAD weak entry under its hash until the next vacuum; the model's interner
// holds live entries only (a dead entry is an absent one): for every decode step the model's interner is rebuilt from
// the values that are alive at that moment, the real interner just lives on.
// ------------------------------------------------------------------------------------------------
impl NPay for u64 { const TID: u32 = 5; fn pay_render(&self, _: &mut NCx) -> String { Describe::render(self) } }
impl NPay for Vec<u16> { const TID: u32 = 6; fn pay_render(&self, _: &mut NCx) -> String { list(self.iter().map(|x| x.to_string()).collect()) } }
impl NPay for [u32] { const TID: u32 = 7; fn pay_render(&self, _: &mut NCx) -> String { list(self.iter().map(|x| x.to_string()).collect()) } }
impl NPay for Path { const TID: u32 = 8; fn pay_render(&self, _: &mut NCx) -> String { shex(self.to_str().unwrap().as_bytes()) } }
type F1 = (Vec<Interned<str>>, Vec<Interned<[u32]>>, Vec<Interned<Path>>, Interned<u64>);
type F2 = (Interned<String>, Vec<Interned<Vec<u16>>>, Option<Interned<str>>, Vec<Interned<Path>>);
#[derive(PartialEq)]
pub enum HVal { N1(N1), N2(N2), N3(N3), N4(N4), F1(F1), F2(F2) }
macro_rules! hv_each { ($s:expr, $v:ident => $e:expr) => { match $s { HVal::N1($v) => $e, HVal::N2($v) => $e, HVal::N3($v) => $e, HVal::N4($v) => $e, HVal::F1($v) => $e, HVal::F2($v) => $e } } }
fn nty_of<T: NShape>(_: &T) -> String { T::nty() }
impl HVal {
    fn nty(&self) -> String { hv_each!(self, v => nty_of(v)) }
    fn render(&self, cx: &mut NCx) -> String { hv_each!(self, v => v.nrender(cx)) }
    fn encode(&self, p: &Plugin) -> Vec<u8> { hv_each!(self, v => encode_real(v, p)) }
    fn kind(&self) -> u8 { match self { HVal::N1(_) => 0, HVal::N2(_) => 1, HVal::N3(_) => 2, HVal::N4(_) => 3, HVal::F1(_) => 4, HVal::F2(_) => 5 } }
    fn decode_kind(kind: u8, dec: &mut Guard, p: &Plugin) -> Result<HVal, Outcome> {
        match kind { 0 => decode_real::<N1>(dec, p).map(HVal::N1), 1 => decode_real::<N2>(dec, p).map(HVal::N2), 2 => decode_real::<N3>(dec, p).map(HVal::N3),
            3 => decode_real::<N4>(dec, p).map(HVal::N4), 4 => decode_real::<F1>(dec, p).map(HVal::F1), _ => decode_real::<F2>(dec, p).map(HVal::F2) }
    }
    fn build(rng: &mut Rng, it: &Interner, pool: &NPool) -> HVal {
        let words = ["", "a", "b"]; let paths = ["", "a", "a/b"]; let sl: [&[u32]; 3] = [&[], &[1], &[1, 200]];
        let s = |rng: &mut Rng| it.intern_unsized::<str, Box<str>>((*rng.pick(&words)).to_string().into_boxed_str());
        let p = |rng: &mut Rng| it.intern_unsized::<Path, Box<Path>>(PathBuf::from(*rng.pick(&paths)).into_boxed_path());
        match rng.below(8) {
            0 => HVal::N1(N1::from_pool(pool, rng)), 1 => HVal::N2(N2::from_pool(pool, rng)), 2 => HVal::N3(N3::from_pool(pool, rng)), 3 => HVal::N4(N4::from_pool(pool, rng)),
            4 | 5 => {
                let a: Vec<Interned<str>> = (0..rng.below(5)).map(|_| s(rng)).collect();
                let b: Vec<Interned<[u32]>> = (0..rng.below(4)).map(|_| it.intern_unsized::<[u32], Box<[u32]>>(rng.pick(&sl).to_vec().into_boxed_slice())).collect();
                let c: Vec<Interned<Path>> = (0..rng.below(4)).map(|_| p(rng)).collect();
                HVal::F1((a, b, c, it.intern(*rng.pick(&[0u64, 300]))))
            }
            _ => {
                let a = it.intern((*rng.pick(&words)).to_string());
                let b: Vec<Interned<Vec<u16>>> = (0..rng.below(4)).map(|_| it.intern(pool_v16(rng))).collect();
                let c = if rng.chance(2, 3) { Some(s(rng)) } else { None };
                let d: Vec<Interned<Path>> = (0..rng.below(4)).map(|_| p(rng)).collect();
                HVal::F2((a, b, c, d))
            }
        }
    }
}
const HENV: &str = "0=T(Pu16,S(H0),O(H2),Pstr);1=E(T(),T(H0),T(H1,Pu16),T(H1,H1),T(H3),T(H4));2=Pstr;3=Pstr;4=S(H0);5=Pu64;6=Pseq(u16);7=Pseq(u32);8=Pstr";
struct HSlot { kind: u8, ty: String, val: String, bytes: Vec<u8>, orig: Option<HVal> }
fn history_case(out: &mut Out, st: &mut Stats, rng: &mut Rng) {
    DUP_IDS.with(|d| d.borrow_mut().clear());
    let it = Interner::new(4, MaskedBuilder { seed: rng.next(), mask: u128::MAX });
    let mut plugin = Plugin::new(); plugin.insert(it.clone());
    let mut steps: Vec<String> = vec![];
    let mut slots: Vec<HSlot> = vec![];
    {
        let mk = Mk { it: Some(&it) };
        let pool = NPool::build(rng, &mk);
        for i in 0..rng.range(1, 3) {
            let v = HVal::build(rng, &it, &pool);
            let mut cx = NCx { it: &it, classes: false, occ: vec![], marks: false };
            let val = v.render(&mut cx);
            let bytes = v.encode(&plugin);
            steps.push(format!("v{i}={}:{} enc v{i}", v.nty(), val));
            slots.push(HSlot { kind: v.kind(), ty: v.nty(), val, bytes, orig: Some(v) });
        }
    }
    let mut kept: Vec<(usize, HVal)> = vec![];
    let mut dead_possible = false;
    for _ in 0..rng.range(3, 9) {
        match rng.below(9) {
            0 | 1 => { let i = rng.below(slots.len() as u64) as usize; if slots[i].orig.take().is_some() { steps.push(format!("drop v{i}")); dead_possible = true; } }
            2 => { if !kept.is_empty() { let j = rng.below(kept.len() as u64) as usize; kept.remove(j); steps.push(format!("drop kept#{j}")); dead_possible = true; } }
            3 => { it.vacuum(); steps.push("vacuum".into()); }
            k => {
                let i = rng.below(slots.len() as u64) as usize;
                let keep = k >= 7;
                steps.push(format!("decode v{i} {}", if keep { "keep" } else { "drop-result" }));
                // what is alive right now: (type id, rendering) -> pointer, and the list handed to the model
                let mut alive: HashMap<(u32, String), usize> = HashMap::new();
                let mut kept_s: Vec<String> = vec![];
                for (s, v) in slots.iter().filter_map(|s| s.orig.as_ref().map(|v| (s, v))).chain(kept.iter().map(|(i, v)| (&slots[*i], v))) {
                    let mut cx = NCx { it: &it, classes: false, occ: vec![], marks: false };
                    let _ = v.render(&mut cx);
                    for (t, p, r, dup) in cx.occ { if !dup { alive.insert((t, r), p); } }
                    let mut cm = NCx { it: &it, classes: false, occ: vec![], marks: true };
                    kept_s.push(format!("{}~{}", s.ty, v.render(&mut cm)));
                }
                let s = &slots[i];
                let j = junk(rng);
                let mut stream = s.bytes.clone(); stream.extend_from_slice(&j);
                let mut dec = Guard::new(&stream[..], vlimit());
                let r = HVal::decode_kind(s.kind, &mut dec, &plugin);
                if dec.tripped { st.guard_skipped += 1; return; }
                let consumed = stream.len() - dec.remaining();
                let op = format!("K|{}|{}|{}|{}|{}", HENV, s.ty, s.val, hex(&j), kept_s.join("^"));
                let hist = format!("history on one interner: {} ; op {}", steps.join(" ; "), op);
                let (imp_o, bad): (String, Option<(&str, String)>) = match &r {
                    Ok(d) => {
                        let mut c1 = NCx { it: &it, classes: false, occ: vec![], marks: false };
                        let dval = d.render(&mut c1);
                        let docc = c1.occ;
                        let mut c2 = NCx { it: &it, classes: true, occ: vec![], marks: false };
                        let shown = d.render(&mut c2);
                        let bad = if dval != s.val { Some(("interned-history:roundtrip", format!("decoded {dval}"))) }
                            else if consumed != s.bytes.len() { Some(("interned-history:consumed", format!("consumed {consumed} of {}", s.bytes.len()))) }
                            else if let Some((a, b)) = (0..docc.len()).flat_map(|a| (0..docc.len()).map(move |b| (a, b))).find(|(a, b)| docc[*a].0 == docc[*b].0 && !docc[*a].3 && !docc[*b].3 && (docc[*a].1 == docc[*b].1) != (docc[*a].2 == docc[*b].2)) {
                                Some(("interned-history:sharing", format!("occurrences {a} and {b}: equal values {} but same allocation {}", docc[a].2 == docc[b].2, docc[a].1 == docc[b].1))) }
                            else if let Some(o) = docc.iter().find(|o| !o.3 && alive.get(&(o.0, o.2.clone())).map_or(false, |p| *p != o.1)) { Some(("interned-history:not-canonical", format!("a decoded handle of type {} is not the allocation of the equal live value", o.0))) }
                            else { None };
                        (format!("ok|{}|{}", shown, consumed), bad)
                    }
                    Err(Outcome::Panic) => ("panic".into(), Some(("interned-history:decode-panicked", "decode panicked".to_string()))),
                    Err(o) => (o.show(), Some(("interned-history:decode-error", o.show()))),
                };
                st.line(out, "history", &op, &format!("{}|{}", hex(&s.bytes), imp_o), true);
                Stats::bump(&mut st.classes, if dead_possible { "history-decode-after-drops" } else { "history-decode-all-alive" });
                if let Some((sig, desc)) = bad { st.fail(sig.into(), format!("{desc}: {}", hist.chars().take(1500).collect::<String>()), hist.clone()); }
                if keep { if let Ok(d) = r { kept.push((i, d)); } } else { dead_possible = true; }
            }
        }
    }
}

/// rebuild a BitVec from its descriptor `bv(W,O)` and rendering `b<len>:<w>.<w>…`
fn corpus_bitvec(desc: &str, val: &str) -> Option<Box<dyn Erased>> {
    let v = val.strip_prefix('b')?;
    let (len, ws) = v.split_once(':')?;
    let len: usize = len.parse().ok()?;
    let words: Vec<u64> = if ws.is_empty() { vec![] } else { ws.split('.').map(|w| w.parse::<u64>().ok()).collect::<Option<Vec<_>>>()? };
    macro_rules! mk { ($t:ty, $o:ty) => {{
        let mut bv = BitVec::<$t, $o>::from_vec(words.iter().map(|w| *w as $t).collect());
        if len > bv.len() { return None; }
        bv.truncate(len);
        Some(Box::new(Holder(bv)) as Box<dyn Erased>)
    }}}
    match desc {
        "bv(8,L)" => mk!(u8, Lsb0), "bv(8,M)" => mk!(u8, Msb0), "bv(16,L)" => mk!(u16, Lsb0), "bv(16,M)" => mk!(u16, Msb0),
        "bv(32,L)" => mk!(u32, Lsb0), "bv(32,M)" => mk!(u32, Msb0), "bv(64,L)" => mk!(u64, Lsb0), "bv(64,M)" => mk!(u64, Msb0),
        "bv(size,L)" => mk!(usize, Lsb0), "bv(size,M)" => mk!(usize, Msb0), _ => None }
}

// ------------------------------------------------------------------------------------------------
// main: stages, sharding, report
// ------------------------------------------------------------------------------------------------
fn jmap<K: std::fmt::Display>(m: &BTreeMap<K, u64>) -> String { format!("{{{}}}", m.iter().map(|(k, v)| format!("{}:{}", jstr(&k.to_string()), v)).collect::<Vec<_>>().join(",")) }

fn main() {
    let a = args();
    if std::env::var("C12_PANIC_MSG").is_err() { std::panic::set_hook(Box::new(|_| {})); }
    let mut shard = (0u64, 1u64);
    let mut stages: Vec<String> = vec!["exh16", "edges", "random", "pairs", "malformed", "interned", "nested", "history"].into_iter().map(String::from).collect();
    let mut i = 0;
    while i < a.rest.len() {
        match a.rest[i].as_str() {
            "--shard" => { shard = (a.rest[i + 1].parse().unwrap(), a.rest[i + 2].parse().unwrap()); i += 3; }
            "--guarded" => { GUARDED.store(true, Ordering::Relaxed); i += 1; }
            "--stages" => { stages = a.rest[i + 1].split(',').map(String::from).collect(); i += 2; }
            "--list-f7-sigs" => {
                for e in registry().iter().filter(|e| e.f7) { for k in ["mismatch", "consumed", "error-eof", "error-invalid", "error-other", "panic"] { println!("{k}:{}", e.desc); } }
                return;
            }
            _ => { i += 1; }
        }
    }
    let n = a.n.unwrap_or(if a.tier == "thorough" { 40000 } else { 4000 });
    let reg = registry();
    let plugin = Plugin::new();
    let mut out = Out::new(&a.out);
    let mut st = Stats::default();
    let mut rng = Rng::new(a.seed.wrapping_mul(1_000_003).wrapping_add(shard.0));
    for e in &reg { st.rust_types.insert(e.rust); st.descs.insert(e.desc.clone()); }

    if let Some(f) = &a.replay {
        // regression corpus: every `V|bv(W,O)|b<len>:<w>.<w>…` op line found in the file is rebuilt as a real BitVec
        // and run first (finding F7, fixed by /repo commit e089897: must round-trip)
        let text = std::fs::read_to_string(f).unwrap_or_default();
        let mut rest = &text[..];
        while let Some(i) = rest.find("V|bv(") {
            let tail = &rest[i..];
            let end = tail.find(|c: char| c == '"' || c == '\n').unwrap_or(tail.len());
            let line = &tail[..end];
            let parts: Vec<&str> = line.split('|').collect();
            if parts.len() >= 3 {
                match corpus_bitvec(parts[1], parts[2]) {
                    Some(v) => value_case(&mut out, &mut st, "corpus", &*v, 0, &mut rng, &plugin),
                    None => st.fail(format!("corpus-unreadable:{}", parts[1]), format!("corpus line not understood: {line}"), line.to_string()),
                }
            }
            rest = &tail[end..];
        }
    }

    if stages.iter().any(|s| s == "exh16") {
        // all 2^16 values of every 16-bit integer type
        for e in reg.iter().filter(|e| (e.from_u16)(1).is_some()) {
            for x in 0..=u16::MAX { if (x as u64) % shard.1 != shard.0 { continue; } if let Some(v) = (e.from_u16)(x) { value_case(&mut out, &mut st, "exh16", &*v, e.depth, &mut rng, &plugin); } }
        }
    }
    if stages.iter().any(|s| s == "edges") {
        for (k, e) in reg.iter().enumerate() { if (k as u64) % shard.1 != shard.0 { continue; } for v in (e.edges)() { value_case(&mut out, &mut st, "edges", &*v, e.depth, &mut rng, &plugin); } }
    }
    if stages.iter().any(|s| s == "random") {
        // every registered type at least once per run (across shards), then random types
        for (k, e) in reg.iter().enumerate() { if (k as u64) % shard.1 != shard.0 { continue; } for size in [1u32, 3, 4] { let mut g = Gen { rng: Rng(rng.next()), size }; let v = (e.mk)(&mut g); value_case(&mut out, &mut st, "random", &*v, e.depth, &mut rng, &plugin); } }
        for _ in 0..n { let e = rng.pick(&reg); let mut g = Gen { rng: Rng(rng.next()), size: rng.range(0, 4) as u32 }; let v = (e.mk)(&mut g); value_case(&mut out, &mut st, "random", &*v, e.depth, &mut rng, &plugin); }
    }
    if stages.iter().any(|s| s == "pairs") {
        for _ in 0..n / 8 { let size = rng.range(0, 3) as u32; pair_case(&mut out, &mut st, &reg, &mut rng, &plugin, size); }
    }
    if stages.iter().any(|s| s == "malformed") {
        for (k, e) in reg.iter().enumerate() { if (k as u64) % shard.1 != shard.0 { continue; } let mut g = Gen { rng: Rng(rng.next()), size: 2 }; let v = (e.mk)(&mut g); malformed_case(&mut out, &mut st, &*v, &mut rng, &plugin, true); }
        for _ in 0..n / 2 { let e = rng.pick(&reg); let mut g = Gen { rng: Rng(rng.next()), size: rng.range(0, 3) as u32 }; let v = (e.mk)(&mut g); malformed_case(&mut out, &mut st, &*v, &mut rng, &plugin, false); }
    }
    if stages.iter().any(|s| s == "interned") {
        for _ in 0..(n / 16).max(8) {
            interned_case::<S1>(&mut out, &mut st, &mut rng); interned_case::<S2>(&mut out, &mut st, &mut rng);
            interned_case::<S3>(&mut out, &mut st, &mut rng); interned_case::<S4>(&mut out, &mut st, &mut rng);
        }
    }

    if stages.iter().any(|s| s == "nested") {
        if shard.0 == 0 { nested_boundary_probe(&mut st); }
        for _ in 0..(n / 32).max(8).min(4000) {   // (the op lines are long: bounded for the disk)
            nested_case::<N1>(&mut out, &mut st, &mut rng); nested_case::<N2>(&mut out, &mut st, &mut rng);
            nested_case::<N3>(&mut out, &mut st, &mut rng); nested_case::<N4>(&mut out, &mut st, &mut rng);
        }
    }

    if stages.iter().any(|s| s == "history") {
        for _ in 0..(n / 16).max(8).min(6000) { history_case(&mut out, &mut st, &mut rng); }
    }

    let fails: Vec<String> = st.failures.iter().map(|(sig, desc, case)| format!("{{\"sig\":{},\"desc\":{},\"case\":{}}}", jstr(sig), jstr(&desc.chars().take(600).collect::<String>()), jstr(&case.chars().take(2000).collect::<String>()))).collect();
    let report = format!(
        "{{\"evaluations\":{},\"distinct_nontrivial\":{},\"rule\":{},\"samples\":[{}],\"distribution\":{{\"by_stage\":{},\"by_type_depth\":{},\"encoded_length\":{},\"malformed_outcome\":{},\"mutation_kind\":{},\"rust_types\":{},\"descriptors\":{},\"guard_skipped\":{},\"interned_hypothesis_violated\":{}}},\"oracle_failures\":[{}]}}",
        st.lines, st.nontrivial.len(),
        jstr("distinct op lines whose encoding has at least 2 bytes, plus every back-to-back, malformed, interned, nested and history-step case"),
        st.samples.iter().map(|s| jstr(&s.chars().take(300).collect::<String>())).collect::<Vec<_>>().join(","),
        jmap(&st.by_stage), jmap(&st.by_depth), jmap(&st.enc_len), jmap(&st.classes), jmap(&st.mutations),
        st.rust_types.len(), st.descs.len(), st.guard_skipped, st.hyp_violated, fails.join(","));
    out.finish(&report);
}
