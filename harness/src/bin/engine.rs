//! C01 / C03 / C06 correspondence harness: generated programs and histories run on the real engine
//! (in-memory storage engine, current-thread runtime), with the from-scratch oracle (C01/C06) and the
//! justified-execution oracle (C03).  Emits the case text as ops for the Lean driver.
use std::{collections::{BTreeMap, BTreeSet}, sync::Arc};

use qbice::{Config, Engine, Identifiable, serialize::Plugin, stable_hash::{SeededStableHasherBuilder, Sip128Hasher},
    storage::storage_engine::in_memory::{InMemoryStorageEngine, InMemoryStorageEngineFactory}};
use qbice_verif_harness::{eng::*, *};

#[derive(Debug, Clone, Copy, PartialEq, Eq, PartialOrd, Ord, Hash, Default, Identifiable)]
pub struct MemCfg;
impl Config for MemCfg {
    type StorageEngine = InMemoryStorageEngine;
    type BuildStableHasher = SeededStableHasherBuilder<Sip128Hasher>;
    type BuildHasher = fxhash::FxBuildHasher;
}

struct Failure { sig: String, desc: String, case: String }

/// Runs one case on a fresh engine; returns per-op outputs, or a panic message.
fn run_case(case: &Case) -> Result<Vec<OpOut>, String> {
    let (outs, crash) = run_case2(case);
    match crash { None => Ok(outs), Some(m) => Err(m) }
}

/// outputs of the ops that completed, and what stopped the case (panic / hang) if anything did
fn run_case2(case: &Case) -> (Vec<OpOut>, Option<String>) { let (o, _, c) = run_case3(case, false); (o, c) }

/// as `run_case2`; with `state` also the state digest (eng::state_digest) after every completed op
fn run_case3(case: &Case, state: bool) -> (Vec<OpOut>, Vec<String>, Option<String>) {
    let partial: std::sync::Arc<std::sync::Mutex<(Vec<OpOut>, Vec<String>)>> = Default::default();
    let p2 = partial.clone();
    let case2 = case.clone();
    // watchdog: the case runs on its own thread; a synchronous self-deadlock or livelock inside the
    // engine (which no tokio timeout can interrupt) is reported as a hang and the thread is abandoned
    let (tx, rx) = std::sync::mpsc::channel();
    let _ = std::thread::Builder::new().stack_size(256 << 20).spawn(move || { let r = run_case_inner(&case2, p2, state); let _ = tx.send(r); });
    let r = match rx.recv_timeout(std::time::Duration::from_secs(8)) {
        Ok(r) => r,
        Err(_) => Err("hang (watchdog): the case did not finish within 8 s of wall time".to_string()),
    };
    let (outs, states) = partial.lock().unwrap().clone();
    match r { Ok(()) => (outs, states, None), Err(m) => (outs, states, Some(m)) }
}

fn run_case_inner(case: &Case, partial: std::sync::Arc<std::sync::Mutex<(Vec<OpOut>, Vec<String>)>>, state: bool) -> Result<(), String> {
    let rt = tokio::runtime::Builder::new_current_thread().enable_all().build().unwrap();
    let case2 = case.clone();
    let r = std::panic::catch_unwind(std::panic::AssertUnwindSafe(|| {
        rt.block_on(async move {
            let sh = Arc::new(Shared::default());
            *sh.program.write().unwrap() = case2.program.clone();
            let mut engine = Engine::<MemCfg>::new_with(Plugin::default(), InMemoryStorageEngineFactory, SeededStableHasherBuilder::new(0)).await.unwrap();
            register_all(&mut engine, &sh);
            let engine = Arc::new(engine);
            for op in &case2.ops {
                let fut = run_op(&engine, &sh, op);
                match tokio::time::timeout(std::time::Duration::from_secs(3), fut).await {
                    Ok(o) => {
                        // read-only dump of the engine's bookkeeping, taken while nothing is in flight
                        let d = if state { state_digest(&engine, &case2.program).await } else { String::new() };
                        let mut g = partial.lock().unwrap(); g.0.push(o); g.1.push(d);
                    }
                    Err(_) => return Err(format!("hang at op {}", op.render())),
                }
            }
            Ok(())
        })
    }));
    drop(rt);
    match r {
        Ok(x) => x,
        Err(p) => Err(format!("panic: {}", p.downcast_ref::<String>().cloned().or_else(|| p.downcast_ref::<&str>().map(|s| s.to_string())).unwrap_or_else(|| "<non-string payload>".into()))),
    }
}

/// C01/C06 value oracle + C03 justification oracle over the implementation's outputs.
fn judge(case: &Case, outs: &[OpOut], mode: &str) -> Vec<(String, String)> { judge2(case, outs, mode).0 }

/// returns (failures, expected value lines per op)
fn judge2(case: &Case, outs: &[OpOut], mode: &str) -> (Vec<(String, String)>, Vec<String>) {
    let mut fails = vec![];
    let mut expect: Vec<String> = vec![];
    let p = &case.program;
    let mut truth = Truth::default();
    let mut world: BTreeMap<u32, i64> = BTreeMap::new();
    // per key: reads of its last completed run with the from-scratch values *then*
    let mut last_run: BTreeMap<u32, Vec<(u32, i64)>> = BTreeMap::new();
    let mut computed: BTreeSet<u32> = BTreeSet::new();
    let mut exec_this_epoch: BTreeSet<u32> = BTreeSet::new();
    let mut last_result: BTreeMap<u32, i64> = BTreeMap::new();
    let mut changed_exec_this_epoch: BTreeSet<u32> = BTreeSet::new();
    let crash_out = OpOut { vals: vec!["crash".into(); 8], execs: vec![] };
    for (i, op) in case.ops.iter().enumerate() {
        let crashed = i >= outs.len();
        if i > outs.len() { break; }
        let out = if crashed { &crash_out } else { &outs[i] };
        match op {
            Op::Session(ws) => {
                exec_this_epoch.clear();
                changed_exec_this_epoch.clear();
                let mut refreshed = false;
                for w in ws { if let Write::World(k, v) = w { world.insert(*k, *v); } }
                let mut exps: Vec<String> = vec![];
                for (j, w) in ws.iter().enumerate() {
                    match w {
                        Write::Set(k, v) => {
                            let exp = match truth.inputs.get(k) { None => "Fresh", Some(o) if o == v => "Unchanged", Some(_) => "Updated" };
                            exps.push(exp.into());
                            if out.vals[j] != exp { fails.push((format!("C01:set-result"), format!("op {i} write {j}: set {k} {v} returned {} expected {exp}", out.vals[j]))); }
                            truth.inputs.insert(*k, *v);
                        }
                        Write::Refresh => {
                            exps.push("refreshed".into());
                            refreshed = true;
                            // every external node that has been computed re-executes and picks up the world
                            for k in computed.iter() { if p.kind(*k) == Kind::External { truth.ext.insert(*k, *world.get(k).unwrap_or(&0)); } }
                        }
                        Write::World(..) => { exps.push("world".into()); }
                    }
                }
                expect.push(exps.join(" "));
                // C03: executions inside a session are external executors under refresh only
                for e in &out.execs {
                    if p.kind(e.key) != Kind::External || !refreshed { fails.push(("C03:exec-in-session".into(), format!("op {i}: executor of key {} ran inside a session", e.key))); }
                }
            }
            Op::Round(ks) => {
                // external nodes computed for the first time pick up the current world
                let mut sc_truth = truth.clone();
                for k in 0..p.nodes.len() as u32 { if p.kind(k) == Kind::External && !truth.ext.contains_key(&k) { sc_truth.ext.insert(k, *world.get(&k).unwrap_or(&0)); } }
                let mut sc = Scratch::new(p, &sc_truth);
                let mut exps: Vec<String> = vec![];
                for (j, k) in ks.iter().enumerate() {
                    let exp = sc.value(*k).unwrap();
                    exps.push(exp.to_string());
                    if out.vals[j] != exp.to_string() {
                        fails.push((format!("{}:value", if mode == "cyclic" { "C06" } else { "C01" }), format!("op {i}: query {k} returned {} expected {exp}", out.vals[j])));
                    }
                }
                expect.push(exps.join(" "));
                // C03 oracle (acyclic mode only): judge every invocation
                if mode != "cyclic" {
                    for e in &out.execs {
                        if let Some(r) = e.result { if last_result.get(&e.key).is_some_and(|o| *o != r) { changed_exec_this_epoch.insert(e.key); } last_result.insert(e.key, r); }
                    }
                    for e in &out.execs {
                        let kind = p.kind(e.key);
                        // values handed to the executor must be from-scratch values (C01, inner reads)
                        for (d, v) in &e.reads {
                            let exp = sc.value(*d).unwrap();
                            if *v != exp { fails.push(("C01:inner-read".into(), format!("op {i}: executor {} read {d} = {v} expected {exp}", e.key))); }
                        }
                        if kind == Kind::External {
                            if computed.contains(&e.key) { fails.push(("C03:external-rerun".into(), format!("op {i}: external {} re-executed outside refresh", e.key))); }
                        } else if computed.contains(&e.key) {
                            let prev = last_run.get(&e.key).cloned().unwrap_or_default();
                            let changed = prev.iter().any(|(d, old)| sc.value(*d).unwrap() != *old);
                            let aba = kind == Kind::Projection && prev.iter().any(|(d, _)| changed_exec_this_epoch.contains(d));
                            if !changed && aba { fails.push(("C03:unjustified-bp-aba".into(), format!("op {i}: projection {} re-ran by backward projection although its previous reads {:?} have their old values again (a dependency changed and changed back unobserved)", e.key, prev))); }
                            else if !changed && kind == Kind::Projection { fails.push(("C03:unjustified-bp".into(), format!("op {i}: projection {} re-ran (backward projection) although none of its previous reads {:?} changed", e.key, prev))); }
                            else if !changed { fails.push(("C03:unjustified".into(), format!("op {i}: executor {} re-ran although none of its previous reads {:?} changed", e.key, prev))); }
                        }
                        if !exec_this_epoch.insert(e.key) { fails.push(("C03:twice-per-epoch".into(), format!("op {i}: executor {} ran twice between two sessions", e.key))); }
                        computed.insert(e.key);
                        if kind == Kind::External { truth.ext.insert(e.key, *world.get(&e.key).unwrap_or(&0)); }
                        last_run.insert(e.key, e.reads.clone());
                    }
                } else {
                    for e in &out.execs { computed.insert(e.key); if p.kind(e.key) == Kind::External { truth.ext.insert(e.key, *world.get(&e.key).unwrap_or(&0)); } }
                }
            }
        }
    }
    (fails, expect)
}

fn nontrivial(case: &Case) -> bool {
    // a later session changes an input after at least one round happened
    let mut seen_round = false; let mut vals: BTreeMap<u32, i64> = BTreeMap::new(); let mut nt = false;
    for op in &case.ops {
        match op {
            Op::Round(_) => seen_round = true,
            Op::Session(ws) => for w in ws { if let Write::Set(k, v) = w { if seen_round && vals.get(k).is_some_and(|o| o != v) { nt = true; } vals.insert(*k, *v); } if let Write::Refresh = w { if seen_round { nt = true; } } },
        }
    }
    nt
}

/// delta-debugging over ops and nodes' expressions (simplify to constants)
fn shrink(case: &Case, mode: &str, sig: &str) -> Case {
    let fails_with = |c: &Case| -> bool {
        match run_case(c) { Ok(o) => judge(c, &o, mode).iter().any(|f| f.0 == sig), Err(m) => sig.starts_with("crash") && m.starts_with(&sig[6..sig.len().min(6 + 5)]) }
    };
    let mut cur = case.clone();
    let mut progress = true;
    while progress {
        progress = false;
        for i in (1..cur.ops.len()).rev() {
            let mut c = cur.clone(); c.ops.remove(i);
            if fails_with(&c) { cur = c; progress = true; }
        }
        for i in 0..cur.ops.len() {
            if let Op::Session(ws) = &cur.ops[i] { for j in (0..ws.len()).rev() { if i == 0 { continue; } let mut c = cur.clone(); if let Op::Session(w2) = &mut c.ops[i] { w2.remove(j); } if fails_with(&c) { cur = c; progress = true; break; } } }
            if let Op::Round(ks) = &cur.ops[i] { if ks.len() > 1 { for j in (0..ks.len()).rev() { let mut c = cur.clone(); if let Op::Round(k2) = &mut c.ops[i] { k2.remove(j); } if fails_with(&c) { cur = c; progress = true; break; } } } }
        }
        for k in 0..cur.program.nodes.len() {
            if matches!(cur.program.nodes[k].kind, Kind::Input | Kind::External) { continue; }
            if cur.program.nodes[k].expr != Expr::Const(0) { let mut c = cur.clone(); c.program.nodes[k].expr = Expr::Const(0); if fails_with(&c) { cur = c; progress = true; } }
        }
    }
    cur
}

fn main() {
    std::panic::set_hook(Box::new(|_| {}));
    let a = args();
    let mode = a.rest.iter().position(|x| x == "--mode").map(|i| a.rest[i + 1].clone()).unwrap_or("acyclic".into());
    let mut out = Out::new(&a.out);
    let n_cases = a.n.unwrap_or(if a.tier == "quick" { 300 } else { 4000 });
    let mut rng = Rng::new(a.seed);
    let mut failures: Vec<Failure> = vec![];
    let mut distinct: BTreeSet<u64> = BTreeSet::new();
    let (mut evals, mut ops_total, mut execs_total, mut with_fw, mut with_pj, mut with_unord, mut with_ext) = (0u64, 0u64, 0u64, 0u64, 0u64, 0u64, 0u64);
    let mut samples: Vec<String> = vec![];
    let mut crashes = 0u64;
    let mut exp_lines: Vec<String> = vec![];
    let with_state = a.rest.iter().any(|x| x == "--state");
    // `--state-max N`: digests for the first N cases only (bounds the size of thorough runs); the others get `-`
    let state_max: usize = a.rest.iter().position(|x| x == "--state-max").map(|i| a.rest[i + 1].parse().unwrap()).unwrap_or(usize::MAX);
    let mut state_lines: Vec<String> = vec![];
    let mut cases: Vec<Case> = vec![];
    if let Some(rp) = &a.replay {
        let text = std::fs::read_to_string(rp).unwrap();
        cases.push(Case::parse(&text));
    } else {
        // corpus first
        if let Ok(rd) = std::fs::read_dir(format!("{}/../corpus/engine-{mode}", env!("CARGO_MANIFEST_DIR"))) {
            let mut fs: Vec<_> = rd.flatten().map(|e| e.path()).collect(); fs.sort();
            for f in fs { cases.push(Case::parse(&std::fs::read_to_string(f).unwrap())); }
        }
        for i in 0..n_cases {
            let cfg = GenCfg { max_keys: if i % 4 == 0 { 6 } else { 12 }, max_ops: 10, firewalls: mode != "core" , externals: mode != "cyclic" && i % 3 == 0, unordered: mode == "acyclic" && i % 5 == 0, cycles: mode == "cyclic" };
            if mode == "pjchain" { cases.push(gen_pjchain(&mut rng)); continue; }
            if mode == "acyclic" && i % 6 == 5 { cases.push(gen_layered(&mut rng)); continue; }
            if mode == "acyclic" && i % 12 == 4 { cases.push(gen_pjswitch(&mut rng)); continue; }
            let p = gen_program(&mut rng, &cfg);
            let ops = gen_history(&mut rng, &p, &cfg);
            cases.push(Case { program: p, ops });
        }
    }
    if let Some(i) = a.rest.iter().position(|x| x == "--dump") { let idx: usize = a.rest[i + 1].parse().unwrap(); print!("{}", cases[idx].render()); return; }
    for (case_no, case) in cases.iter().enumerate() {
        evals += 1;
        let digest_this = with_state && case_no < state_max;
        let text = case.render();
        let h = { use std::hash::{Hash, Hasher}; let mut s = std::collections::hash_map::DefaultHasher::new(); text.hash(&mut s); s.finish() };
        if nontrivial(case) { distinct.insert(h); }
        if case.program.nodes.iter().any(|n| n.kind == Kind::Firewall) { with_fw += 1; }
        if case.program.nodes.iter().any(|n| n.kind == Kind::Projection) { with_pj += 1; }
        if case.program.nodes.iter().any(|n| n.kind == Kind::External) { with_ext += 1; }
        if case.program.has_unordered() { with_unord += 1; }
        if samples.len() < 3 && nontrivial(case) { samples.push(text.clone()); }
        let with_execs = !case.program.has_unordered();
        {
            let (outs, states, crash) = run_case3(case, digest_this);
            if with_state {
                state_lines.push("case".into());
                for _ in 0..case.program.nodes.len() { state_lines.push("ok".into()); }
                state_lines.extend(states.iter().map(|s| if digest_this { s.clone() } else { "-".to_string() }));
                if crash.is_some() { state_lines.push("crash".into()); }
            }
            let mut lines = text.lines();
            out.line(lines.next().unwrap(), "case");
            for _ in 0..case.program.nodes.len() { out.line(lines.next().unwrap(), "ok"); }
            for (op, o) in case.ops.iter().zip(&outs) { out.line(&op.render(), &render_out(o, with_execs)); ops_total += 1; execs_total += o.execs.len() as u64; }
            if let Some(msg) = &crash {
                let kind = if msg.starts_with("hang") { "hang" } else { "panic" };
                out.line(&case.ops[outs.len()].render(), &format!("crash {kind}"));
                crashes += 1;
            }
            let (fs, mut expect) = judge2(case, &outs, &mode);
            exp_lines.push("case".into());
            for _ in 0..case.program.nodes.len() { exp_lines.push("ok".into()); }
            expect.truncate(outs.len() + if crash.is_some() { 1 } else { 0 });
            exp_lines.extend(expect);
            if let Some(msg) = &crash {
                let kind = if msg.starts_with("hang") { "hang" } else { "panic" };
                let mut small = case.clone(); small.ops.truncate(outs.len() + 1);
                failures.push(Failure { sig: format!("crash:{kind}"), desc: msg.chars().take(300).collect(), case: small.render() });
            } else if let Some((sig, _)) = fs.first() {
                if failures.iter().filter(|f| f.sig == *sig).count() < 2 {
                    let small = shrink(case, &mode, sig);
                    let so = run_case(&small).unwrap_or_default();
                    let d = judge(&small, &so, &mode).into_iter().find(|f| f.0 == *sig).map(|f| f.1).unwrap_or_default();
                    failures.push(Failure { sig: sig.clone(), desc: d, case: small.render() });
                } else { failures.push(Failure { sig: sig.clone(), desc: fs[0].1.clone(), case: text.clone() }); }
            }
        }
    }
    let mut rep = String::from("{");
    rep.push_str(&format!("\"evaluations\":{evals},\"distinct_nontrivial\":{},", distinct.len()));
    rep.push_str(&format!("\"rule\":{},", jstr(&format!("mode={mode}: random ranked programs (3..12 keys; kinds input/normal/firewall/projection/external; conditional and unordered reads{}) x histories of sessions (set: change / same value / back to an earlier value; refresh; world) and query rounds (old roots, fresh roots, inner nodes); non-trivial = a session after the first round changes an input that had a value (or refreshes); distinct by hash of the case text", if mode == "cyclic" { "; forward references create cycles" } else { "" }))));
    rep.push_str(&format!("\"samples\":[{}],", samples.iter().map(|s| jstr(s)).collect::<Vec<_>>().join(",")));
    rep.push_str(&format!("\"distribution\":{{\"ops\":{ops_total},\"executor_invocations\":{execs_total},\"cases_with_firewall\":{with_fw},\"cases_with_projection\":{with_pj},\"cases_with_external\":{with_ext},\"cases_with_unordered_group\":{with_unord},\"cases_crashed\":{crashes}}},"));
    rep.push_str(&format!("\"oracle_failures\":[{}]", failures.iter().map(|f| format!("{{\"sig\":{},\"desc\":{},\"case\":{}}}", jstr(&f.sig), jstr(&f.desc), jstr(&f.case))).collect::<Vec<_>>().join(",")));
    rep.push('}');
    std::fs::write(format!("{}/expect.txt", a.out), exp_lines.join("\n") + "\n").unwrap();
    if with_state { std::fs::write(format!("{}/state_impl.txt", a.out), state_lines.join("\n") + "\n").unwrap(); }
    out.finish(&rep);
}
