//! C14 harness — type and query identities.
//!
//! Runs the REAL `qbice_stable_type_id` / `#[derive(Identifiable)]` / `#[derive(Query)]` /
//! `QueryID` / engine code in-process.
//!
//! * `U i <expr>` / `T <expr>`: `<T as Identifiable>::STABLE_TYPE_ID` (const-evaluated by rustc) for
//!   every type of the universe that `tools/gen_typeid.py` generated from the Identifiable impls of
//!   /repo (`harness/gen/typeid_universe.rs`, same order and canonical strings as the Lean file).
//! * `N <bytes>`: `StableTypeID::from_unique_type_name` at run time on seeded random strings.
//! * `C a b`: `StableTypeID::combine` at run time on seeded random raw ids.
//! * `Q khi klo <expr>`: `QueryID::new::<Q>(hash)` for the derived query types.
//!
//! Oracle (independent of the Lean model): all universe ids pairwise different; every pair of the
//! swap / nesting / array-length / tuple-association families different; const-evaluated ids equal
//! run-time recomputation where the harness knows the name; query ids of all (type, key) pairs of the
//! harness programs pairwise different and their `stable_type_id()` is the type's id; an in-memory
//! engine with five query types whose keys have identical content never returns one query's value
//! for another.
#![allow(clippy::all)]
#![allow(dead_code)]

use std::collections::HashMap;
use std::sync::Arc;

use qbice::stable_hash::{BuildStableHasher, SeededStableHasherBuilder, Sip128Hasher, StableHasher};
use qbice::{Identifiable, StableHash};
use qbice_stable_type_id::StableTypeID;
use qbice_verif_harness::{args, hex, jstr, Out, Rng};

include!(concat!(env!("CARGO_MANIFEST_DIR"), "/gen/typeid_universe.rs"));

fn idhex(id: StableTypeID) -> String { format!("{:016x}{:016x}", id.high(), id.low()) }

struct Fail { sig: String, desc: String, case: String }

// ---------------------------------------------------------------- query ids
fn hash128<K: StableHash>(k: &K) -> u128 {
    let b = SeededStableHasherBuilder::<Sip128Hasher>::new(0);
    let mut h = b.build_stable_hasher();
    k.stable_hash(&mut h);
    h.finish()
}

fn qid_line<Q: qbice::Query>(expr: &str, key: &Q, out: &mut Out, seen: &mut HashMap<(u128, u128), String>,
                             fails: &mut Vec<Fail>, label: String) {
    let h = hash128(key);
    let c: qbice::stable_hash::Compact128 = h.into();
    let q = qbice::query::QueryID::new::<Q>(c);
    let q2 = qbice::query::QueryID::new::<Q>(hash128(key).into());
    if q != q2 {
        fails.push(Fail { sig: "queryid-unstable".into(), desc: format!("QueryID::new gives two results for {label}"), case: label.clone() });
    }
    if q.stable_type_id() != Q::STABLE_TYPE_ID {
        fails.push(Fail { sig: "queryid-typeid-roundtrip".into(),
            desc: format!("QueryID::stable_type_id() != Q::STABLE_TYPE_ID for {label}"), case: label.clone() });
    }
    let k = (q.compact_stable_type_id().to_u128(), q.hash_128());
    if let Some(prev) = seen.insert(k, label.clone()) {
        if prev != label {
            fails.push(Fail { sig: format!("queryid-collision:{prev}|{label}"),
                desc: format!("two different queries share QueryID: {prev} and {label}"), case: format!("{prev} | {label}") });
        }
    }
    let sti = q.compact_stable_type_id();
    let hc = q.compact_hash_128();
    out.line(&format!("Q {:016x} {:016x} {expr}", c.high(), c.low()),
             &format!("{:016x} {:016x} {:016x} {:016x} {}", sti.low(), sti.high(), hc.low(), hc.high(), idhex(q.stable_type_id())));
}

// ---------------------------------------------------------------- engine aliasing
mod eng {
    use super::*;
    use qbice::{config::Config, executor::Executor, serialize::Plugin, Engine, TrackedEngine};
    use qbice::storage::storage_engine::in_memory::{InMemoryStorageEngine, InMemoryStorageEngineFactory};

    #[derive(Debug, Clone, Copy, PartialEq, Eq, PartialOrd, Ord, Hash, Default, Identifiable)]
    pub struct Cfg;
    impl Config for Cfg {
        type StorageEngine = InMemoryStorageEngine;
        type BuildStableHasher = SeededStableHasherBuilder<Sip128Hasher>;
        type BuildHasher = fxhash::FxBuildHasher;
    }

    pub struct Tag(pub u64);
    macro_rules! exec { ($q:ty, $f:expr) => {
        impl Executor<$q, Cfg> for Tag {
            async fn execute(&self, query: &$q, _e: &TrackedEngine<Cfg>) -> u64 { self.0 * 1_000_000 + ($f)(query) }
        }
    } }
    exec!(q::KeyA, |k: &q::KeyA| k.0);
    exec!(q::KeyB, |k: &q::KeyB| k.0);
    exec!(q::sub::KeyA, |k: &q::sub::KeyA| k.0);
    exec!(q::KeyG<u8>, |k: &q::KeyG<u8>| k.0);
    exec!(q::KeyG<u16>, |k: &q::KeyG<u16>| k.0);

    /// returns (queries made, failures)
    pub fn run(nkeys: u64, rng: &mut Rng, fails: &mut Vec<Fail>) -> u64 {
        let rt = tokio::runtime::Builder::new_multi_thread().worker_threads(2).enable_all().build().unwrap();
        let mut made = 0;
        rt.block_on(async {
            let mut engine = Engine::<Cfg>::new_with(Plugin::default(), InMemoryStorageEngineFactory,
                SeededStableHasherBuilder::<Sip128Hasher>::new(0)).await.unwrap();
            engine.register_executor::<q::KeyA, _>(Arc::new(Tag(1)));
            engine.register_executor::<q::KeyB, _>(Arc::new(Tag(2)));
            engine.register_executor::<q::sub::KeyA, _>(Arc::new(Tag(3)));
            engine.register_executor::<q::KeyG<u8>, _>(Arc::new(Tag(4)));
            engine.register_executor::<q::KeyG<u16>, _>(Arc::new(Tag(5)));
            let engine = Arc::new(engine);
            // two passes: the second one is answered from the store (this is where aliasing would show)
            let mut order: Vec<(u64, u64)> = (0..nkeys).flat_map(|k| (1..=5).map(move |t| (t, k))).collect();
            for pass in 0..2 {
                rng.shuffle(&mut order);
                let te = engine.clone().tracked().await;
                for &(t, k) in &order {
                    let v = match t {
                        1 => te.query(&q::KeyA(k)).await,
                        2 => te.query(&q::KeyB(k)).await,
                        3 => te.query(&q::sub::KeyA(k)).await,
                        4 => te.query(&q::KeyG::<u8>(k, std::marker::PhantomData)).await,
                        _ => te.query(&q::KeyG::<u16>(k, std::marker::PhantomData)).await,
                    };
                    made += 1;
                    if v != t * 1_000_000 + k {
                        fails.push(Fail { sig: format!("engine-alias:type{t}"),
                            desc: format!("pass {pass}: query type #{t} key {k} returned {v} (the value of another query)"),
                            case: format!("types=KeyA,KeyB,sub::KeyA,KeyG<u8>,KeyG<u16> key={k} type={t} got={v}") });
                    }
                }
            }
        });
        made
    }
}

fn main() {
    let a = args();
    let quick = a.tier == "quick";
    let mut rng = Rng::new(a.seed);
    let mut out = Out::new(&a.out);
    let mut fails: Vec<Fail> = vec![];
    let mut dist: HashMap<String, u64> = HashMap::new();
    let mut samples: Vec<String> = vec![];

    // ---- 1. the universe, id by id
    let mut by_id: HashMap<(u64, u64), &str> = HashMap::new();
    let mut by_expr: HashMap<&str, StableTypeID> = HashMap::new();
    let mut depth_hist: HashMap<usize, u64> = HashMap::new();
    let shard_only_random = a.rest.iter().any(|s| s == "--random-only");
    if !shard_only_random {
        for (i, (expr, id)) in UNIVERSE.iter().enumerate() {
            out.line(&format!("U {i} {expr}"), &format!("{} {}", idhex(*id), expr));
            out.line(&format!("T {expr}"), &idhex(*id));
            if let Some(prev) = by_id.insert((id.high(), id.low()), expr) {
                fails.push(Fail { sig: format!("collision:{prev}|{expr}"),
                    desc: format!("two different types have the same STABLE_TYPE_ID {}: {prev} and {expr}", idhex(*id)),
                    case: format!("{prev} | {expr}") });
            }
            if by_expr.insert(expr, *id).is_some() {
                fails.push(Fail { sig: "generator-duplicate".into(), desc: format!("universe lists {expr} twice"), case: expr.to_string() });
            }
            // nesting depth = max number of unclosed parentheses + 1
            let (mut d, mut m) = (0usize, 0usize);
            for t in expr.split(' ') { if t == "(" { d += 1; m = m.max(d) } else if t == ")" { d -= 1 } }
            *depth_hist.entry(m + 1).or_default() += 1;
            if i % 1200 == 7 && samples.len() < 6 { samples.push(format!("{expr} -> {}", idhex(*id))); }
        }
        out.line(&format!("U {} unit", UNIVERSE.len()), "out-of-range");
        for (fam, n) in FAMILIES { dist.insert(format!("family_{fam}"), *n as u64); }
        for (d, n) in &depth_hist { dist.insert(format!("depth_{d}"), *n); }

        // ---- 2. the pair families
        let mut pair_n: HashMap<&str, u64> = HashMap::new();
        for (fam, x, y) in PAIRS {
            *pair_n.entry(fam).or_default() += 1;
            match (by_expr.get(x), by_expr.get(y)) {
                (Some(i), Some(j)) => if i == j {
                    fails.push(Fail { sig: format!("{fam}-collision:{x}|{y}"),
                        desc: format!("{fam} family: {x} and {y} have the same STABLE_TYPE_ID {}", idhex(*i)), case: format!("{x} | {y}") });
                },
                _ => fails.push(Fail { sig: "generator-pair-not-in-universe".into(), desc: format!("{fam}: {x} / {y}"), case: format!("{x} | {y}") }),
            }
        }
        for (f, n) in pair_n { dist.insert(format!("pairs_{f}"), n); }

        // ---- 3. hand-written spot checks that do not go through the generator at all
        //         (composition rules spelled out with the public API)
        let n = |s: &'static str| StableTypeID::from_unique_type_name(s);
        let spot: Vec<(&str, StableTypeID, StableTypeID)> = vec![
            ("u8", <u8 as Identifiable>::STABLE_TYPE_ID, n("u8")),
            ("Vec<u8>", <Vec<u8> as Identifiable>::STABLE_TYPE_ID, n("std::vec::Vec").combine(n("u8"))),
            ("(u8,String)", <(u8, String) as Identifiable>::STABLE_TYPE_ID,
                n("std::tuple::Tuple").combine(n("u8")).combine(n("alloc::string::String"))),
            ("[u8;3]", <[u8; 3] as Identifiable>::STABLE_TYPE_ID,
                n("core::primitive::array").combine(n("u8")).combine(unsafe { StableTypeID::from_raw_parts(3, 0) })),
            ("m1::Plain", <m1::Plain as Identifiable>::STABLE_TYPE_ID,
                n(concat!(env!("CARGO_PKG_NAME"), "@", env!("CARGO_PKG_VERSION"), "::typeid::m1::Plain"))),
            ("m1::Pair<u8,u16>", <m1::Pair<u8, u16> as Identifiable>::STABLE_TYPE_ID,
                n("u16").combine(n("u8").combine(n(concat!(env!("CARGO_PKG_NAME"), "@", env!("CARGO_PKG_VERSION"), "::typeid::m1::Pair"))))),
        ];
        for (what, konst, runtime) in spot {
            dist.entry("spot_checks".into()).and_modify(|x| *x += 1).or_insert(1);
            if konst != runtime {
                // not a property violation by itself (the composition rule may legitimately change);
                // recorded so that a reader sees it.
                dist.entry("spot_check_rule_changed".into()).and_modify(|x| *x += 1).or_insert(1);
                samples.push(format!("spot-check {what}: const {} != hand-spelled {}", idhex(konst), idhex(runtime)));
            }
        }

        // ---- 4. query ids of the harness programs
        let nk: u64 = if quick { 64 } else { 1024 };
        let mut seen: HashMap<(u128, u128), String> = HashMap::new();
        for k in 0..nk {
            let key = if k < 8 { k } else { rng.next() };
            qid_line("derive:q::KeyA", &q::KeyA(key), &mut out, &mut seen, &mut fails, format!("q::KeyA({key})"));
            qid_line("derive:q::KeyB", &q::KeyB(key), &mut out, &mut seen, &mut fails, format!("q::KeyB({key})"));
            qid_line("derive:q::sub::KeyA", &q::sub::KeyA(key), &mut out, &mut seen, &mut fails, format!("q::sub::KeyA({key})"));
            qid_line("( derive:q::KeyG u8 )", &q::KeyG::<u8>(key, std::marker::PhantomData), &mut out, &mut seen, &mut fails, format!("q::KeyG<u8>({key})"));
            qid_line("( derive:q::KeyG u16 )", &q::KeyG::<u16>(key, std::marker::PhantomData), &mut out, &mut seen, &mut fails, format!("q::KeyG<u16>({key})"));
            if k == 3 { samples.push(format!("QueryID q::KeyG<u8>({key}) hash128={:032x}", hash128(&q::KeyG::<u8>(key, std::marker::PhantomData)))); }
        }
        dist.insert("query_ids".into(), seen.len() as u64);
        // identical key content, different type: the hashes agree, only the type id separates them
        let same = hash128(&q::KeyG::<u8>(5, std::marker::PhantomData)) == hash128(&q::KeyG::<u16>(5, std::marker::PhantomData));
        dist.insert("keyG_u8_u16_same_hash128".into(), same as u64);

        // ---- 5. engine-visible aliasing
        //      (a panic inside the engine — e.g. two query types sharing one executor slot — is an
        //      engine-visible consequence of aliased identities and is reported as such)
        let mut efails: Vec<Fail> = vec![];
        let mut erng = Rng::new(a.seed ^ 0x5151);
        let r = std::panic::catch_unwind(std::panic::AssertUnwindSafe(|| eng::run(if quick { 40 } else { 400 }, &mut erng, &mut efails)));
        match r {
            Ok(made) => { dist.insert("engine_queries".into(), made); }
            Err(e) => {
                let msg = e.downcast_ref::<String>().cloned().or_else(|| e.downcast_ref::<&str>().map(|s| s.to_string())).unwrap_or_default();
                efails.push(Fail { sig: "engine-alias-panic".into(),
                    desc: format!("engine panicked while serving five query types with identical key content: {}", msg.chars().take(200).collect::<String>()),
                    case: "types=KeyA,KeyB,sub::KeyA,KeyG<u8>,KeyG<u16> keys=0..".into() });
            }
        }
        fails.append(&mut efails);
    }

    // ---- 6. run-time hashing on seeded random inputs (function correspondence)
    let n_rand: u64 = a.n.unwrap_or(if quick { 3000 } else { 60000 });
    let alphabet: Vec<char> = "abcdefghijklmnopqrstuvwxyzABCDEFGHIJKLMNOPQRSTUVWXYZ0123456789_:@<>., é∀".chars().collect();
    let mut len_hist: HashMap<u64, u64> = HashMap::new();
    for i in 0..n_rand {
        let len = match rng.below(10) { 0 => rng.below(4), 1 => 7 + rng.below(3), 2 => 15 + rng.below(3), 3 => 64 + rng.below(40), _ => rng.below(48) };
        let s: String = (0..len).map(|_| *rng.pick(&alphabet)).collect();
        let leaked: &'static str = Box::leak(s.clone().into_boxed_str());
        let id = StableTypeID::from_unique_type_name(leaked);
        out.line(&format!("N {}", hex(leaked.as_bytes())), &idhex(id));
        *len_hist.entry((leaked.len() as u64 / 8).min(8)).or_default() += 1;
        if i == 5 { samples.push(format!("from_unique_type_name({leaked:?}) -> {}", idhex(id))); }
    }
    for (b, n) in len_hist { dist.insert(format!("name_len_chunks_{b}"), n); }
    let special: [u64; 6] = [0, 1, u64::MAX, 0x8000_0000_0000_0000, 0xffff_ffff, 0x1_0000_0000];
    for i in 0..n_rand {
        let mut v = [0u64; 4];
        for x in v.iter_mut() { *x = if rng.chance(1, 6) { *rng.pick(&special) } else { rng.next() }; }
        if i == 0 {   // the colliding operand pairs of theorem combine_not_injective
            v = [18424055224535541142, 3851355670350039039, 10236775686716385350, 3771690488061547673];
        }
        if i == 1 { v = [4855776943184452445, 2330864439022064824, 4125447173078064746, 16194029040368718299]; }
        let (x, y) = unsafe { (StableTypeID::from_raw_parts(v[0], v[1]), StableTypeID::from_raw_parts(v[2], v[3])) };
        let id = x.combine(y);
        out.line(&format!("C {:016x} {:016x} {:016x} {:016x}", v[0], v[1], v[2], v[3]), &idhex(id));
        if i == 1 { samples.push(format!("combine(raw({:x},{:x}), raw({:x},{:x})) -> {}", v[0], v[1], v[2], v[3], idhex(id))); }
    }
    dist.insert("random_names".into(), n_rand);
    dist.insert("random_combines".into(), n_rand);
    // malformed lines for the driver
    out.line("T ( Vec", "err:parse");
    out.line("T ( Vec u8 u8 )", "err:type");
    out.line("T nosuchtype", "err:parse");
    out.line("Z 1 2", "bad-op");
    out.line("N zz", "bad-op");

    // ---- report (engine / query-id failures first: the list is cut at 50)
    fails.sort_by_key(|f| f.sig.starts_with("collision:") as u8);
    let evaluations = out.lines;
    let distinct = by_id.len() as u64 + 2 * n_rand;
    let mut dk: Vec<_> = dist.into_iter().collect();
    dk.sort();
    let report = format!(
        "{{\"evaluations\":{evaluations},\"distinct_nontrivial\":{distinct},\"universe\":{},\
\"rule\":{},\"samples\":[{}],\"distribution\":{{{}}},\"oracle_failures\":[{}]}}",
        UNIVERSE.len(),
        jstr("every type of the generated universe (exhaustive, listed once each; distinct = distinct ids seen) plus seeded random name strings and raw combine operands; non-trivial = a universe type (every one has at least one name hash) or a random input (all count)"),
        samples.iter().map(|s| jstr(s)).collect::<Vec<_>>().join(","),
        dk.iter().map(|(k, v)| format!("{}:{}", jstr(k), v)).collect::<Vec<_>>().join(","),
        fails.iter().take(50).map(|f| format!("{{\"sig\":{},\"desc\":{},\"case\":{}}}", jstr(&f.sig), jstr(&f.desc), jstr(&f.case))).collect::<Vec<_>>().join(","));
    out.finish(&report);
}
