//! probe: is the depth-first cycle semantics (oracle) independent of the order of roots?
use qbice_verif_harness::{eng::*, *};
fn main() {
    let mut rng = Rng::new(5);
    let (mut n, mut dep) = (0u64, 0u64);
    for i in 0..200000u64 {
        let cfg = GenCfg { max_keys: if i % 2 == 0 { 5 } else { 8 }, max_ops: 4, firewalls: true, externals: false, unordered: false, cycles: true };
        let p = gen_program(&mut rng, &cfg);
        let mut t = Truth::default();
        for k in 0..p.nodes.len() as u32 { if p.kind(k) == Kind::Input { t.inputs.insert(k, rng.below(4) as i64); } }
        let keys: Vec<u32> = (0..p.nodes.len() as u32).collect();
        let eval_all = |order: &[u32]| -> Vec<i64> { let mut sc = Scratch::new(&p, &t); for k in order { sc.value(*k).unwrap(); } keys.iter().map(|k| sc.value(*k).unwrap()).collect() };
        let base = eval_all(&keys);
        n += 1;
        let mut differs = false;
        for _ in 0..6 { let mut o = keys.clone(); rng.shuffle(&mut o); if eval_all(&o) != base { differs = true; if dep < 3 { println!("ORDER-DEPENDENT\n{}order {:?} -> {:?} vs {:?}", Case { program: p.clone(), ops: vec![] }.render(), o, eval_all(&o), base); } break; } }
        if differs { dep += 1; }
    }
    println!("programs {n} order-dependent {dep}");
}
