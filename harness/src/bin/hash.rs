//! C13 — stable hashes are deterministic, history-free and discriminating.
//!
//! Runs the REAL `qbice_stable_hash` impls on generated values of ~150 static types:
//!  * `ops.txt`  : `H <seed> <type tokens> | <value tokens>`  /  `SIP <hex>`
//!  * `impl.txt` : `<hex write stream recorded by an instrumented StableHasher> <real Sip128Hasher hash>`
//!  * oracle (independent of the Lean model): see `run_type`.
//! `--child` : generation + hashing only (no oracle); the parent compares the child's impl.txt with its own
//!             (separate process: other ASLR layout, other `RandomState` keys).
#![allow(clippy::all, dead_code, unused_imports, unused_variables, unused_mut)]
use std::borrow::Cow;
use std::collections::{BTreeMap, BTreeSet, BinaryHeap, HashMap, HashSet, LinkedList, VecDeque};
use std::hash::{BuildHasher, Hash, Hasher};
use std::rc::Rc;
use std::sync::Arc;

use qbice_serialize::{Decode, Encode, Plugin};
use qbice_stable_hash::{BuildStableHasher, SeededStableHasherBuilder, Sip128Hasher, StableHash, StableHasher};
use qbice_verif_harness::{args, hex, jstr, Out, Rng};
use siphasher::sip128::Hasher128;

// ------------------------------------------------------------------------------------------------
// hashers

fn sip_oneshot(bytes: &[u8]) -> u128 {
    let mut h = Sip128Hasher::new();
    Hasher::write(&mut h, bytes);
    h.finish128().into()
}

/// Instrumented hasher: records the write stream.  All `write_*` are the trait's provided methods
/// (the code under test); `sub_hash` = copy of the state (here: of the bytes absorbed so far).
#[derive(Default, Clone)]
struct Rec {
    bytes: Vec<u8>,
}
impl StableHasher for Rec {
    type Hash = u128;
    fn finish(&self) -> u128 { sip_oneshot(&self.bytes) }
    fn write(&mut self, b: &[u8]) { self.bytes.extend_from_slice(b); }
    fn sub_hash(&self, f: &mut dyn FnMut(&mut dyn StableHasher<Hash = u128>)) -> u128 {
        let mut sub = Rec { bytes: self.bytes.clone() };
        f(&mut sub);
        sip_oneshot(&sub.bytes)
    }
}

trait DynSH {
    fn feed(&self, h: &mut dyn StableHasher<Hash = u128>);
}
impl<T: StableHash + ?Sized> DynSH for T {
    fn feed(&self, h: &mut dyn StableHasher<Hash = u128>) { self.stable_hash(h) }
}

fn real_hash<T: StableHash + ?Sized>(seed: u64, v: &T) -> u128 {
    let mut h = SeededStableHasherBuilder::<Sip128Hasher>::new(seed).build_stable_hasher();
    v.stable_hash(&mut h);
    StableHasher::finish(&h)
}
/// (stream written by the value after the seed, hash the recorder computes from all bytes)
fn rec_hash<T: StableHash + ?Sized>(seed: u64, v: &T) -> (Vec<u8>, u128) {
    let mut h = SeededStableHasherBuilder::<Rec>::new(seed).build_stable_hasher();
    let skip = h.bytes.len();
    v.stable_hash(&mut h);
    let f = StableHasher::finish(&h);
    (h.bytes[skip..].to_vec(), f)
}

// ------------------------------------------------------------------------------------------------
// BuildHashers with run-time state

#[derive(Clone, Debug)]
pub struct VB {
    kind: u8,
    k0: u64,
    k1: u64,
}
impl Default for VB {
    fn default() -> Self { VB { kind: 0, k0: 0, k1: 0 } }
}
pub enum VH {
    Sip(siphasher::sip::SipHasher13),
    Fx(fxhash::FxHasher),
    Bad(u64),
}
impl Hasher for VH {
    fn finish(&self) -> u64 {
        match self {
            VH::Sip(h) => h.finish(),
            VH::Fx(h) => h.finish(),
            VH::Bad(x) => (*x & 3) | ((*x & 1) << 60),
        }
    }
    fn write(&mut self, b: &[u8]) {
        match self {
            VH::Sip(h) => h.write(b),
            VH::Fx(h) => h.write(b),
            VH::Bad(x) => {
                for y in b {
                    *x = x.wrapping_add(*y as u64);
                }
            }
        }
    }
}
impl BuildHasher for VB {
    type Hasher = VH;
    fn build_hasher(&self) -> VH {
        match self.kind % 3 {
            0 => VH::Sip(siphasher::sip::SipHasher13::new_with_keys(self.k0, self.k1)),
            1 => VH::Fx(fxhash::FxHasher::default()),
            _ => VH::Bad(self.k0 & 0xff),
        }
    }
}
pub trait FreshBuild: BuildHasher + Default + Clone + 'static {
    fn fresh(r: &mut Rng) -> Self;
}
impl FreshBuild for VB {
    fn fresh(r: &mut Rng) -> Self { VB { kind: r.below(3) as u8, k0: r.next(), k1: r.next() } }
}
impl FreshBuild for std::collections::hash_map::RandomState {
    fn fresh(_r: &mut Rng) -> Self { std::collections::hash_map::RandomState::new() }
}
impl FreshBuild for fxhash::FxBuildHasher {
    fn fresh(_r: &mut Rng) -> Self { Default::default() }
}
type RS = std::collections::hash_map::RandomState;
type FX = fxhash::FxBuildHasher;

// ------------------------------------------------------------------------------------------------
// the type universe

/// `d` = remaining nesting budget (controls collection sizes).
pub trait Case: StableHash + Sized + 'static {
    fn ty() -> String;
    fn make(r: &mut Rng, d: u32) -> Self;
    /// value tokens for the Lean driver (unordered collections in *this instance's* iteration order)
    fn val(&self) -> String;
    /// canonical text of the value: unordered collections sorted, NaNs identified
    fn canon(&self) -> String;
    /// the same value through another construction history
    fn rebuild(&self, r: &mut Rng) -> Self;
}

fn small_len(r: &mut Rng, d: u32) -> usize {
    match d {
        0 => r.below(2) as usize,
        1 => r.below(3) as usize,
        2 => r.below(4) as usize,
        _ => {
            if r.chance(1, 12) { r.range(4, 20) as usize } else { r.below(4) as usize }
        }
    }
}

macro_rules! int_case {
    ($t:ty, $name:expr) => {
        impl Case for $t {
            fn ty() -> String { $name.into() }
            fn make(r: &mut Rng, _d: u32) -> Self {
                let bits = <$t>::BITS;
                match r.below(10) {
                    0..=3 => r.below(4) as $t,
                    4 => <$t>::MIN,
                    5 => <$t>::MAX,
                    6 => (0 as $t).wrapping_sub(r.range(1, 3) as $t),
                    7 => {
                        let k = r.below(bits as u64) as u32;
                        let b = (1 as $t).wrapping_shl(k);
                        match r.below(3) { 0 => b.wrapping_sub(1), 1 => b, _ => b.wrapping_add(1) }
                    }
                    _ => (((r.next() as u128) << 64) | r.next() as u128) as $t,
                }
            }
            fn val(&self) -> String { format!("i{}", self) }
            fn canon(&self) -> String { self.val() }
            fn rebuild(&self, _r: &mut Rng) -> Self { *self }
        }
    };
}
int_case!(u8, "u8");
int_case!(u16, "u16");
int_case!(u32, "u32");
int_case!(u64, "u64");
int_case!(u128, "u128");
int_case!(usize, "usize");
int_case!(i8, "i8");
int_case!(i16, "i16");
int_case!(i32, "i32");
int_case!(i64, "i64");
int_case!(i128, "i128");
int_case!(isize, "isize");

impl Case for bool {
    fn ty() -> String { "bool".into() }
    fn make(r: &mut Rng, _d: u32) -> Self { r.chance(1, 2) }
    fn val(&self) -> String { if *self { "b1".into() } else { "b0".into() } }
    fn canon(&self) -> String { self.val() }
    fn rebuild(&self, _r: &mut Rng) -> Self { *self }
}
fn gen_char(r: &mut Rng) -> char {
    const B: [u32; 12] = [0, 0x41, 0x7f, 0x80, 0x7ff, 0x800, 0xd7ff, 0xe000, 0xffff, 0x10000, 0x10ffff, 0x61];
    match r.below(4) {
        0 => char::from_u32(*r.pick(&B)).unwrap(),
        1 => char::from_u32(0x61 + r.below(3) as u32).unwrap(),
        _ => loop {
            if let Some(c) = char::from_u32(r.below(0x110000) as u32) { break c; }
        },
    }
}
impl Case for char {
    fn ty() -> String { "char".into() }
    fn make(r: &mut Rng, _d: u32) -> Self { gen_char(r) }
    fn val(&self) -> String { format!("c{}", *self as u32) }
    fn canon(&self) -> String { self.val() }
    fn rebuild(&self, _r: &mut Rng) -> Self { *self }
}
impl Case for f32 {
    fn ty() -> String { "f32".into() }
    fn make(r: &mut Rng, _d: u32) -> Self {
        const B: [u32; 14] = [0, 0x8000_0000, 0x7f80_0000, 0xff80_0000, 0x7fc0_0000, 0xffc0_0000, 0x7fc0_0001, 0x7f80_0001,
            0xff80_0001, 0x7fff_ffff, 0xffff_ffff, 1, 0x3f80_0000, 0x007f_ffff];
        f32::from_bits(if r.chance(1, 2) { *r.pick(&B) } else if r.chance(1, 4) { 0x7f80_0000 | r.next() as u32 } else { r.next() as u32 })
    }
    fn val(&self) -> String { format!("f{}", self.to_bits()) }
    fn canon(&self) -> String { if self.is_nan() { "fNaN".into() } else { self.val() } }
    fn rebuild(&self, _r: &mut Rng) -> Self { *self }
}
impl Case for f64 {
    fn ty() -> String { "f64".into() }
    fn make(r: &mut Rng, _d: u32) -> Self {
        const B: [u64; 12] = [0, 1 << 63, 0x7ff0 << 48, 0xfff0 << 48, 0x7ff8 << 48, 0xfff8 << 48, (0x7ff8 << 48) | 1, (0x7ff0 << 48) | 1,
            u64::MAX, 1, 0x3ff0 << 48, (0xfff0 << 48) | 5];
        f64::from_bits(if r.chance(1, 2) { *r.pick(&B) } else if r.chance(1, 4) { (0x7ff0 << 48) | r.next() } else { r.next() })
    }
    fn val(&self) -> String { format!("d{}", self.to_bits()) }
    fn canon(&self) -> String { if self.is_nan() { "dNaN".into() } else { self.val() } }
    fn rebuild(&self, _r: &mut Rng) -> Self { *self }
}
impl Case for () {
    fn ty() -> String { "unit".into() }
    fn make(_r: &mut Rng, _d: u32) -> Self {}
    fn val(&self) -> String { "u".into() }
    fn canon(&self) -> String { "u".into() }
    fn rebuild(&self, _r: &mut Rng) -> Self {}
}
impl<T: 'static> Case for std::marker::PhantomData<T> {
    fn ty() -> String { "unit".into() }
    fn make(_r: &mut Rng, _d: u32) -> Self { std::marker::PhantomData }
    fn val(&self) -> String { "u".into() }
    fn canon(&self) -> String { "u".into() }
    fn rebuild(&self, _r: &mut Rng) -> Self { std::marker::PhantomData }
}
impl Case for std::ops::RangeFull {
    fn ty() -> String { "unit".into() }
    fn make(_r: &mut Rng, _d: u32) -> Self { .. }
    fn val(&self) -> String { "u".into() }
    fn canon(&self) -> String { "u".into() }
    fn rebuild(&self, _r: &mut Rng) -> Self { .. }
}

fn gen_string(r: &mut Rng, d: u32) -> String {
    let n = if d >= 3 && r.chance(1, 60) {
        *r.pick(&[255usize, 256, 257, 65535, 65536, 70000])
    } else if r.chance(1, 10) { r.range(4, 40) as usize } else { r.below(4) as usize };
    let mut s = String::new();
    let narrow = r.chance(2, 3);
    for _ in 0..n {
        s.push(if narrow { char::from_u32(0x61 + r.below(2) as u32).unwrap() } else if r.chance(1, 8) { '\0' } else { gen_char(r) });
    }
    s
}
impl Case for String {
    fn ty() -> String { "str".into() }
    fn make(r: &mut Rng, d: u32) -> Self { gen_string(r, d) }
    fn val(&self) -> String { format!("s{}", hex(self.as_bytes())) }
    fn canon(&self) -> String { self.val() }
    fn rebuild(&self, r: &mut Rng) -> Self {
        let mut s = String::with_capacity(self.len() + r.below(64) as usize);
        for c in self.chars() { s.push(c); }
        if r.chance(1, 2) { s.push('x'); s.pop(); }
        if r.chance(1, 3) { s.shrink_to_fit(); }
        s
    }
}
impl Case for Box<str> {
    fn ty() -> String { "wrap str".into() }
    fn make(r: &mut Rng, d: u32) -> Self { gen_string(r, d).into_boxed_str() }
    fn val(&self) -> String { format!("W s{}", hex(self.as_bytes())) }
    fn canon(&self) -> String { self.val() }
    fn rebuild(&self, _r: &mut Rng) -> Self { self.to_string().into_boxed_str() }
}
impl Case for Arc<str> {
    fn ty() -> String { "wrap str".into() }
    fn make(r: &mut Rng, d: u32) -> Self { Arc::from(gen_string(r, d)) }
    fn val(&self) -> String { format!("W s{}", hex(self.as_bytes())) }
    fn canon(&self) -> String { self.val() }
    fn rebuild(&self, r: &mut Rng) -> Self { if r.chance(1, 2) { self.clone() } else { Arc::from(self.to_string()) } }
}
impl Case for std::ffi::CString {
    fn ty() -> String { "str".into() }
    fn make(r: &mut Rng, d: u32) -> Self {
        let s: Vec<u8> = gen_string(r, d).into_bytes().into_iter().filter(|b| *b != 0).collect();
        std::ffi::CString::new(s).unwrap()
    }
    fn val(&self) -> String { format!("s{}", hex(self.to_bytes())) }
    fn canon(&self) -> String { self.val() }
    fn rebuild(&self, _r: &mut Rng) -> Self { std::ffi::CString::new(self.to_bytes().to_vec()).unwrap() }
}
fn bytes_val(b: &[u8]) -> String {
    let mut s = format!("L {}", b.len());
    for x in b { s.push_str(&format!(" i{}", x)); }
    s
}
impl Case for std::path::PathBuf {
    fn ty() -> String { "seq u8".into() }
    fn make(r: &mut Rng, d: u32) -> Self {
        let s: String = gen_string(r, d.min(2)).chars().filter(|c| *c != '\0').collect();
        std::path::PathBuf::from(if r.chance(1, 2) { format!("/{}/{}", s, r.below(3)) } else { s })
    }
    fn val(&self) -> String { bytes_val(self.as_os_str().as_encoded_bytes()) }
    fn canon(&self) -> String { self.val() }
    fn rebuild(&self, _r: &mut Rng) -> Self { std::path::PathBuf::from(self.as_os_str().to_os_string()) }
}
impl Case for std::ffi::OsString {
    fn ty() -> String { "seq u8".into() }
    fn make(r: &mut Rng, d: u32) -> Self {
        use std::os::unix::ffi::OsStringExt;
        let n = small_len(r, d);
        std::ffi::OsString::from_vec((0..n).map(|_| if r.chance(1, 2) { r.below(3) as u8 } else { r.next() as u8 }).collect())
    }
    fn val(&self) -> String { bytes_val(self.as_encoded_bytes()) }
    fn canon(&self) -> String { self.val() }
    fn rebuild(&self, _r: &mut Rng) -> Self { self.as_os_str().to_os_string() }
}
impl Case for std::time::Duration {
    fn ty() -> String { "tup 2 u64 u32".into() }
    fn make(r: &mut Rng, d: u32) -> Self {
        std::time::Duration::new(u64::make(r, d) / 2, match r.below(3) { 0 => 0, 1 => 999_999_999, _ => r.below(1_000_000_000) as u32 })
    }
    fn val(&self) -> String { format!("T 2 i{} i{}", self.as_secs(), self.subsec_nanos()) }
    fn canon(&self) -> String { self.val() }
    fn rebuild(&self, r: &mut Rng) -> Self {
        if r.chance(1, 2) { *self } else { std::time::Duration::from_secs(self.as_secs()) + std::time::Duration::from_nanos(self.subsec_nanos() as u64) }
    }
}

macro_rules! nonzero_case {
    ($nz:ty, $inner:ty, $name:expr) => {
        impl Case for $nz {
            fn ty() -> String { format!("wrap {}", $name) }
            fn make(r: &mut Rng, d: u32) -> Self { loop { if let Some(x) = <$nz>::new(<$inner>::make(r, d)) { break x; } } }
            fn val(&self) -> String { format!("W i{}", self.get()) }
            fn canon(&self) -> String { self.val() }
            fn rebuild(&self, _r: &mut Rng) -> Self { *self }
        }
    };
}
nonzero_case!(std::num::NonZeroU8, u8, "u8");
nonzero_case!(std::num::NonZeroU16, u16, "u16");
nonzero_case!(std::num::NonZeroU32, u32, "u32");
nonzero_case!(std::num::NonZeroU64, u64, "u64");
nonzero_case!(std::num::NonZeroU128, u128, "u128");
nonzero_case!(std::num::NonZeroUsize, usize, "usize");
nonzero_case!(std::num::NonZeroI8, i8, "i8");
nonzero_case!(std::num::NonZeroI16, i16, "i16");
nonzero_case!(std::num::NonZeroI32, i32, "i32");
nonzero_case!(std::num::NonZeroI64, i64, "i64");
nonzero_case!(std::num::NonZeroI128, i128, "i128");
nonzero_case!(std::num::NonZeroIsize, isize, "isize");

macro_rules! atomic_case {
    ($at:ty, $inner:ty, $name:expr) => {
        impl Case for $at {
            fn ty() -> String { format!("wrap {}", $name) }
            fn make(r: &mut Rng, d: u32) -> Self { <$at>::new(<$inner>::make(r, d)) }
            fn val(&self) -> String { format!("W {}", self.load(std::sync::atomic::Ordering::Relaxed).val()) }
            fn canon(&self) -> String { self.val() }
            fn rebuild(&self, _r: &mut Rng) -> Self {
                let a = <$at>::new(Default::default());
                a.store(self.load(std::sync::atomic::Ordering::Relaxed), std::sync::atomic::Ordering::SeqCst);
                a
            }
        }
    };
}
atomic_case!(std::sync::atomic::AtomicBool, bool, "bool");
atomic_case!(std::sync::atomic::AtomicU8, u8, "u8");
atomic_case!(std::sync::atomic::AtomicU16, u16, "u16");
atomic_case!(std::sync::atomic::AtomicU32, u32, "u32");
atomic_case!(std::sync::atomic::AtomicU64, u64, "u64");
atomic_case!(std::sync::atomic::AtomicUsize, usize, "usize");
atomic_case!(std::sync::atomic::AtomicI8, i8, "i8");
atomic_case!(std::sync::atomic::AtomicI16, i16, "i16");
atomic_case!(std::sync::atomic::AtomicI32, i32, "i32");
atomic_case!(std::sync::atomic::AtomicI64, i64, "i64");
atomic_case!(std::sync::atomic::AtomicIsize, isize, "isize");


// ------------------------------------------------------------------------------------------------
// generic containers

impl<T: Case> Case for Option<T> {
    fn ty() -> String { format!("opt {}", T::ty()) }
    fn make(r: &mut Rng, d: u32) -> Self { if r.chance(1, 3) { None } else { Some(T::make(r, d)) } }
    fn val(&self) -> String { match self { None => "N".into(), Some(v) => format!("S {}", v.val()) } }
    fn canon(&self) -> String { match self { None => "N".into(), Some(v) => format!("S {}", v.canon()) } }
    fn rebuild(&self, r: &mut Rng) -> Self { self.as_ref().map(|v| v.rebuild(r)) }
}
impl<T: Case, E: Case> Case for Result<T, E> {
    fn ty() -> String { format!("res {} {}", T::ty(), E::ty()) }
    fn make(r: &mut Rng, d: u32) -> Self { if r.chance(1, 2) { Ok(T::make(r, d)) } else { Err(E::make(r, d)) } }
    fn val(&self) -> String { match self { Ok(v) => format!("O {}", v.val()), Err(v) => format!("E {}", v.val()) } }
    fn canon(&self) -> String { match self { Ok(v) => format!("O {}", v.canon()), Err(v) => format!("E {}", v.canon()) } }
    fn rebuild(&self, r: &mut Rng) -> Self { match self { Ok(v) => Ok(v.rebuild(r)), Err(v) => Err(v.rebuild(r)) } }
}
fn list_val<'a, T: Case>(it: impl Iterator<Item = &'a T>, n: usize) -> String {
    let mut s = format!("L {}", n);
    for x in it { s.push(' '); s.push_str(&x.val()); }
    s
}
fn list_canon<'a, T: Case>(it: impl Iterator<Item = &'a T>, n: usize) -> String {
    let mut s = format!("L {}", n);
    for x in it { s.push(' '); s.push_str(&x.canon()); }
    s
}
fn sorted_canon(mut items: Vec<String>) -> String {
    items.sort();
    let mut s = format!("L {}", items.len());
    for x in items { s.push(' '); s.push_str(&x); }
    s
}
impl<T: Case> Case for Vec<T> {
    fn ty() -> String { format!("seq {}", T::ty()) }
    fn make(r: &mut Rng, d: u32) -> Self {
        let n = if d >= 3 && std::mem::size_of::<T>() <= 2 && r.chance(1, 80) { *r.pick(&[255usize, 256, 257, 65536]) } else { small_len(r, d) };
        (0..n).map(|_| T::make(r, d.saturating_sub(1))).collect()
    }
    fn val(&self) -> String { list_val(self.iter(), self.len()) }
    fn canon(&self) -> String { list_canon(self.iter(), self.len()) }
    fn rebuild(&self, r: &mut Rng) -> Self {
        let mut v = Vec::with_capacity(self.len() + r.below(32) as usize);
        for x in self { v.push(x.rebuild(r)); }
        if r.chance(1, 3) { v.shrink_to_fit(); }
        v
    }
}
impl<T: Case> Case for Box<[T]> {
    fn ty() -> String { format!("wrap seq {}", T::ty()) }
    fn make(r: &mut Rng, d: u32) -> Self { Vec::<T>::make(r, d).into_boxed_slice() }
    fn val(&self) -> String { format!("W {}", list_val(self.iter(), self.len())) }
    fn canon(&self) -> String { format!("W {}", list_canon(self.iter(), self.len())) }
    fn rebuild(&self, r: &mut Rng) -> Self { self.iter().map(|x| x.rebuild(r)).collect::<Vec<_>>().into_boxed_slice() }
}
impl<T: Case> Case for VecDeque<T> {
    fn ty() -> String { format!("seq {}", T::ty()) }
    fn make(r: &mut Rng, d: u32) -> Self { Vec::<T>::make(r, d).into() }
    fn val(&self) -> String { list_val(self.iter(), self.len()) }
    fn canon(&self) -> String { list_canon(self.iter(), self.len()) }
    fn rebuild(&self, r: &mut Rng) -> Self {
        // move the ring buffer head: build by push_front of a prefix (reversed) and push_back of the rest
        let items: Vec<T> = self.iter().map(|x| x.rebuild(r)).collect();
        let cut = r.below(items.len() as u64 + 1) as usize;
        let mut dq = VecDeque::with_capacity(items.len() + r.below(8) as usize);
        let mut front = vec![];
        for (i, x) in items.into_iter().enumerate() { if i < cut { front.push(x) } else { dq.push_back(x) } }
        for x in front.into_iter().rev() { dq.push_front(x); }
        dq
    }
}
impl<T: Case> Case for LinkedList<T> {
    fn ty() -> String { format!("seq {}", T::ty()) }
    fn make(r: &mut Rng, d: u32) -> Self { Vec::<T>::make(r, d).into_iter().collect() }
    fn val(&self) -> String { list_val(self.iter(), self.len()) }
    fn canon(&self) -> String { list_canon(self.iter(), self.len()) }
    fn rebuild(&self, r: &mut Rng) -> Self {
        let mut l = LinkedList::new();
        for x in self.iter().rev() { l.push_front(x.rebuild(r)); }
        l
    }
}
impl<T: Case, const N: usize> Case for [T; N] {
    fn ty() -> String { format!("arr {} {}", N, T::ty()) }
    fn make(r: &mut Rng, d: u32) -> Self { std::array::from_fn(|_| T::make(r, d.saturating_sub(1))) }
    fn val(&self) -> String { list_val(self.iter(), N) }
    fn canon(&self) -> String { list_canon(self.iter(), N) }
    fn rebuild(&self, r: &mut Rng) -> Self { std::array::from_fn(|i| self[i].rebuild(r)) }
}
impl<T: Case + Ord> Case for BTreeSet<T> {
    fn ty() -> String { format!("seq {}", T::ty()) }
    fn make(r: &mut Rng, d: u32) -> Self { Vec::<T>::make(r, d).into_iter().collect() }
    fn val(&self) -> String { list_val(self.iter(), self.len()) }
    fn canon(&self) -> String { list_canon(self.iter(), self.len()) }
    fn rebuild(&self, r: &mut Rng) -> Self {
        let mut items: Vec<T> = self.iter().map(|x| x.rebuild(r)).collect();
        r.shuffle(&mut items);
        let mut s = BTreeSet::new();
        for x in items { s.insert(x); }
        s
    }
}
impl<K: Case + Ord, V: Case> Case for BTreeMap<K, V> {
    fn ty() -> String { format!("seq tup 2 {} {}", K::ty(), V::ty()) }
    fn make(r: &mut Rng, d: u32) -> Self {
        let n = small_len(r, d);
        (0..n).map(|_| (K::make(r, d.saturating_sub(1)), V::make(r, d.saturating_sub(1)))).collect()
    }
    fn val(&self) -> String {
        let mut s = format!("L {}", self.len());
        for (k, v) in self { s.push_str(&format!(" T 2 {} {}", k.val(), v.val())); }
        s
    }
    fn canon(&self) -> String {
        let mut s = format!("L {}", self.len());
        for (k, v) in self { s.push_str(&format!(" T 2 {} {}", k.canon(), v.canon())); }
        s
    }
    fn rebuild(&self, r: &mut Rng) -> Self {
        let mut items: Vec<(K, V)> = self.iter().map(|(k, v)| (k.rebuild(r), v.rebuild(r))).collect();
        r.shuffle(&mut items);
        let mut m = BTreeMap::new();
        for (k, v) in items { m.insert(k, v); }
        m
    }
}

macro_rules! tuple_case {
    ($n:expr; $($name:ident $idx:tt),+) => {
        impl<$($name: Case),+> Case for ($($name,)+) {
            fn ty() -> String { let mut s = format!("tup {}", $n); $( s.push(' '); s.push_str(&$name::ty()); )+ s }
            fn make(r: &mut Rng, d: u32) -> Self { ($($name::make(r, d),)+) }
            fn val(&self) -> String { let mut s = format!("T {}", $n); $( s.push(' '); s.push_str(&self.$idx.val()); )+ s }
            fn canon(&self) -> String { let mut s = format!("T {}", $n); $( s.push(' '); s.push_str(&self.$idx.canon()); )+ s }
            fn rebuild(&self, r: &mut Rng) -> Self { ($(self.$idx.rebuild(r),)+) }
        }
    };
}
tuple_case!(1; A 0);
tuple_case!(2; A 0, B 1);
tuple_case!(3; A 0, B 1, C 2);
tuple_case!(4; A 0, B 1, C 2, D 3);
tuple_case!(12; A 0, B 1, C 2, D 3, E 4, F 5, G 6, H 7, I 8, J 9, K 10, L 11);

macro_rules! wrapper_case {
    ($w:ident, $new:expr) => {
        impl<T: Case> Case for $w<T> {
            fn ty() -> String { format!("wrap {}", T::ty()) }
            fn make(r: &mut Rng, d: u32) -> Self { $new(T::make(r, d)) }
            fn val(&self) -> String { format!("W {}", (**self).val()) }
            fn canon(&self) -> String { format!("W {}", (**self).canon()) }
            fn rebuild(&self, r: &mut Rng) -> Self { $new((**self).rebuild(r)) }
        }
    };
}
wrapper_case!(Box, Box::new);
wrapper_case!(Rc, Rc::new);
wrapper_case!(Arc, Arc::new);
impl<T: Case + Clone> Case for Cow<'static, T> {
    fn ty() -> String { format!("wrap {}", T::ty()) }
    fn make(r: &mut Rng, d: u32) -> Self { Cow::Owned(T::make(r, d)) }
    fn val(&self) -> String { format!("W {}", (**self).val()) }
    fn canon(&self) -> String { format!("W {}", (**self).canon()) }
    fn rebuild(&self, r: &mut Rng) -> Self { Cow::Owned((**self).rebuild(r)) }
}

macro_rules! range_case {
    ($ty:ident, $n:expr, |$r:ident, $d:ident| $gen:expr, |$s:ident| [$($f:expr),+], |$a:ident| $mk:expr) => {
        impl<T: Case> Case for std::ops::$ty<T> {
            fn ty() -> String { let mut s = format!("tup {}", $n); for _ in 0..$n { s.push(' '); s.push_str(&T::ty()); } s }
            fn make($r: &mut Rng, $d: u32) -> Self { $gen }
            fn val(&self) -> String { let $s = self; let mut s = format!("T {}", $n); $( s.push(' '); s.push_str(&$f.val()); )+ s }
            fn canon(&self) -> String { let $s = self; let mut s = format!("T {}", $n); $( s.push(' '); s.push_str(&$f.canon()); )+ s }
            fn rebuild(&self, r: &mut Rng) -> Self { let $s = self; let mut $a: Vec<T> = vec![$($f.rebuild(r)),+]; $a.reverse(); $mk }
        }
    };
}
range_case!(Range, 2, |r, d| T::make(r, d)..T::make(r, d), |s| [s.start, s.end], |a| a.pop().unwrap()..a.pop().unwrap());
range_case!(RangeInclusive, 2, |r, d| T::make(r, d)..=T::make(r, d), |s| [s.start(), s.end()], |a| a.pop().unwrap()..=a.pop().unwrap());
range_case!(RangeFrom, 1, |r, d| T::make(r, d).., |s| [s.start], |a| a.pop().unwrap()..);
range_case!(RangeTo, 1, |r, d| ..T::make(r, d), |s| [s.end], |a| ..a.pop().unwrap());
range_case!(RangeToInclusive, 1, |r, d| ..=T::make(r, d), |s| [s.end], |a| ..=a.pop().unwrap());

// ---- hash-ordered collections

fn build_set<T: Case + Eq + Hash, S: FreshBuild>(mut items: Vec<T>, r: &mut Rng) -> HashSet<T, S> {
    r.shuffle(&mut items);
    let s = S::fresh(r);
    let mut out: HashSet<T, S> = match r.below(3) {
        0 => HashSet::with_hasher(s),
        1 => HashSet::with_capacity_and_hasher(r.range(1, 300) as usize, s),
        _ => { let mut h = HashSet::with_hasher(s); h.reserve(r.below(64) as usize); h }
    };
    // junk that is inserted first and removed later (tombstones, different probe history)
    let mut junk = vec![];
    for _ in 0..r.below(4) {
        let j = T::make(r, 1);
        if !items.contains(&j) { junk.push(j); }
    }
    let mut junk2 = vec![];
    for j in junk { let c = j.rebuild(r); if out.insert(j) { junk2.push(c); } }
    let n = items.len();
    let mut again = vec![];
    for x in items {
        if r.chance(1, 4) { again.push(x.rebuild(r)); }
        out.insert(x);
    }
    for j in &junk2 { out.remove(j); }
    for x in again { let y = out.take(&x).unwrap(); out.insert(if r.chance(1, 2) { x } else { y }); }
    if r.chance(1, 4) { out.shrink_to_fit(); }
    assert_eq!(out.len(), n);
    out
}
impl<T: Case + Eq + Hash, S: FreshBuild> Case for HashSet<T, S> {
    fn ty() -> String { format!("uset {}", T::ty()) }
    fn make(r: &mut Rng, d: u32) -> Self {
        let mut s = HashSet::with_hasher(S::fresh(r));
        for x in Vec::<T>::make(r, d) { s.insert(x); }
        s
    }
    fn val(&self) -> String { list_val(self.iter(), self.len()) }
    fn canon(&self) -> String { sorted_canon(self.iter().map(|x| x.canon()).collect()) }
    fn rebuild(&self, r: &mut Rng) -> Self { let items: Vec<T> = self.iter().map(|x| x.rebuild(r)).collect(); build_set(items, r) }
}
impl<K: Case + Eq + Hash, V: Case, S: FreshBuild> Case for HashMap<K, V, S> {
    fn ty() -> String { format!("umap {} {}", K::ty(), V::ty()) }
    fn make(r: &mut Rng, d: u32) -> Self {
        let mut m = HashMap::with_hasher(S::fresh(r));
        for _ in 0..small_len(r, d) { m.insert(K::make(r, d.saturating_sub(1)), V::make(r, d.saturating_sub(1))); }
        m
    }
    fn val(&self) -> String {
        let mut s = format!("L {}", self.len());
        for (k, v) in self { s.push_str(&format!(" T 2 {} {}", k.val(), v.val())); }
        s
    }
    fn canon(&self) -> String { sorted_canon(self.iter().map(|(k, v)| format!("T 2 {} {}", k.canon(), v.canon())).collect()) }
    fn rebuild(&self, r: &mut Rng) -> Self {
        let mut items: Vec<(K, V)> = self.iter().map(|(k, v)| (k.rebuild(r), v.rebuild(r))).collect();
        r.shuffle(&mut items);
        let s = S::fresh(r);
        let mut out: HashMap<K, V, S> = if r.chance(1, 2) { HashMap::with_hasher(s) } else { HashMap::with_capacity_and_hasher(r.range(1, 300) as usize, s) };
        let mut junk = vec![];
        for _ in 0..r.below(4) {
            let j = K::make(r, 1);
            if !self.contains_key(&j) { junk.push(j); }
        }
        let mut junk2 = vec![];
        for j in junk { let c = j.rebuild(r); if out.insert(j, V::make(r, 1)).is_none() { junk2.push(c); } }
        let n = items.len();
        let mut again = vec![];
        for (k, v) in items {
            if r.chance(1, 4) { again.push(k.rebuild(r)); }
            // first insert a different value, then overwrite: value slot history
            if r.chance(1, 4) { out.insert(k.rebuild(r), V::make(r, 1)); }
            out.insert(k, v);
        }
        for j in &junk2 { out.remove(j); }
        for k in again { let (k2, v) = out.remove_entry(&k).unwrap(); out.insert(if r.chance(1, 2) { k } else { k2 }, v); }
        if r.chance(1, 4) { out.shrink_to_fit(); }
        assert_eq!(out.len(), n);
        out
    }
}
impl<T: Case + Ord> Case for BinaryHeap<T> {
    fn ty() -> String { format!("uset {}", T::ty()) }
    fn make(r: &mut Rng, d: u32) -> Self { Vec::<T>::make(r, d).into_iter().collect() }
    fn val(&self) -> String { list_val(self.iter(), self.len()) }
    fn canon(&self) -> String { sorted_canon(self.iter().map(|x| x.canon()).collect()) }
    fn rebuild(&self, r: &mut Rng) -> Self {
        let mut items: Vec<T> = self.iter().map(|x| x.rebuild(r)).collect();
        r.shuffle(&mut items);
        match r.below(3) {
            0 => BinaryHeap::from(items),
            1 => { let mut h = BinaryHeap::with_capacity(items.len() + 5); for x in items { h.push(x); } h }
            _ => {
                let mut h = BinaryHeap::new();
                for x in items { h.push(x); }
                // pop the maximum and push it back: another internal layout
                if let Some(m) = h.pop() { h.push(m); }
                h
            }
        }
    }
}
impl<K: Case + Eq + Hash, V: Case, S: FreshBuild> Case for dashmap::DashMap<K, V, S> {
    fn ty() -> String { format!("umap {} {}", K::ty(), V::ty()) }
    fn make(r: &mut Rng, d: u32) -> Self {
        let m = dashmap::DashMap::with_hasher(S::fresh(r));
        for _ in 0..small_len(r, d) { m.insert(K::make(r, d.saturating_sub(1)), V::make(r, d.saturating_sub(1))); }
        m
    }
    fn val(&self) -> String {
        let mut s = format!("L {}", self.len());
        for e in self.iter() { s.push_str(&format!(" T 2 {} {}", e.key().val(), e.value().val())); }
        s
    }
    fn canon(&self) -> String { sorted_canon(self.iter().map(|e| format!("T 2 {} {}", e.key().canon(), e.value().canon())).collect()) }
    fn rebuild(&self, r: &mut Rng) -> Self {
        let mut items: Vec<(K, V)> = self.iter().map(|e| (e.key().rebuild(r), e.value().rebuild(r))).collect();
        r.shuffle(&mut items);
        let s = S::fresh(r);
        let out = match r.below(3) {
            0 => dashmap::DashMap::with_hasher(s),
            1 => dashmap::DashMap::with_capacity_and_hasher(r.range(1, 100) as usize, s),
            _ => dashmap::DashMap::with_hasher_and_shard_amount(s, 1 << r.range(1, 4)),
        };
        for (k, v) in items { if r.chance(1, 4) { out.insert(k.rebuild(r), V::make(r, 1)); } out.insert(k, v); }
        out
    }
}
impl<T: Case + Eq + Hash, S: FreshBuild> Case for dashmap::DashSet<T, S> {
    fn ty() -> String { format!("uset {}", T::ty()) }
    fn make(r: &mut Rng, d: u32) -> Self {
        let s = dashmap::DashSet::with_hasher(S::fresh(r));
        for x in Vec::<T>::make(r, d) { s.insert(x); }
        s
    }
    fn val(&self) -> String {
        let mut s = format!("L {}", self.len());
        for x in self.iter() { s.push(' '); s.push_str(&x.key().val()); }
        s
    }
    fn canon(&self) -> String { sorted_canon(self.iter().map(|x| x.key().canon()).collect()) }
    fn rebuild(&self, r: &mut Rng) -> Self {
        let mut items: Vec<T> = self.iter().map(|x| x.key().rebuild(r)).collect();
        r.shuffle(&mut items);
        let out = dashmap::DashSet::with_capacity_and_hasher(r.below(50) as usize, S::fresh(r));
        for x in items { out.insert(x); }
        out
    }
}


// ------------------------------------------------------------------------------------------------
// derive(StableHash) structs and enums

macro_rules! derives { ($($i:item)*) => { $(
    #[derive(Debug, Clone, PartialEq, Eq, Hash, PartialOrd, Ord, StableHash, Encode, Decode)]
    #[stable_hash_crate(qbice_stable_hash)]
    #[serialize_crate(qbice_serialize)]
    $i )* } }
derives! {
    pub struct Named { a: u8, b: String, c: Vec<u16> }
    pub struct TupS(String, String);
    pub struct UnitS;
    pub struct GenS<T> { x: T, p: std::marker::PhantomData<T>, y: Option<T> }
    pub enum E1 { A, B(u8), C { x: u16, y: String } }
    #[repr(u8)] pub enum E2 { A = 3, B(u32) = 200, C = 7 }
    #[repr(i8)] pub enum E3 { Neg = -1, Zero = 0, Pos = 1 }
    pub enum E4 { X = 10, Y = 20, Z }
    pub enum GenE<T> { L(T), R(Vec<T>), N }
    pub enum One { Only(u8) }
    #[repr(u16)] pub enum E5 { P = 0x1234, Q(String, String) = 0xffff }
    #[repr(i64)] pub enum E6 { M = -2, K = i64::MAX, Z = 0 }
    pub enum Nest { Leaf(E3), Pair(Box<Nest>, Box<Nest>), Many(Vec<Nest>) }
}

impl Case for Named {
    fn ty() -> String { "tup 3 u8 str seq u16".into() }
    fn make(r: &mut Rng, d: u32) -> Self { Named { a: u8::make(r, d), b: String::make(r, d.min(2)), c: Vec::make(r, d.min(2)) } }
    fn val(&self) -> String { format!("T 3 {} {} {}", self.a.val(), self.b.val(), self.c.val()) }
    fn canon(&self) -> String { self.val() }
    fn rebuild(&self, r: &mut Rng) -> Self { Named { a: self.a, b: self.b.rebuild(r), c: self.c.rebuild(r) } }
}
impl Case for TupS {
    fn ty() -> String { "tup 2 str str".into() }
    fn make(r: &mut Rng, d: u32) -> Self { TupS(String::make(r, d.min(2)), String::make(r, d.min(2))) }
    fn val(&self) -> String { format!("T 2 {} {}", self.0.val(), self.1.val()) }
    fn canon(&self) -> String { self.val() }
    fn rebuild(&self, r: &mut Rng) -> Self { TupS(self.0.rebuild(r), self.1.rebuild(r)) }
}
impl Case for UnitS {
    fn ty() -> String { "tup 0".into() }
    fn make(_r: &mut Rng, _d: u32) -> Self { UnitS }
    fn val(&self) -> String { "T 0".into() }
    fn canon(&self) -> String { self.val() }
    fn rebuild(&self, _r: &mut Rng) -> Self { UnitS }
}
impl<T: Case> Case for GenS<T> {
    fn ty() -> String { format!("tup 3 {} unit opt {}", T::ty(), T::ty()) }
    fn make(r: &mut Rng, d: u32) -> Self { GenS { x: T::make(r, d), p: std::marker::PhantomData, y: Option::make(r, d) } }
    fn val(&self) -> String { format!("T 3 {} u {}", self.x.val(), self.y.val()) }
    fn canon(&self) -> String { format!("T 3 {} u {}", self.x.canon(), self.y.canon()) }
    fn rebuild(&self, r: &mut Rng) -> Self { GenS { x: self.x.rebuild(r), p: std::marker::PhantomData, y: self.y.rebuild(r) } }
}
impl Case for E1 {
    fn ty() -> String { "enum 8 3 0 0 1 1 u8 2 2 u16 str".into() }
    fn make(r: &mut Rng, d: u32) -> Self {
        match r.below(3) { 0 => E1::A, 1 => E1::B(u8::make(r, d)), _ => E1::C { x: u16::make(r, d), y: String::make(r, d.min(2)) } }
    }
    fn val(&self) -> String {
        match self { E1::A => "V 0 0".into(), E1::B(b) => format!("V 1 1 {}", b.val()), E1::C { x, y } => format!("V 2 2 {} {}", x.val(), y.val()) }
    }
    fn canon(&self) -> String { self.val() }
    fn rebuild(&self, r: &mut Rng) -> Self { match self { E1::C { x, y } => E1::C { x: *x, y: y.rebuild(r) }, o => o.clone() } }
}
impl Case for E2 {
    fn ty() -> String { "enum 1 3 3 0 200 1 u32 7 0".into() }
    fn make(r: &mut Rng, d: u32) -> Self { match r.below(3) { 0 => E2::A, 1 => E2::B(u32::make(r, d)), _ => E2::C } }
    fn val(&self) -> String { match self { E2::A => "V 0 0".into(), E2::B(b) => format!("V 1 1 {}", b.val()), E2::C => "V 2 0".into() } }
    fn canon(&self) -> String { self.val() }
    fn rebuild(&self, _r: &mut Rng) -> Self { self.clone() }
}
impl Case for E3 {
    fn ty() -> String { "enum 1 3 255 0 0 0 1 0".into() }
    fn make(r: &mut Rng, _d: u32) -> Self { match r.below(3) { 0 => E3::Neg, 1 => E3::Zero, _ => E3::Pos } }
    fn val(&self) -> String { format!("V {} 0", match self { E3::Neg => 0, E3::Zero => 1, E3::Pos => 2 }) }
    fn canon(&self) -> String { self.val() }
    fn rebuild(&self, _r: &mut Rng) -> Self { self.clone() }
}
impl Case for E4 {
    fn ty() -> String { "enum 8 3 10 0 20 0 21 0".into() }
    fn make(r: &mut Rng, _d: u32) -> Self { match r.below(3) { 0 => E4::X, 1 => E4::Y, _ => E4::Z } }
    fn val(&self) -> String { format!("V {} 0", match self { E4::X => 0, E4::Y => 1, E4::Z => 2 }) }
    fn canon(&self) -> String { self.val() }
    fn rebuild(&self, _r: &mut Rng) -> Self { self.clone() }
}
impl<T: Case> Case for GenE<T> {
    fn ty() -> String { format!("enum 8 3 0 1 {} 1 1 seq {} 2 0", T::ty(), T::ty()) }
    fn make(r: &mut Rng, d: u32) -> Self { match r.below(5) { 0 | 1 => GenE::L(T::make(r, d)), 2 | 3 => GenE::R(Vec::make(r, d.min(2))), _ => GenE::N } }
    fn val(&self) -> String { match self { GenE::L(x) => format!("V 0 1 {}", x.val()), GenE::R(x) => format!("V 1 1 {}", x.val()), GenE::N => "V 2 0".into() } }
    fn canon(&self) -> String { match self { GenE::L(x) => format!("V 0 1 {}", x.canon()), GenE::R(x) => format!("V 1 1 {}", x.canon()), GenE::N => "V 2 0".into() } }
    fn rebuild(&self, r: &mut Rng) -> Self { match self { GenE::L(x) => GenE::L(x.rebuild(r)), GenE::R(x) => GenE::R(x.rebuild(r)), GenE::N => GenE::N } }
}
impl Case for One {
    fn ty() -> String { "enum 8 1 0 1 u8".into() }
    fn make(r: &mut Rng, d: u32) -> Self { One::Only(u8::make(r, d)) }
    fn val(&self) -> String { let One::Only(x) = self; format!("V 0 1 {}", x.val()) }
    fn canon(&self) -> String { self.val() }
    fn rebuild(&self, _r: &mut Rng) -> Self { self.clone() }
}
impl Case for E5 {
    fn ty() -> String { "enum 2 2 4660 0 65535 2 str str".into() }
    fn make(r: &mut Rng, d: u32) -> Self { if r.chance(1, 4) { E5::P } else { E5::Q(String::make(r, d.min(2)), String::make(r, d.min(2))) } }
    fn val(&self) -> String { match self { E5::P => "V 0 0".into(), E5::Q(a, b) => format!("V 1 2 {} {}", a.val(), b.val()) } }
    fn canon(&self) -> String { self.val() }
    fn rebuild(&self, r: &mut Rng) -> Self { match self { E5::P => E5::P, E5::Q(a, b) => E5::Q(a.rebuild(r), b.rebuild(r)) } }
}
impl Case for E6 {
    fn ty() -> String { "enum 8 3 18446744073709551614 0 9223372036854775807 0 0 0".into() }
    fn make(r: &mut Rng, _d: u32) -> Self { match r.below(3) { 0 => E6::M, 1 => E6::K, _ => E6::Z } }
    fn val(&self) -> String { format!("V {} 0", match self { E6::M => 0, E6::K => 1, E6::Z => 2 }) }
    fn canon(&self) -> String { self.val() }
    fn rebuild(&self, _r: &mut Rng) -> Self { self.clone() }
}
// `Nest` is recursive: the model's type language has no recursive types, so it is checked by the oracle
// only (its `ty()` is the marker `-`, which makes `run_type` skip the correspondence line).
impl Case for Nest {
    fn ty() -> String { "-".into() }
    fn make(r: &mut Rng, d: u32) -> Self {
        if d == 0 { return Nest::Leaf(E3::make(r, 0)); }
        match r.below(4) {
            0 => Nest::Leaf(E3::make(r, 0)),
            1 => Nest::Pair(Box::new(Nest::make(r, d - 1)), Box::new(Nest::make(r, d - 1))),
            _ => Nest::Many((0..r.below(3)).map(|_| Nest::make(r, d - 1)).collect()),
        }
    }
    fn val(&self) -> String { format!("{:?}", self).replace(' ', "") }
    fn canon(&self) -> String { self.val() }
    fn rebuild(&self, r: &mut Rng) -> Self {
        match self {
            Nest::Leaf(e) => Nest::Leaf(e.clone()),
            Nest::Pair(a, b) => Nest::Pair(Box::new((**a).rebuild(r)), Box::new((**b).rebuild(r))),
            Nest::Many(v) => Nest::Many(v.rebuild(r)),
        }
    }
}


#[cfg(feature = "extras")]
mod extras {
    use super::*;
    use bitvec::prelude::*;
    use smallvec::SmallVec;
    impl<T: Case, const N: usize> Case for SmallVec<[T; N]> where [T; N]: smallvec::Array<Item = T> {
        fn ty() -> String { format!("seq {}", T::ty()) }
        fn make(r: &mut Rng, d: u32) -> Self { let n = r.below(2 * N as u64 + 2) as usize; (0..n).map(|_| T::make(r, d.saturating_sub(1))).collect() }
        fn val(&self) -> String { list_val(self.iter(), self.len()) }
        fn canon(&self) -> String { list_canon(self.iter(), self.len()) }
        fn rebuild(&self, r: &mut Rng) -> Self {
            let mut v: SmallVec<[T; N]> = SmallVec::new();
            if r.chance(1, 2) { v.reserve(2 * N + 3); } // spilled vs inline
            for x in self.iter() { v.push(x.rebuild(r)); }
            v
        }
    }
    macro_rules! bv { ($st:ty) => {
        impl Case for BitVec<$st, Lsb0> {
            fn ty() -> String { "seq bool".into() }
            fn make(r: &mut Rng, _d: u32) -> Self { let n = if r.chance(1, 3) { r.below(80) } else { r.below(10) } as usize; (0..n).map(|_| r.chance(1, 2)).collect() }
            fn val(&self) -> String { let mut s = format!("L {}", self.len()); for b in self.iter() { s.push_str(if *b { " b1" } else { " b0" }); } s }
            fn canon(&self) -> String { self.val() }
            fn rebuild(&self, r: &mut Rng) -> Self {
                // shift the head inside the first storage element: other bit layout, same bits
                let k = r.below(7) as usize;
                let mut v: BitVec<$st, Lsb0> = BitVec::new();
                for _ in 0..k { v.push(true); }
                for b in self.iter() { v.push(*b); }
                v.drain(0..k);
                v
            }
        }
    } }
    bv!(u8);
    bv!(usize);
}

// ------------------------------------------------------------------------------------------------
// runner + oracle

struct Fail { sig: String, desc: String, case: String }
struct Ctx {
    out: Out,
    child: bool,
    seed: u64,
    n: u64,
    only: Option<usize>,
    type_idx: usize,
    fails: Vec<Fail>,
    evaluations: u64,
    distinct: HashSet<u64, FX>,
    nontrivial: HashSet<u64, FX>,
    dist: BTreeMap<String, u64>,
    samples: Vec<String>,
}
impl Ctx {
    fn bump(&mut self, k: &str, by: u64) { *self.dist.entry(k.to_string()).or_insert(0) += by; }
    fn fail(&mut self, sig: String, desc: String, case: String) {
        if self.fails.iter().filter(|f| f.sig == sig).count() < 2 && self.fails.len() < 40 { self.fails.push(Fail { sig, desc, case }); }
        self.bump("oracle_failures", 1);
    }
}
fn h64(s: &str) -> u64 { let mut h = fxhash::FxHasher::default(); h.write(s.as_bytes()); h.finish() }

fn roundtrip<T: Encode + Decode>(v: &T) -> Result<T, String> {
    let p = Plugin::new();
    let b = qbice_serialize::postcard::encode(v, &p).map_err(|e| format!("encode: {e}"))?;
    qbice_serialize::postcard::decode::<T>(&b, &p).map_err(|e| format!("decode: {e}"))
}

struct Seen { canon: String, stream: Vec<u8>, hash: u128, val: String }

fn run_type<T: Case>(ctx: &mut Ctx, name: &str, rt: Option<&dyn Fn(&T) -> Result<T, String>>) {
    let idx = ctx.type_idx;
    ctx.type_idx += 1;
    if let Some(o) = ctx.only { if o != idx { return; } }
    let ty = T::ty();
    let unordered = ty.contains("uset") || ty.contains("umap");
    let composite = ty.contains(' ') || ty == "-";
    let mut rng = Rng::new(ctx.seed.wrapping_mul(1_000_003).wrapping_add(idx as u64));
    let mut orng = Rng::new(ctx.seed.wrapping_mul(7919).wrapping_add(idx as u64) ^ 0xabcdef);
    let tseed = match rng.below(4) { 0 => 0, 1 => 1, 2 => u64::MAX, _ => rng.next() };
    let cseed = ctx.seed;
    let here = |a: &str| format!("seed={} type={} name={} hseed={} ty={} {}", cseed, idx, name.replace(' ', ""), tseed, ty, a);
    let mut seen: Vec<Seen> = Vec::new();
    for _i in 0..ctx.n {
        let v = T::make(&mut rng, 3);
        let val = v.val();
        let canon = v.canon();
        let res = std::panic::catch_unwind(std::panic::AssertUnwindSafe(|| {
            let (stream, rh) = rec_hash(tseed, &v);
            let real = real_hash(tseed, &v);
            (stream, rh, real)
        }));
        let (stream, rh, real) = match res {
            Ok(x) => x,
            Err(_) => {
                if ty != "-" { ctx.out.line(&format!("H {tseed} {ty} | {val}"), "panic"); }
                ctx.fail(format!("panic:{ty}"), "stable_hash panicked".into(), here(&format!("a={val}")));
                continue;
            }
        };
        if ty != "-" { ctx.out.line(&format!("H {tseed} {ty} | {val}"), &format!("{} {:032x}", hex(&stream), real)); }
        ctx.evaluations += 1;
        let key = h64(&format!("{ty}|{canon}|{tseed}"));
        ctx.distinct.insert(key);
        if composite && !stream.is_empty() { ctx.nontrivial.insert(key); }
        if ctx.child { continue; }
        ctx.bump(&format!("stream_len_{}", match stream.len() { 0 => "0", 1..=8 => "1-8", 9..=32 => "9-32", 33..=256 => "33-256", _ => ">256" }), 1);
        if ctx.samples.len() < 6 && composite && ctx.evaluations % 97 == 3 && val.len() < 200 { ctx.samples.push(format!("H {tseed} {ty} | {val} -> {:032x}", real)); }
        let r2 = std::panic::catch_unwind(std::panic::AssertUnwindSafe(|| {
            let mut fails: Vec<(String, String, String)> = vec![];
            // (1) the recorder (one-shot SipHash over the recorded bytes, sub_hash = copy of bytes) agrees
            //     with the real streaming hasher: the hash is a function of the write stream alone
            if rh != real { fails.push(("stream-vs-hash".into(), "hash differs from one-shot SipHash of the recorded stream".into(), format!("a={val}"))); }
            // (2) construction histories
            for k in 0..3 {
                let w = v.rebuild(&mut orng);
                let wc = w.canon();
                assert!(wc == canon, "harness bug: rebuild changed the value {canon} -> {wc}");
                let (ws, _) = rec_hash(tseed, &w);
                let wh = real_hash(tseed, &w);
                if wh != real || ws != stream {
                    fails.push(("history".into(), format!("equal value, other construction history #{k}: hash {:032x} vs {:032x}", real, wh), format!("a={val} b={}", w.val())));
                }
            }
            // (3) owned vs shared storage
            let b = Box::new(v.rebuild(&mut orng));
            let forms: [(&str, u128); 5] = [
                ("&T", real_hash(tseed, &&v)), ("&&T", real_hash(tseed, &&&v)), ("Box<T>", real_hash(tseed, &b)),
                ("Rc<T>", real_hash(tseed, &Rc::new(v.rebuild(&mut orng)))), ("Arc<&T>", real_hash(tseed, &Arc::new(&v))),
            ];
            for (n, h) in forms { if h != real { fails.push(("wrapper".into(), format!("{n} hashes differently from T"), format!("a={val}"))); } }
            // (4) serialization round trip
            if let Some(f) = rt {
                match f(&v) {
                    Ok(w) => {
                        let wh = real_hash(tseed, &w);
                        if wh != real { fails.push(("roundtrip".into(), format!("hash changed by encode/decode (value after: {})", w.canon()), format!("a={val}"))); }
                    }
                    Err(e) => fails.push(("roundtrip-error".into(), e, format!("a={val}"))),
                }
            }
            fails
        }));
        match r2 {
            Ok(fs) => { for (k, d, c) in fs { ctx.fail(format!("{k}:{ty}"), d, here(&c)); } }
            Err(e) => {
                let m = e.downcast_ref::<String>().cloned().unwrap_or_default();
                ctx.fail(format!("oracle-panic:{ty}"), format!("panic in oracle: {m}"), here(&format!("a={val}")));
            }
        }
        ctx.bump(if rt.is_some() { "roundtrips" } else { "no_roundtrip_impl" }, 1);
        ctx.bump("histories", 3);
        seen.push(Seen { canon, stream, hash: real, val });
    }
    if ctx.child { return; }
    // (5) all pairs of generated values of this type: equal values ⇒ equal stream; unequal ⇒ streams differ,
    //     neither is a prefix of the other, hashes differ.  Sorting by stream makes the adjacent check complete.
    let mut by_canon: HashMap<&str, &Seen> = HashMap::new();
    let mut uniq: Vec<&Seen> = vec![];
    let mut dup = 0u64;
    for s in &seen {
        match by_canon.get(s.canon.as_str()) {
            Some(o) => {
                dup += 1;
                if o.stream != s.stream || o.hash != s.hash {
                    ctx.fails.push(Fail { sig: format!("equal-values-differ:{ty}"), desc: "two independently generated equal values hash differently".into(), case: here(&format!("a={} b={}", o.val, s.val)) });
                }
            }
            None => { by_canon.insert(s.canon.as_str(), s); uniq.push(s); }
        }
    }
    uniq.sort_by(|a, b| a.stream.cmp(&b.stream));
    let mut bad: Vec<(String, String, String)> = vec![];
    for w in uniq.windows(2) {
        if w[0].stream == w[1].stream { bad.push(("ambiguous-stream".into(), "two unequal values feed the same byte stream".into(), format!("a={} b={}", w[0].val, w[1].val))); }
        else if w[1].stream.starts_with(&w[0].stream) { bad.push(("prefix-stream".into(), "stream of one value is a proper prefix of another's".into(), format!("a={} b={}", w[0].val, w[1].val))); }
    }
    let mut by_hash: HashMap<u128, &Seen> = HashMap::new();
    for s in &uniq {
        if let Some(o) = by_hash.insert(s.hash, s) { bad.push(("hash-collision".into(), "two unequal values, one 128-bit hash".into(), format!("a={} b={}", o.val, s.val))); }
    }
    for (k, d, c) in bad { ctx.fail(format!("{k}:{ty}"), d, here(&c)); }
    let u = uniq.len() as u64;
    ctx.bump("unequal_pairs_checked", u * u.saturating_sub(1) / 2);
    ctx.bump("equal_value_regenerations", dup);
    ctx.bump(if unordered { "types_unordered" } else { "types_ordered" }, 1);
    ctx.bump(if unordered { "cases_unordered" } else { "cases_ordered" }, seen.len() as u64);
}

macro_rules! rt { ($ctx:expr; $($t:ty),* $(,)?) => { $( run_type::<$t>($ctx, stringify!($t), Some(&|v: &$t| roundtrip::<$t>(v))); )* } }
macro_rules! nort { ($ctx:expr; $($t:ty),* $(,)?) => { $( run_type::<$t>($ctx, stringify!($t), None); )* } }

fn all_types(c: &mut Ctx) {
    use std::num::*;
    use std::ops::*;
    use std::sync::atomic::*;
    use std::marker::PhantomData;
    use std::time::Duration;
    use std::path::PathBuf;
    use dashmap::{DashMap, DashSet};
    rt!(c; u8, u16, u32, u64, u128, usize, i8, i16, i32, i64, i128, isize, bool, char, f32, f64, (), String,
        Box<str>, Arc<str>, PhantomData<u8>, RangeFull, Duration, PathBuf);
    nort!(c; std::ffi::CString, std::ffi::OsString);
    rt!(c; NonZeroU8, NonZeroU16, NonZeroU32, NonZeroU64, NonZeroU128, NonZeroUsize,
        NonZeroI8, NonZeroI16, NonZeroI32, NonZeroI64, NonZeroI128, NonZeroIsize);
    rt!(c; AtomicBool, AtomicU8, AtomicU16, AtomicU32, AtomicU64, AtomicUsize, AtomicI8, AtomicI16, AtomicI32, AtomicI64, AtomicIsize);
    rt!(c; Option<u8>, Option<bool>, Option<()>, Option<Option<u8>>, Option<Option<Option<bool>>>, Option<String>, Option<Box<u32>>,
        Option<NonZeroU32>, Option<Vec<u8>>, Option<(u8, u8)>, Option<f32>,
        Result<u8, u8>, Result<(), ()>, Result<String, u32>, Result<Option<u8>, Vec<u8>>, Result<Result<u8, u16>, bool>);
    rt!(c; Vec<u8>, Vec<u16>, Vec<bool>, Vec<()>, Vec<String>, Vec<Vec<u8>>, Vec<Vec<Vec<u8>>>, Vec<Option<u8>>, Vec<(u8, String)>, Vec<f64>,
        Vec<char>, Vec<i128>, Box<[u8]>, Box<[String]>, VecDeque<u8>, VecDeque<String>, VecDeque<Vec<u8>>, LinkedList<u16>, LinkedList<String>,
        BTreeSet<u8>, BTreeSet<String>, BTreeSet<Vec<u8>>, BTreeMap<u8, u8>, BTreeMap<String, Vec<u8>>, BTreeMap<u8, String>, BTreeMap<(u8, u8), Option<u8>>);
    rt!(c; [u8; 0], [u8; 1], [u8; 4], [u16; 3], [String; 2], [Vec<u8>; 2], [[u8; 2]; 2], [Option<u8>; 3], [(); 3]);
    rt!(c; (u8,), (u8, u8), (u8, u16), (String, String), (Vec<u8>, Vec<u8>), (Option<u8>, Option<u8>), ((), u8), (u8, ()), (String, u8, Vec<u16>),
        (u8, u16, u32, u64), ((u8, u8), (u8, u8)), (Vec<String>, String), (u8, u8, u8, u8, u8, u8, u8, u8, u8, u8, u8, u8), (f32, f64),
        (char, String), (Option<String>, Option<String>));
    rt!(c; Box<u8>, Box<String>, Box<Vec<u8>>, Rc<u16>, Rc<String>, Arc<u32>, Arc<Vec<String>>, Box<Box<u8>>, Arc<Box<Rc<u8>>>,
        Cow<'static, String>, Cow<'static, Vec<u8>>, Box<(String, String)>, Vec<Box<u8>>, Vec<Arc<String>>);
    rt!(c; Range<u8>, Range<String>, RangeInclusive<u16>, RangeFrom<u8>, RangeTo<i32>, RangeToInclusive<u64>, Range<Vec<u8>>);
    rt!(c; Named, TupS, UnitS, GenS<u8>, GenS<String>, E1, E2, E3, E4, E5, E6, GenE<u8>, GenE<String>, One, Nest, Vec<E1>, Option<E3>,
        (E2, E2), Vec<Named>, GenE<E1>, BTreeMap<E3, E1>);
    rt!(c; HashSet<u8, RS>, HashSet<u8, FX>, HashSet<u8, VB>, HashSet<String, RS>, HashSet<String, VB>, HashSet<Vec<u8>, VB>, HashSet<(u8, u8), VB>,
        HashSet<Option<u8>, RS>, HashSet<E1, VB>, HashSet<BTreeSet<u8>, VB>, HashMap<u8, u8, RS>, HashMap<u8, u8, VB>, HashMap<String, u32, RS>,
        HashMap<String, Vec<u8>, VB>, HashMap<u8, String, FX>, HashMap<(u8, String), Option<u8>, VB>, HashMap<u8, f64, VB>,
        HashMap<u8, HashSet<u8, VB>, VB>, HashMap<u8, HashMap<u8, u8, RS>, RS>, HashMap<E3, E1, VB>,
        DashMap<u8, u8, VB>, DashMap<String, u16, RS>, DashSet<u8, VB>, DashSet<String, RS>,
        Vec<HashSet<u8, VB>>, (HashSet<u8, VB>, HashSet<u8, VB>), Option<HashMap<u8, u8, VB>>, Box<HashSet<u8, RS>>, Arc<HashMap<u8, String, VB>>,
        BTreeMap<u8, HashSet<u8, VB>>, [HashSet<u8, VB>; 2], GenS<HashSet<u8, VB>>, GenE<HashSet<u8, VB>>);
    nort!(c; BinaryHeap<u8>, BinaryHeap<String>, BinaryHeap<(u8, u8)>, Vec<BinaryHeap<u8>>, HashMap<u8, BinaryHeap<u8>, VB>);
    #[cfg(feature = "extras")]
    {
        use bitvec::prelude::*;
        use smallvec::SmallVec;
        rt!(c; SmallVec<[u8; 4]>, SmallVec<[String; 2]>, BitVec<u8, Lsb0>, Vec<BitVec<u8, Lsb0>>);
        nort!(c; BitVec<usize, Lsb0>);
    }
}

/// Different Rust types that are the same model type/value must hash equally (slice vs Vec vs array vs
/// VecDeque …, str vs String vs Box<str> …, HashSet vs BinaryHeap vs DashSet, DashMap vs its ReadOnlyView).
fn cross_forms(c: &mut Ctx) {
    if c.child || c.only.is_some() { return; }
    let mut r = Rng::new(c.seed ^ 0x5eed_f00d);
    for _ in 0..c.n {
        let seed = r.next();
        let v: Vec<u16> = Vec::make(&mut r, 3);
        let h = real_hash(seed, &v);
        let dq: VecDeque<u16> = VecDeque::<u16>::from(v.clone()).rebuild(&mut r);
        let ll: LinkedList<u16> = v.iter().copied().collect();
        let forms: Vec<(&str, u128)> = vec![
            ("[T]", real_hash(seed, &v[..])), ("Box<[T]>", real_hash(seed, &v.clone().into_boxed_slice())),
            ("Arc<[T]>", real_hash(seed, &Arc::<[u16]>::from(v.clone()))), ("Rc<[T]>", real_hash(seed, &Rc::<[u16]>::from(v.clone()))),
            ("VecDeque", real_hash(seed, &dq)), ("LinkedList", real_hash(seed, &ll)), ("Cow::Borrowed", real_hash(seed, &Cow::Borrowed(&v))),
            ("Cow::Owned", real_hash(seed, &Cow::<Vec<u16>>::Owned(v.clone()))), ("&mut", real_hash(seed, &&mut v.clone())),
        ];
        for (n, x) in forms { if x != h { c.fail(format!("form:{n}"), format!("{n} hashes differently from Vec<T> with the same elements"), format!("seed={} cross a={}", c.seed, v.val())); } }
        if v.len() >= 3 {
            let a: [u16; 3] = [v[0], v[1], v[2]];
            if real_hash(seed, &a) != real_hash(seed, &v[..3]) { c.fail("form:array".into(), "[T;3] differs from the slice".into(), format!("seed={} cross a={}", c.seed, v.val())); }
        }
        let s = String::make(&mut r, 2);
        let hs = real_hash(seed, &s);
        let forms: Vec<(&str, u128)> = vec![
            ("str", real_hash(seed, s.as_str())), ("Box<str>", real_hash(seed, &s.clone().into_boxed_str())), ("Arc<str>", real_hash(seed, &Arc::<str>::from(s.as_str()))),
            ("Rc<str>", real_hash(seed, &Rc::<str>::from(s.as_str()))), ("Cow<String>", real_hash(seed, &Cow::Borrowed(&s))),
        ];
        for (n, x) in forms { if x != hs { c.fail(format!("form:{n}"), format!("{n} hashes differently from String"), format!("seed={} cross a={}", c.seed, s.val())); } }
        // unordered: same elements in six containers / hashers
        let set: HashSet<u8, RS> = HashSet::make(&mut r, 3);
        let items: Vec<u8> = set.iter().copied().collect();
        let h = real_hash(seed, &set);
        let heap: BinaryHeap<u8> = items.iter().copied().collect();
        let ds: dashmap::DashSet<u8, VB> = dashmap::DashSet::with_hasher(VB::fresh(&mut r));
        for x in &items { ds.insert(*x); }
        let forms: Vec<(&str, u128)> = vec![
            ("HashSet<FX>", real_hash(seed, &build_set::<u8, FX>(items.clone(), &mut r))), ("HashSet<VB>", real_hash(seed, &build_set::<u8, VB>(items.clone(), &mut r))),
            ("BinaryHeap", real_hash(seed, &heap)), ("DashSet", real_hash(seed, &ds)),
        ];
        for (n, x) in forms { if x != h { c.fail(format!("form:{n}"), format!("{n} hashes differently from HashSet<RandomState> with the same elements"), format!("seed={} cross a={}", c.seed, set.val())); } }
        let m: HashMap<u8, String, VB> = HashMap::make(&mut r, 3);
        let h = real_hash(seed, &m);
        let dm: dashmap::DashMap<u8, String, RS> = dashmap::DashMap::with_hasher(RS::new());
        for (k, v) in &m { dm.insert(*k, v.clone()); }
        let hd = real_hash(seed, &dm);
        let view = dm.into_read_only();
        let hv = real_hash(seed, &view);
        let mut m2: HashMap<u8, String, RS> = HashMap::default();
        for (k, v) in &m { m2.insert(*k, v.clone()); }
        for (n, x) in [("DashMap", hd), ("ReadOnlyView", hv), ("HashMap<RS>", real_hash(seed, &m2))] {
            if x != h { c.fail(format!("form:{n}"), format!("{n} hashes differently from HashMap<VB> with the same entries"), format!("seed={} cross a={}", c.seed, m.val())); }
        }
        c.evaluations += 4;
        c.bump("cross_form_checks", 21);
    }
}

/// SipHash-128 on raw byte strings: model vs siphasher; oracle: chunking of `write` calls is irrelevant.
fn sip_lines(c: &mut Ctx) {
    if c.only.is_some() { return; }
    let mut r = Rng::new(c.seed ^ 0x51b);
    let mut o = Rng::new(c.seed ^ 0x51c);
    let n = 72 + c.n * 2;
    for i in 0..n {
        let len = if i <= 71 { i as usize } else if r.chance(1, 20) { r.range(200, 1200) as usize } else { r.below(100) as usize };
        let b: Vec<u8> = (0..len).map(|_| r.next() as u8).collect();
        let h = sip_oneshot(&b);
        c.out.line(&format!("SIP {}", hex(&b)), &format!("{:032x}", h));
        c.evaluations += 1;
        if c.child { continue; }
        let mut hs = Sip128Hasher::new();
        let mut p = 0;
        while p < b.len() { let k = (o.range(0, 9) as usize).min(b.len() - p); StableHasher::write(&mut hs, &b[p..p + k]); p += k; }
        let h2: u128 = hs.finish128().into();
        if h2 != h { c.fail("sip-chunking".into(), "hash depends on how the stream is split into writes".into(), format!("seed={} sip {}", c.seed, hex(&b))); }
        c.bump("sip_lines", 1);
    }
}

fn main() {
    let a = args();
    let child = a.rest.iter().any(|x| x == "--child");
    let mut only: Option<usize> = a.rest.iter().position(|x| x == "--only").map(|i| a.rest[i + 1].parse().unwrap());
    let mut seed = a.seed;
    if let Some(f) = &a.replay {
        // replay file written by vlib: {"case": "seed=<s> type=<idx> …"}
        let txt = std::fs::read_to_string(f).expect("replay file");
        let grab = |k: &str| txt.find(k).map(|p| txt[p + k.len()..].chars().take_while(|c| c.is_ascii_digit()).collect::<String>()).and_then(|s| s.parse::<u64>().ok());
        if let Some(s) = grab("seed=") { seed = s; }
        if let Some(t) = grab(" type=") { only = Some(t as usize); }
    }
    let n = a.n.unwrap_or(if a.tier == "thorough" { 600 } else { 120 });
    std::panic::set_hook(Box::new(|_| {}));
    let mut c = Ctx { out: Out::new(&a.out), child, seed, n, only, type_idx: 0, fails: vec![], evaluations: 0, distinct: Default::default(),
        nontrivial: Default::default(), dist: BTreeMap::new(), samples: vec![] };
    all_types(&mut c);
    cross_forms(&mut c);
    sip_lines(&mut c);
    use std::io::Write;
    c.out.ops.flush().unwrap();
    c.out.imp.flush().unwrap();
    // separate process: other ASLR layout, other RandomState keys; must produce the same impl.txt
    let mut child_status = "skipped".to_string();
    if !child {
        let cdir = format!("{}/child", a.out);
        let mut cmd = std::process::Command::new(std::env::current_exe().unwrap());
        cmd.args(["--seed", &seed.to_string(), "--tier", &a.tier, "--out", &cdir, "--n", &n.to_string(), "--child"]);
        if let Some(o) = only { cmd.args(["--only", &o.to_string()]); }
        match cmd.status() {
            Ok(s) if s.success() => {
                let mine = std::fs::read_to_string(format!("{}/impl.txt", a.out)).unwrap();
                let theirs = std::fs::read_to_string(format!("{cdir}/impl.txt")).unwrap();
                let ops = std::fs::read_to_string(format!("{}/ops.txt", a.out)).unwrap();
                let (m, t, o): (Vec<&str>, Vec<&str>, Vec<&str>) = (mine.lines().collect(), theirs.lines().collect(), ops.lines().collect());
                let mut diffs = 0;
                if m.len() != t.len() { diffs += 1; c.fail("cross-process:len".into(), format!("child wrote {} lines, parent {}", t.len(), m.len()), format!("seed={seed} cross-process")); }
                for i in 0..m.len().min(t.len()) {
                    if m[i] != t[i] {
                        diffs += 1;
                        let ty: String = o[i].split(" | ").next().unwrap_or("").split(' ').skip(2).collect::<Vec<_>>().join(" ");
                        c.fail(format!("cross-process:{ty}"), "another process computes a different stream/hash for the same value".into(), format!("seed={seed} line={} op={}", i + 1, &o[i][..o[i].len().min(300)]));
                    }
                }
                c.bump("cross_process_lines_compared", m.len().min(t.len()) as u64);
                child_status = format!("ok diffs={diffs}");
                let _ = std::fs::remove_dir_all(&cdir);
            }
            other => { child_status = format!("child failed: {other:?}"); c.fail("cross-process:spawn".into(), child_status.clone(), format!("seed={seed}")); }
        }
    }
    if !child {
        let mut k = String::with_capacity(c.nontrivial.len() * 17);
        for x in &c.nontrivial { k.push_str(&format!("{:016x}\n", x)); }
        std::fs::write(format!("{}/keys.txt", a.out), k).unwrap();
    }
    let mut rep = String::from("{");
    rep.push_str(&format!("\"evaluations\":{},\"distinct_nontrivial\":{},", c.evaluations, c.nontrivial.len()));
    rep.push_str(&format!("\"rule\":{},", jstr("non-trivial = value of a composite type (any constructor of the universe applied to at least one type) with a non-empty write stream; distinct by (type, canonical value, seed)")));
    rep.push_str(&format!("\"types\":{},\"child\":{},", c.type_idx, jstr(&child_status)));
    rep.push_str("\"samples\":[");
    rep.push_str(&c.samples.iter().map(|s| jstr(s)).collect::<Vec<_>>().join(","));
    rep.push_str("],\"distribution\":{");
    rep.push_str(&c.dist.iter().map(|(k, v)| format!("{}:{}", jstr(k), v)).collect::<Vec<_>>().join(","));
    rep.push_str(&format!("{}\"distinct_values\":{}", if c.dist.is_empty() { "" } else { "," }, c.distinct.len()));
    rep.push_str("},\"oracle_failures\":[");
    rep.push_str(&c.fails.iter().map(|f| format!("{{\"sig\":{},\"desc\":{},\"case\":{}}}", jstr(&f.sig), jstr(&f.desc), jstr(&f.case[..f.case.len().min(2000)]))).collect::<Vec<_>>().join(","));
    rep.push_str("]}");
    c.out.finish(&rep);
}
