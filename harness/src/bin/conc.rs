//! C02 harness ("concurrent querying is sound, single-flight and terminates").
//!
//! modes (`--mode all|engine|trace|tset|f6|walk|mepoch`, default all):
//!  * `engine` — real parallel runs (tokio multi-thread, 2..16 workers) of generated programs on a fresh
//!    in-memory engine: round 1 (M tasks, overlapping roots), one input session, round 2; judged by
//!    independent oracles only (from-scratch values, executor overlap detector, exec-twice, hang, panic).
//!  * `trace`  — the same kind of runs, smaller, with a hook sink installed; the computing-table events are
//!    written as `ct …` lines (PROTOCOL.md §1) for the Lean LTS driver.
//!  * `mepoch` — multi-epoch concurrent histories: the cases of `eng::gen_layered` / `gen_pjswitch` / `gen_program`+`gen_history`
//!    (4-9 sessions, unordered groups, firewalls, projections) with every round issued as concurrent tasks on 1/2/4/8
//!    workers; every epoch judged by the from-scratch oracle (a defect whose wrong value appears only one edit later).
//!  * `tset`   — `CompressedBackwardEdgeSet` driven directly: sequential op sequences (`ts …` lines) and
//!    concurrent histories judged by a linearizability oracle for sets.
//!  * `f6`     — the forced two-thread schedule of finding F6 on the real set (no hooks: the gate sits in
//!    `S::default()` of the `BuildHasher` parameter, which the upgrade calls inside its critical section).
//!  * `walk`   — finding F60: "wide fan-in with droppers" (`gen_fandrop`): a firewall (or a projection / normal node
//!    above it) with 16..=40 callers of which a few drop (or add) their edge after an input edit, all requests of
//!    the next epoch issued concurrently on a runtime with 0 (= current_thread), 1, 2, 4 workers; the corpus cases
//!    of `corpus/C02-F60/*.txt` first.  Judged by the from-scratch oracle and the OS-thread watchdog (a hung run
//!    blocks its worker THREADS in `parking_lot::RwLock::write`, so no tokio timer can report it).
use std::{
    collections::{BTreeMap, BTreeSet, HashMap, HashSet},
    hash::BuildHasher,
    sync::{
        Arc, Mutex,
        atomic::{AtomicBool, AtomicU64, AtomicUsize, Ordering::SeqCst},
    },
    time::{Duration, Instant},
};

use qbice::{
    Config, Engine, Identifiable,
    query::QueryID,
    serialize::Plugin,
    stable_hash::{Compact128, SeededStableHasherBuilder, Sip128Hasher},
    storage::storage_engine::in_memory::{InMemoryStorageEngine, InMemoryStorageEngineFactory},
    verif::{self, BackwardEdgeSet, Sink},
};
use qbice_verif_harness::{eng::*, *};

#[derive(Debug, Clone, Copy, PartialEq, Eq, PartialOrd, Ord, Hash, Default, Identifiable)]
pub struct MemCfg;
impl Config for MemCfg {
    type StorageEngine = InMemoryStorageEngine;
    type BuildStableHasher = SeededStableHasherBuilder<Sip128Hasher>;
    type BuildHasher = fxhash::FxBuildHasher;
}

const WALL_LIMIT: Duration = Duration::from_secs(20);
/// `--wall-limit-ms N` (measurements only): a shorter watchdog limit
static WALL_LIMIT_MS: AtomicU64 = AtomicU64::new(0);
/// requests returned so far (all runs of the process): the watchdog's second progress signal
static PROGRESS: AtomicU64 = AtomicU64::new(0);
fn wall_limit() -> Duration { match WALL_LIMIT_MS.load(SeqCst) { 0 => WALL_LIMIT, ms => Duration::from_millis(ms) } }
const SIG_F6: &str = "F6:tiered-set-lost-insert";
const SIG_F60: &str = "C02:hang-wide-walk";
const FAM_WALK: &str = "fandrop";

// ------------------------------------------------------------------------------------------
// bookkeeping
// ------------------------------------------------------------------------------------------

struct Failure { sig: String, desc: String, case: String }

#[derive(Default)]
struct Ctx {
    failures: Vec<Failure>,
    counters: BTreeMap<String, u64>,
    maxes: BTreeMap<String, u64>,
    distinct: BTreeSet<u64>,
    samples: Vec<String>,
    evals: u64,
    traces: u64,
    trace_events: u64,
    variant_fixed: Option<bool>,
}
impl Ctx {
    fn inc(&mut self, k: &str, by: u64) { *self.counters.entry(k.to_string()).or_insert(0) += by; }
    fn max(&mut self, k: &str, v: u64) { let e = self.maxes.entry(k.to_string()).or_insert(0); if v > *e { *e = v; } }
    fn fail(&mut self, sig: &str, desc: String, case: &str) {
        self.inc(&format!("sig_hits:{sig}"), 1);
        let same = self.failures.iter().filter(|f| f.sig == sig).count();
        if same < 3 && self.failures.len() < 16 {
            let mut case = case.to_string();
            if same > 0 && case.len() > 4000 { case.truncate(4000); case.push_str("\n…truncated (first failure of this signature carries a full case)…\n"); }
            self.failures.push(Failure { sig: sig.to_string(), desc: desc.chars().take(600).collect(), case });
        }
    }
}
fn hash_text(s: &str) -> u64 { use std::hash::{Hash, Hasher}; let mut h = std::collections::hash_map::DefaultHasher::new(); s.hash(&mut h); h.finish() }

// ------------------------------------------------------------------------------------------
// engine run specification (replayable text)
// ------------------------------------------------------------------------------------------

#[derive(Clone, Debug, Default)]
struct Spec {
    fam: String, // gen | fw | fanin | wide | fandrop
    w: usize,    // tokio worker threads; 0 = current_thread runtime
    program: Program,
    init: Vec<(u32, i64)>,
    seq: Vec<u32>,
    tasks: Vec<Vec<u32>>,
    edit: Vec<(u32, i64)>,
    tasks2: Vec<Vec<u32>>,
    /// read-back round in the SAME epoch as `tasks2`, started after all of them completed (no session in between)
    tasks3: Vec<Vec<u32>>,
}
fn join_u32(v: &[u32]) -> String { v.iter().map(|x| x.to_string()).collect::<Vec<_>>().join(" ") }
impl Spec {
    fn render(&self) -> String {
        let mut s = format!("conc fam={} w={} keys={} tasks={} tasks2={}\n", self.fam, self.w, self.program.nodes.len(), self.tasks.len(), self.tasks2.len());
        for l in self.program.render_lines() { s.push_str(&l); s.push('\n'); }
        s.push_str("init"); for (k, v) in &self.init { s.push_str(&format!(" {k} {v}")); } s.push('\n');
        s.push_str(&format!("seq {}\n", join_u32(&self.seq)));
        for t in &self.tasks { s.push_str(&format!("task {}\n", join_u32(t))); }
        s.push_str("edit"); for (k, v) in &self.edit { s.push_str(&format!(" {k} {v}")); } s.push('\n');
        for t in &self.tasks2 { s.push_str(&format!("task2 {}\n", join_u32(t))); }
        for t in &self.tasks3 { s.push_str(&format!("task3 {}\n", join_u32(t))); }
        s
    }
    fn parse(text: &str) -> Spec {
        let mut sp = Spec::default();
        let pairs = |t: &[&str]| -> Vec<(u32, i64)> { t.chunks(2).map(|c| (c[0].parse().unwrap(), c[1].parse().unwrap())).collect() };
        let keys = |t: &[&str]| -> Vec<u32> { t.iter().map(|x| x.parse().unwrap()).collect() };
        for line in text.lines() {
            let line = line.trim(); if line.is_empty() { continue; }
            let t: Vec<&str> = line.split_whitespace().collect();
            match t[0] {
                "conc" => for kv in &t[1..] { if let Some(v) = kv.strip_prefix("fam=") { sp.fam = v.into(); } if let Some(v) = kv.strip_prefix("w=") { sp.w = v.parse().unwrap(); } },
                "node" => sp.program.parse_node_line(line),
                "init" => sp.init = pairs(&t[1..]),
                "seq" => sp.seq = keys(&t[1..]),
                "task" => sp.tasks.push(keys(&t[1..])),
                "edit" => sp.edit = pairs(&t[1..]),
                "task2" => sp.tasks2.push(keys(&t[1..])),
                "task3" => sp.tasks3.push(keys(&t[1..])),
                _ => {}
            }
        }
        sp
    }
    fn full_oracles(&self) -> bool { self.fam != "fw" }
    fn hang_sig(&self) -> &'static str { if self.fam == FAM_WALK { SIG_F60 } else { "C02:hang" } }
}

// ------------------------------------------------------------------------------------------
// generators
// ------------------------------------------------------------------------------------------

fn static_closure(p: &Program, roots: &[u32]) -> BTreeSet<u32> {
    let mut seen = BTreeSet::new(); let mut st: Vec<u32> = roots.to_vec();
    while let Some(k) = st.pop() { if !seen.insert(k) { continue; } let mut rs = vec![]; p.nodes[k as usize].expr.reads(&mut rs); st.extend(rs); }
    seen
}

fn pick_w(r: &mut Rng, high_bias: bool) -> usize { if high_bias && r.chance(2, 3) { r.range(8, 16) as usize } else { r.range(2, 16) as usize } }

/// tasks with overlapping root lists; `cover` = additionally spread all non-input keys over the tasks
fn gen_tasks(r: &mut Rng, p: &Program, m: usize, max_roots: u64, cover: bool) -> Vec<Vec<u32>> {
    let n = p.nodes.len() as u32;
    let mut ts: Vec<Vec<u32>> = (0..m).map(|_| {
        let c = r.range(1, max_roots);
        (0..c).map(|_| if r.chance(1, 2) { n - 1 - r.below(n.min(4) as u64) as u32 } else { r.below(n as u64) as u32 }).collect()
    }).collect();
    if cover {
        let mut all: Vec<u32> = (0..n).collect(); r.shuffle(&mut all);
        for (i, k) in all.into_iter().enumerate() { ts[i % m].push(k); }
    }
    ts
}

fn gen_edit(r: &mut Rng, p: &Program, init: &[(u32, i64)], roots: &[u32]) -> Vec<(u32, i64)> {
    let clo = static_closure(p, roots);
    let mut cand: Vec<(u32, i64)> = init.iter().copied().filter(|(k, _)| clo.contains(k)).collect();
    if cand.is_empty() { cand = init.to_vec(); }
    r.shuffle(&mut cand);
    let c = r.range(1, cand.len() as u64) as usize;
    cand.truncate(c);
    cand.into_iter().map(|(k, v)| (k, (v + 1 + r.below(3) as i64) % 4)).collect()
}

fn gen_spec_prog(r: &mut Rng, fam: &str, max_keys: u32) -> Spec {
    let cfg = GenCfg { max_keys, max_ops: 0, firewalls: fam == "fw", externals: false, unordered: r.chance(1, 2), cycles: false };
    let program = gen_program(r, &cfg);
    finish_spec(r, fam, program, false)
}

fn finish_spec(r: &mut Rng, fam: &str, program: Program, many_tasks: bool) -> Spec {
    let init: Vec<(u32, i64)> = (0..program.nodes.len() as u32).filter(|k| program.kind(*k) == Kind::Input).map(|k| (k, r.below(4) as i64)).collect();
    let m = if many_tasks { r.range(4, 16) } else { r.range(2, 12) } as usize;
    let tasks = gen_tasks(r, &program, m, if many_tasks { 8 } else { 5 }, false);
    let roots: Vec<u32> = tasks.iter().flatten().copied().collect();
    let edit = gen_edit(r, &program, &init, &roots);
    let m2 = if many_tasks { r.range(4, 16) } else { r.range(2, 12) } as usize;
    let tasks2 = gen_tasks(r, &program, m2, 4, true);
    let seq = if r.chance(1, 4) { vec![r.below(program.nodes.len() as u64) as u32] } else { vec![] };
    Spec { fam: fam.into(), w: pick_w(r, false), program, init, seq, tasks, edit, tasks2, tasks3: vec![] }
}

/// FAN-IN: Var(0) -> optional chain -> callee c; n callers N_i = Read(c) + 1000*i.  A prefix of callers is
/// queried sequentially, the rest concurrently; then Var changes and every caller is re-queried.
fn gen_fanin(r: &mut Rng, max_n: u64) -> Spec {
    let n = if r.chance(3, 5) { r.range(28, 40) } else { r.range(1, max_n) } as u32;
    let chain = if r.chance(1, 2) { 0 } else { r.range(1, 3) } as u32;
    let mut nodes = vec![NodeDef { kind: Kind::Input, default: 0, expr: Expr::Const(0) }];
    for j in 0..chain { nodes.push(NodeDef { kind: Kind::Normal, default: DEFAULT_NM, expr: if j % 2 == 0 { Expr::Read(j) } else { Expr::Add(Box::new(Expr::Read(j)), Box::new(Expr::Const(7))) } }); }
    let callee = chain; // key of the callee (0 = the input itself)
    let first = chain + 1;
    for i in 0..n { nodes.push(NodeDef { kind: Kind::Normal, default: DEFAULT_NM, expr: Expr::Add(Box::new(Expr::Read(callee)), Box::new(Expr::Const(1000 * (i as i64 + 1)))) }); }
    let program = Program { nodes };
    let callers: Vec<u32> = (first..first + n).collect();
    // sequential prefix: usually just below the threshold (the F6 window: len 28..32 and then simultaneous inserts)
    let s = if n <= 1 { 0 } else if r.chance(3, 4) { r.range(26, 32).min(n as u64 - 1) } else { r.below(n as u64) } as usize;
    let seq: Vec<u32> = callers[..s].to_vec();
    let rest: Vec<u32> = callers[s..].to_vec();
    // the rest: mostly one task per caller; a few tasks take 2-3, and a few roots are duplicated across tasks
    let mut tasks: Vec<Vec<u32>> = vec![];
    let mut i = 0;
    while i < rest.len() { let c = if r.chance(4, 5) { 1 } else { r.range(2, 3) as usize }; tasks.push(rest[i..(i + c).min(rest.len())].to_vec()); i += c; }
    let dups = r.below(4);
    for _ in 0..dups { let k = *r.pick(&callers); if tasks.is_empty() { tasks.push(vec![k]); } else { let j = r.below(tasks.len() as u64) as usize; if r.chance(1, 2) { tasks[j].push(k); } else { tasks.push(vec![k]); } } }
    if tasks.is_empty() { tasks.push(vec![callers[0]]); }
    let m2 = r.range(2, 16) as usize;
    let mut tasks2: Vec<Vec<u32>> = vec![vec![]; m2];
    let mut all = callers.clone(); r.shuffle(&mut all);
    for (i, k) in all.iter().enumerate() { tasks2[i % m2].push(*k); }
    for _ in 0..r.below(4) { let j = r.below(m2 as u64) as usize; tasks2[j].push(*r.pick(&callers)); }
    tasks2.retain(|t| !t.is_empty());
    Spec { fam: "fanin".into(), w: pick_w(r, true), program, init: vec![(0, 1)], seq, tasks, edit: vec![(0, 2)], tasks2, tasks3: vec![] }
}

/// WIDE FAN-IN WITH DROPPERS (finding F60).  Key 0 is a selector input.  Per group: an input `v`, a firewall
/// `f` over it, and the walked node `c` = `f` itself, a projection over `f`, or a normal node over `f`; then
/// 16..=40 callers of `c` (two thirds within the small, Vec-backed tier 16..=32): steady callers `c + 1000j`,
/// DROPPERS `if sel == 1 { c + k } else { yield^m; -1-k }` (stop reading `c` once the selector changes) and a
/// few ADDERS (start reading `c` then); droppers/adders are requested in the second epoch through FRESH roots
/// (a query caller does not repair the firewalls below first, so the dropper re-executes and publishes —
/// `remove_element` on `c`'s backward-edge set — while the steady request's repair of `f` dirty-walks that
/// set) or directly.  Round 1 queries every caller (sequentially in a shuffled order, or spread over tasks), the
/// edit flips the selector and changes `v`, round 2 issues one task per steady representative / dropper / adder.
fn yields(m: u64, e: Expr) -> Expr { let mut e = e; for _ in 0..m { e = Expr::Yield(Box::new(e)); } e }
fn add(a: Expr, b: Expr) -> Expr { Expr::Add(Box::new(a), Box::new(b)) }

/// `rb` = the READ-BACK sub-family (seeded change "per-next() re-locking of the small tier"): 3-6 groups, small tier only,
/// 3-8 droppers per group that sit at the LOW indices of the edge vector (queried first in round 1) and, once the selector
/// has changed, read a helper the firewall reads too and publish 0-5 yields after it is published (i.e. while the steady
/// request's repair of the firewall walks the set), true
/// multi-thread runtimes, and a third round in the same epoch that reads EVERY caller back.
fn gen_fandrop(r: &mut Rng, rb: bool) -> Spec {
    let groups = if rb { r.range(3, 6) } else { r.range(1, 3) } as i64;
    let mut nodes = vec![NodeDef { kind: Kind::Input, default: 0, expr: Expr::Const(0) }];
    let (mut init, mut edit) = (vec![(0u32, 1i64)], vec![(0u32, 0i64)]);
    let mut round1: Vec<u32> = vec![];
    let (mut lead, mut others): (Vec<Vec<u32>>, Vec<Vec<u32>>) = (vec![], vec![]);
    let mut sweep: Vec<u32> = vec![];
    for g in 0..groups {
        let v = nodes.len() as u32; nodes.push(NodeDef { kind: Kind::Input, default: 0, expr: Expr::Const(0) });
        init.push((v, 10 + g)); if r.chance(9, 10) { edit.push((v, 20 + g)); }
        // rb: a helper `h` that the firewall reads and that the droppers start to read once the selector changes: whoever
        // computes `h` first (it yields 2-12 times, so the others queue up on its computing entry), its publication precedes the end of the firewall's executor (= the start of the walk) by a
        // few microseconds AND releases the droppers, whose own publications (removal of their edge) follow at once
        let h = if rb { nodes.push(NodeDef { kind: Kind::Normal, default: DEFAULT_NM, expr: { let j = r.range(2, 12); yields(j, Expr::Read(v)) } }); Some(nodes.len() as u32 - 1) } else { None };
        let src = h.unwrap_or(v);
        let f = nodes.len() as u32;
        nodes.push(NodeDef { kind: Kind::Firewall, default: DEFAULT_FW, expr: if r.chance(1, 2) { Expr::Read(src) } else { add(Expr::Read(src), Expr::Const(7)) } });
        let c = match if rb { r.below(4) + if r.chance(1, 2) { 0 } else { 1 } } else { r.below(5) } {
            0 | 1 | 2 => f,
            3 => { nodes.push(NodeDef { kind: Kind::Projection, default: DEFAULT_PJ, expr: if r.chance(1, 2) { Expr::Read(f) } else { add(Expr::Read(f), Expr::Const(1)) } }); nodes.len() as u32 - 1 }
            _ => { nodes.push(NodeDef { kind: Kind::Normal, default: DEFAULT_NM, expr: add(Expr::Read(f), Expr::Const(3)) }); nodes.len() as u32 - 1 }
        };
        // 32 = the full small tier: the only width at which the Vec-backed walk parks twice (16th and 32nd edge); a
        // current_thread runtime wakes parked tasks last-in-first-out, so only the second parking meets a dropper
        let n = if rb { r.range(10, 32) } else { match r.below(6) { 0 => 32, 1 | 2 | 3 => r.range(16, 31), _ => r.range(33, 40) } };
        let d = if rb { r.range(3, 8) } else { r.range(1, 8).min(n - 1) };
        let a = if r.chance(1, 3) { r.range(1, 2) } else { 0 };
        let mut group_callers: Vec<u32> = vec![];
        let mut steadies: Vec<u32> = vec![];
        for j in 0..(n - d) {
            steadies.push(nodes.len() as u32);
            nodes.push(NodeDef { kind: Kind::Normal, default: DEFAULT_NM, expr: add(Expr::Read(c), Expr::Const(1000 * (j as i64 + 1))) });
        }
        let mut movers: Vec<u32> = vec![];
        for k in 0..(d + a) {
            let m = if rb { r.below(4) } else { match r.below(20) { 0..=8 => 0, 9..=13 => 1, _ => r.range(2, 4) } };
            let reads = add(Expr::Read(c), Expr::Const(k as i64));
            let quits = match h { Some(h) if r.chance(5, 6) => add(Expr::Read(h), yields(m, Expr::Const(-1 - k as i64))), _ => yields(m, Expr::Const(-1 - k as i64)) };
            let (on1, off1) = if k < d { (reads, quits) } else { (quits, yields(m, add(Expr::Read(c), Expr::Const(50 + k as i64)))) };
            movers.push(nodes.len() as u32);
            nodes.push(NodeDef { kind: Kind::Normal, default: DEFAULT_NM, expr: Expr::IfEq(Box::new(Expr::Read(0)), 1, Box::new(on1), Box::new(off1)) });
        }
        // order of the edges in the vector = order of the round-1 queries
        if rb && r.chance(2, 3) { group_callers.extend(&movers); group_callers.extend(&steadies); } else { group_callers.extend(&steadies); group_callers.extend(&movers); if rb { r.shuffle(&mut group_callers); } }
        round1.extend(&group_callers); sweep.extend(&group_callers);
        // second epoch: the steady representative(s) and one request per mover
        lead.push(vec![steadies[0]]);
        for _ in 0..r.below(3) { others.push(vec![*r.pick(&steadies)]); }
        for mv in movers {
            if r.chance(4, 5) { let root = nodes.len() as u32; nodes.push(NodeDef { kind: Kind::Normal, default: DEFAULT_NM, expr: Expr::Read(mv) }); others.push(vec![root]); }
            else { others.push(vec![mv]); }
        }
    }
    if !rb { r.shuffle(&mut round1); }
    let (seq, tasks) = if rb || r.chance(2, 3) { (round1, vec![]) } else {
        let m = r.range(2, 8) as usize; let mut ts = vec![vec![]; m];
        for (i, k) in round1.iter().enumerate() { ts[i % m].push(*k); }
        (vec![], ts)
    };
    // order of the spawns: the steady requests first (they reach the walk while the movers are still queued), or anywhere
    let mut tasks2 = if r.chance(1, 2) { r.shuffle(&mut others); lead.extend(others); lead } else { lead.extend(others); r.shuffle(&mut lead); lead };
    let mut tasks3 = vec![];
    if rb { let m = r.range(1, 4) as usize; tasks3 = vec![vec![]; m]; r.shuffle(&mut sweep); for (i, k) in sweep.iter().enumerate() { tasks3[i % m].push(*k); } }
    else if r.chance(1, 2) { r.shuffle(&mut sweep); tasks2.push(sweep); }
    let w = if rb { *r.pick(&[2usize, 2, 3, 4, 4, 8]) } else { *r.pick(&[0usize, 0, 1, 1, 2, 2, 2, 4, 4, 3, 8]) };
    Spec { fam: FAM_WALK.into(), w, program: Program { nodes }, init, seq, tasks, edit, tasks2, tasks3 }
}

/// WIDE: layered program, each node reads 1-3 lower nodes, unordered groups with many keys, aggregator roots.
fn gen_wide(r: &mut Rng, max_keys: u32) -> Spec {
    let total = r.range(40.min(max_keys as u64), max_keys as u64) as u32;
    let n_in = r.range(1, 4) as u32;
    let mut nodes: Vec<NodeDef> = (0..n_in).map(|_| NodeDef { kind: Kind::Input, default: 0, expr: Expr::Const(0) }).collect();
    let layers = r.range(2, 10) as u32;
    let per = ((total - n_in) / layers).max(1);
    let mut layer_lo = 0u32; let mut layer_hi = n_in; // previous layer = [layer_lo, layer_hi)
    let mut k = n_in;
    while k < total {
        let end = (k + per).min(total);
        for key in k..end {
            let pick = |r: &mut Rng| -> u32 { if r.chance(4, 5) { r.range(layer_lo as u64, layer_hi as u64 - 1) as u32 } else { r.below(k as u64) as u32 } };
            let c = r.below(10);
            let expr = if c < 6 {
                let m = r.range(1, 3);
                let mut e = Expr::Read(pick(r));
                for _ in 1..m { e = Expr::Add(Box::new(e), Box::new(Expr::Read(pick(r)))); }
                if r.chance(1, 2) { e = Expr::Add(Box::new(e), Box::new(Expr::Const(r.below(5) as i64))); }
                e
            } else if c < 8 {
                Expr::IfEq(Box::new(Expr::Read(pick(r))), r.below(4) as i64, Box::new(Expr::Read(pick(r))), Box::new(Expr::Read(pick(r))))
            } else {
                let mut pool: Vec<u32> = (0..k).collect(); r.shuffle(&mut pool);
                let m = r.range(2, 40.min(pool.len() as u64).max(2)).min(pool.len() as u64) as usize;
                pool.truncate(m.max(1));
                if pool.len() >= 2 { Expr::SumAll(pool) } else { Expr::Read(pool[0]) }
            };
            let _ = key;
            nodes.push(NodeDef { kind: Kind::Normal, default: DEFAULT_NM, expr });
        }
        layer_lo = k; layer_hi = end; k = end;
    }
    // aggregator roots
    for _ in 0..r.range(1, 3) {
        let n = nodes.len() as u32;
        let mut pool: Vec<u32> = (0..n).collect(); r.shuffle(&mut pool);
        let m = r.range(2, 200.min(n as u64).max(2)).min(n as u64) as usize; pool.truncate(m);
        nodes.push(NodeDef { kind: Kind::Normal, default: DEFAULT_NM, expr: if pool.len() >= 2 { Expr::SumAll(pool) } else { Expr::Read(pool[0]) } });
    }
    finish_spec(r, "wide", Program { nodes }, true)
}

// ------------------------------------------------------------------------------------------
// hook sink
// ------------------------------------------------------------------------------------------

const SHARDS: usize = 64;
struct TraceSink { seq: AtomicU64, boundary: AtomicU64, bufs: Vec<Mutex<Vec<(u64, &'static str, QueryID, u64)>>> }
impl TraceSink {
    fn new() -> Self { TraceSink { seq: AtomicU64::new(0), boundary: AtomicU64::new(u64::MAX), bufs: (0..SHARDS).map(|_| Mutex::new(Vec::new())).collect() } }
    fn take(&self) -> Vec<(u64, &'static str, QueryID, u64)> {
        let mut all = vec![]; for b in &self.bufs { all.append(&mut b.lock().unwrap()); } all.sort_by_key(|e| e.0); all
    }
}
thread_local! { static SHARD: usize = { static NEXT: AtomicUsize = AtomicUsize::new(0); NEXT.fetch_add(1, SeqCst) % SHARDS }; }
impl Sink for TraceSink {
    fn emit(&self, label: &'static str, id: Option<&QueryID>, n: u64) {
        if !(label.starts_with("cl.") || label.starts_with("fp.")) { return; } // other agents' hooks
        let Some(id) = id else { return };
        let s = self.seq.fetch_add(1, SeqCst);
        let sh = SHARD.with(|x| *x);
        self.bufs[sh].lock().unwrap().push((s, label, *id, n));
    }
    fn pause<'a>(&'a self, _label: &'static str, _id: Option<&'a QueryID>) -> std::pin::Pin<Box<dyn Future<Output = ()> + Send + 'a>> { Box::pin(std::future::ready(())) }
}

// ------------------------------------------------------------------------------------------
// running one spec
// ------------------------------------------------------------------------------------------

#[derive(Default, Clone)]
struct RunOut { r1: Vec<(u32, i64)>, r2: Vec<(u32, i64)>, r3: Vec<(u32, i64)>, log1: Vec<ExecRecord>, log2: Vec<ExecRecord>, overlap: Vec<u32>, boundary: u64, panic: Option<String>,
    /** (`--state`) (op line, digest of every key) at every quiescent point: after the initial session, after every concurrent round (all tasks joined), after the edit session */ states: Vec<(String, String)> }

/// `--state`: dump the digest of every key (eng::state_digest) after every session and after every concurrent round (all
/// tasks joined: nothing is in flight), judge it with the state-invariant oracle and write it for `drv_engine inv`
static STATE: AtomicBool = AtomicBool::new(false);
static INV_LINES: Mutex<Vec<String>> = Mutex::new(Vec::new());
async fn dump(engine: &Arc<Engine<MemCfg>>, p: &Program, opline: String, states: &mut Vec<(String, String)>) {
    if !STATE.load(SeqCst) || p.nodes.len() > 64 || !is_acyclic(p) { return; }
    let d = state_digest(engine, p).await;
    states.push((opline, d));
}
fn render_session(ws: &[(u32, i64)]) -> String { let mut s = String::from("session"); for (k, v) in ws { s.push_str(&format!(" set {k} {v}")); } s }
fn render_round(ts: &[Vec<u32>]) -> String { let mut ks: Vec<u32> = ts.iter().flatten().copied().collect(); ks.sort(); ks.dedup(); format!("round {}", join_u32(&ks)) }
/// the expressions `drv_engine` parses (no Yield / Spec / Div nodes)
fn plain_program(p: &Program) -> bool { p.render_lines().iter().all(|l| !l.split_whitespace().skip(4).any(|t| t == "Y" || t == "X" || t == "/")) }
/// state-invariant oracle over the dumps of one run (`truths[i]` = committed inputs at dump i) + the block for `drv_engine inv`
fn judge_states(ctx: &mut Ctx, p: &Program, states: &[(String, String)], truths: &[Truth], header: &str, text: &str) {
    if states.is_empty() { return; }
    ctx.inc("state_dumps_judged_by_the_state_invariant_oracle", states.len() as u64);
    for ((op, d), t) in states.iter().zip(truths) {
        let value_of = |k: u32| -> Option<i64> {
            fn defined(p: &Program, t: &Truth, k: u32) -> bool { match p.kind(k) { Kind::Input => t.inputs.contains_key(&k), Kind::External => true, _ => { let mut r = vec![]; p.nodes[k as usize].expr.reads(&mut r); r.iter().all(|x| defined(p, t, *x)) } } }
            if !defined(p, t, k) { return None; }
            std::panic::catch_unwind(std::panic::AssertUnwindSafe(|| Scratch::new(p, t).value(k).ok())).ok().flatten()
        };
        for (which, desc) in state_invariant_check(p, d, &value_of) { ctx.fail(&format!("C02:state-invariant:{which}"), format!("{header}: after `{}` (all tasks joined, nothing in flight): {desc}", op.chars().take(60).collect::<String>()), text); }
    }
    if plain_program(p) {
        let mut g = INV_LINES.lock().unwrap();
        g.push(format!("case {}", p.nodes.len())); g.push(format!("# {header}"));
        g.extend(p.render_lines());
        for (op, d) in states { g.push(op.clone()); g.push(format!("#D {d}")); }
    }
}
enum RunErr { Hang }

fn panic_msg(p: Box<dyn std::any::Any + Send>) -> String { p.downcast_ref::<String>().cloned().or_else(|| p.downcast_ref::<&str>().map(|s| s.to_string())).unwrap_or_else(|| "<non-string payload>".into()) }

async fn do_round(engine: &Arc<Engine<MemCfg>>, sh: &Arc<Shared>, seq: &[u32], tasks: &[Vec<u32>], panic: &mut Option<String>) -> Vec<(u32, i64)> {
    let mut out = vec![];
    if !seq.is_empty() {
        let te = engine.clone().tracked().await;
        for k in seq { out.push((*k, query_key(sh, &te, *k).await)); PROGRESS.fetch_add(1, SeqCst); }
        drop(te);
    }
    let mut js = tokio::task::JoinSet::new();
    for roots in tasks {
        let (e, sh, roots) = (engine.clone(), sh.clone(), roots.clone());
        js.spawn(async move {
            let te = e.tracked().await;
            let mut o = Vec::with_capacity(roots.len());
            for k in roots { o.push((k, query_key(&sh, &te, k).await)); PROGRESS.fetch_add(1, SeqCst); }
            drop(te);
            o
        });
    }
    while let Some(r) = js.join_next().await {
        match r { Ok(o) => out.extend(o), Err(e) => if e.is_panic() { let m = panic_msg(e.into_panic()); if panic.is_none() { *panic = Some(m); } } else if panic.is_none() { *panic = Some("task cancelled".into()); } }
    }
    out
}

fn run_spec_inner(spec: &Spec, sink: Option<Arc<TraceSink>>, sh: Arc<Shared>) -> RunOut {
    // w = 0: a current_thread runtime (the thread of this function is the only one that polls tasks)
    let rt = if spec.w == 0 { tokio::runtime::Builder::new_current_thread().enable_all().build().unwrap() }
        else { tokio::runtime::Builder::new_multi_thread().worker_threads(spec.w).thread_stack_size(if spec.fam == FAM_WALK { 16 << 20 } else { 64 << 20 }).enable_all().build().unwrap() };
    let spec2 = spec.clone();
    let r = std::panic::catch_unwind(std::panic::AssertUnwindSafe(|| {
        rt.block_on(async move {
            let spec = spec2;
            let mut ro = RunOut::default();
            *sh.program.write().unwrap() = spec.program.clone();
            let mut engine = Engine::<MemCfg>::new_with(Plugin::default(), InMemoryStorageEngineFactory, SeededStableHasherBuilder::new(0)).await.unwrap();
            register_all(&mut engine, &sh);
            let engine = Arc::new(engine);
            { let mut s = engine.input_session().await; for (k, v) in &spec.init { s.set_input(In(*k), *v).await; } s.commit().await; }
            // (no hook sink is installed in runs that dump states: the dump itself passes no hook, but keep the traces clean)
            let st = sink.is_none();
            if st { dump(&engine, &spec.program, render_session(&spec.init), &mut ro.states).await; }
            if let Some(s) = &sink { verif::set_sink(Some(s.clone())); }
            let mut panic = None;
            ro.r1 = do_round(&engine, &sh, &spec.seq, &spec.tasks, &mut panic).await;
            ro.log1 = std::mem::take(&mut *sh.log.lock().unwrap());
            if panic.is_none() {
                if st { let mut ts = spec.tasks.clone(); ts.push(spec.seq.clone()); dump(&engine, &spec.program, render_round(&ts), &mut ro.states).await; }
                if let Some(s) = &sink { ro.boundary = s.seq.load(SeqCst); s.boundary.store(ro.boundary, SeqCst); }
                { let mut s = engine.input_session().await; for (k, v) in &spec.edit { s.set_input(In(*k), *v).await; } s.commit().await; }
                if st { dump(&engine, &spec.program, render_session(&spec.edit), &mut ro.states).await; }
                ro.r2 = do_round(&engine, &sh, &[], &spec.tasks2, &mut panic).await;
                if st && panic.is_none() { dump(&engine, &spec.program, render_round(&spec.tasks2), &mut ro.states).await; }
                if panic.is_none() && !spec.tasks3.is_empty() { ro.r3 = do_round(&engine, &sh, &[], &spec.tasks3, &mut panic).await; if st && panic.is_none() { dump(&engine, &spec.program, render_round(&spec.tasks3), &mut ro.states).await; } }
                ro.log2 = std::mem::take(&mut *sh.log.lock().unwrap());
            }
            ro.overlap = sh.overlap.lock().unwrap().clone();
            ro.panic = panic;
            ro
        })
    }));
    rt.shutdown_background();
    match r { Ok(ro) => ro, Err(p) => RunOut { panic: Some(panic_msg(p)), ..Default::default() } }
}

/// The watchdog: the run happens on its own OS thread (which builds the runtime and blocks on it); this thread
/// waits on a std channel with a wall-clock limit.  On a timeout the runner thread and its runtime are ABANDONED
/// (never joined): threads blocked in a lock stay blocked and cost nothing, the process ends with `main`.
fn with_watchdog<T: Send + 'static>(f: impl FnOnce(Arc<Shared>) -> T + Send + 'static) -> Result<T, RunErr> {
    let (tx, rx) = std::sync::mpsc::channel();
    let sh = Arc::new(Shared::default());
    let sh2 = sh.clone();
    let _ = std::thread::Builder::new().stack_size(64 << 20).spawn(move || { let r = f(sh2); let _ = tx.send(r); });
    // the limit applies to the time WITHOUT PROGRESS (no executor invocation finished, no request returned): a hung
    // run makes none, a run on an overloaded machine keeps making some; 12 limits in total is a hang whatever happens
    let t0 = Instant::now();
    let progress = || sh.log.lock().map(|l| l.len() as u64).unwrap_or(0).wrapping_mul(1_000_003) ^ PROGRESS.load(SeqCst);
    let mut last = (progress(), Instant::now());
    loop {
        match rx.recv_timeout(Duration::from_millis(100)) {
            Ok(r) => return Ok(r),
            Err(std::sync::mpsc::RecvTimeoutError::Disconnected) => return Err(RunErr::Hang),
            Err(std::sync::mpsc::RecvTimeoutError::Timeout) => {}
        }
        let p = progress();
        if p != last.0 { last = (p, Instant::now()); }
        if last.1.elapsed() > wall_limit() || t0.elapsed() > wall_limit() * 12 { return Err(RunErr::Hang); }
    }
}

fn run_spec(spec: &Spec, sink: Option<Arc<TraceSink>>) -> Result<RunOut, RunErr> {
    let spec2 = spec.clone();
    let s2 = sink.clone();
    let r = with_watchdog(move |sh| run_spec_inner(&spec2, s2, sh));
    if sink.is_some() { verif::set_sink(None); }
    r
}

// ------------------------------------------------------------------------------------------
// oracles for one engine run (independent of any model)
// ------------------------------------------------------------------------------------------

struct Verdict { fails: Vec<(String, String)>, nontrivial: bool, max_fanin: u64, execs: u64, cancelled: u64 }

fn truth_of(pairs: &[(u32, i64)], base: Option<&Truth>) -> Truth { let mut t = base.cloned().unwrap_or_default(); for (k, v) in pairs { t.inputs.insert(*k, *v); } t }

fn judge_run(spec: &Spec, ro: &RunOut) -> Verdict {
    let p = &spec.program;
    let mut fails: Vec<(String, String)> = vec![];
    let t1 = truth_of(&spec.init, None);
    let t2 = truth_of(&spec.edit, Some(&t1));
    let mut s1 = Scratch::new(p, &t1);
    let mut s2 = Scratch::new(p, &t2);
    // dynamic callers of every callee (both rounds)
    let mut callers: BTreeMap<u32, BTreeSet<u32>> = BTreeMap::new();
    for e in ro.log1.iter().chain(ro.log2.iter()) { for (c, _) in &e.reads { callers.entry(*c).or_default().insert(e.key); } }
    let max_fanin = callers.values().map(|s| s.len() as u64).max().unwrap_or(0);
    if let Some(m) = &ro.panic { fails.push(("C02:panic".into(), format!("panic during the run: {m}"))); }
    if !ro.overlap.is_empty() { fails.push(("C02:overlap".into(), format!("executor invocations of one key overlapped in time: keys {:?}", ro.overlap))); }
    let mut nontrivial = false;
    if spec.full_oracles() && ro.panic.is_none() {
        for (k, v) in &ro.r1 {
            let exp = s1.value(*k).unwrap();
            if *v != exp { fails.push(("C02:value".into(), format!("round 1: query {k} returned {v}, from-scratch value is {exp}"))); break; }
        }
        let exec1: BTreeSet<u32> = ro.log1.iter().map(|e| e.key).collect();
        let exec2: BTreeSet<u32> = ro.log2.iter().filter(|e| e.result.is_some()).map(|e| e.key).collect();
        // dynamic reads of both rounds (a node first executed in round 2 may have read stale callees)
        let mut reads1: BTreeMap<u32, Vec<u32>> = BTreeMap::new();
        for e in ro.log1.iter().chain(ro.log2.iter()) { let v = reads1.entry(e.key).or_default(); for (c, _) in &e.reads { if !v.contains(c) { v.push(*c); } } }
        for (k, v) in &ro.r2 {
            let exp = s2.value(*k).unwrap();
            if *v != exp {
                // origin analysis: stale nodes = executed in round 1, not re-executed in round 2, from-scratch value changed
                let mut is_stale = |j: u32, s1: &mut Scratch, s2: &mut Scratch| -> bool { p.kind(j) != Kind::Input && exec1.contains(&j) && !exec2.contains(&j) && s1.value(j).unwrap() != s2.value(j).unwrap() };
                let mut seen = BTreeSet::new(); let mut st = vec![*k]; let mut fan = 0usize; let mut origin_desc = String::new();
                while let Some(j) = st.pop() {
                    if !seen.insert(j) { continue; }
                    let rs = reads1.get(&j).cloned().unwrap_or_default();
                    if is_stale(j, &mut s1, &mut s2) && !rs.iter().any(|c| is_stale(*c, &mut s1, &mut s2)) {
                        for c in &rs { if s1.value(*c).unwrap() != s2.value(*c).unwrap() { let f = callers.get(c).map_or(0, |s| s.len()); if f > fan { fan = f; origin_desc = format!("node {j} was not invalidated although its callee {c} changed; {c} has {f} distinct callers"); } } }
                    }
                    st.extend(rs);
                }
                if origin_desc.is_empty() && std::env::var("CONC_DEBUG").is_ok() {
                    for j in &seen { if p.kind(*j) != Kind::Input && s1.value(*j).unwrap() != s2.value(*j).unwrap() {
                        eprintln!("DBG node {j}: fs1={} fs2={} log1={:?} log2={:?}", s1.value(*j).unwrap(), s2.value(*j).unwrap(), ro.log1.iter().filter(|e| e.key == *j).collect::<Vec<_>>(), ro.log2.iter().filter(|e| e.key == *j).collect::<Vec<_>>());
                    } }
                }
                let sig = if fan > 32 { "C02:stale-after-edit:fanin>32" } else { "C02:stale-after-edit:fanin<=32" };
                fails.push((sig.into(), format!("round 2 (after edit {:?}): query {k} returned {v}, from-scratch value is {exp}; {origin_desc}", spec.edit)));
                break;
            }
        }
        // read-back in the same epoch: a caller the dirty walk skipped keeps its old value although its callee is settled
        let stale3: Vec<(u32, i64, i64)> = ro.r3.iter().filter_map(|(k, v)| { let exp = s2.value(*k).unwrap(); if *v != exp { Some((*k, *v, exp)) } else { None } }).collect();
        if let Some((k, v, exp)) = stale3.first() {
            let reads: Vec<u32> = reads1.get(k).cloned().unwrap_or_default();
            let via: Vec<String> = reads.iter().filter(|c| s1.value(**c).unwrap() != s2.value(**c).unwrap()).map(|c| format!("callee {c} changed and has {} distinct callers", callers.get(c).map_or(0, |s| s.len()))).collect();
            fails.push(("C02:stale-readback-same-epoch".into(), format!("read-back after the concurrent requests of the epoch after edit {:?} had completed: query {k} returned {v}, from-scratch value is {exp} ({} of {} read-back values stale: {:?}); {k} was executed in round 1 and not re-executed; {}", spec.edit, stale3.len(), ro.r3.len(), stale3.iter().take(8).collect::<Vec<_>>(), via.join("; "))));
        }
        for (name, log) in [("round 1", &ro.log1), ("round 2", &ro.log2)] {
            let mut cnt: BTreeMap<u32, u32> = BTreeMap::new();
            // an invocation with result None was cancelled (repair aborts the other members of an unordered group
            // once one of them demands a recompute): only completed invocations count
            for e in log.iter() { if e.result.is_some() { *cnt.entry(e.key).or_insert(0) += 1; } }
            if let Some((k, c)) = cnt.iter().find(|(k, c)| **c > 1 && p.kind(**k) != Kind::Input) { fails.push(("C02:exec-twice".into(), format!("{name}: executor of key {k} ran to completion {c} times between two sessions: {:?}", log.iter().filter(|e| e.key == *k).collect::<Vec<_>>()))); }
        }
        // non-trivial: two tasks share a root in round 1 and the edit changed a value some root read
        let mut seen: BTreeSet<u32> = BTreeSet::new(); let mut shared = false;
        for t in &spec.tasks { let ks: BTreeSet<u32> = static_closure(p, t).into_iter().filter(|k| p.kind(*k) != Kind::Input).collect(); for k in ks { if !seen.insert(k) { shared = true; } } }
        let changed = spec.tasks.iter().flatten().chain(spec.seq.iter()).any(|k| s1.value(*k).unwrap() != s2.value(*k).unwrap());
        nontrivial = if spec.fam == FAM_WALK { changed && max_fanin >= 16 && spec.tasks2.len() >= 2 } else { shared && changed && spec.tasks.len() >= 2 };
    } else if !spec.full_oracles() {
        let mut seen: BTreeSet<u32> = BTreeSet::new(); let mut shared = false;
        for t in &spec.tasks { let ks: BTreeSet<u32> = static_closure(p, t).into_iter().filter(|k| p.kind(*k) != Kind::Input).collect(); for k in ks { if !seen.insert(k) { shared = true; } } }
        nontrivial = shared && spec.tasks.len() >= 2;
    }
    let cancelled = ro.log1.iter().chain(ro.log2.iter()).filter(|e| e.result.is_none()).count() as u64;
    Verdict { fails, nontrivial, max_fanin, execs: (ro.log1.len() + ro.log2.len()) as u64, cancelled }
}

/// runs a spec, judges it, records statistics; returns the run output for the trace writer
fn eval_spec(ctx: &mut Ctx, spec: &Spec, sink: Option<Arc<TraceSink>>, tag: &str) -> Option<RunOut> {
    ctx.evals += 1;
    ctx.inc(&format!("{tag}_runs_fam_{}", spec.fam), 1);
    ctx.inc(&format!("{tag}_workers_{:02}", spec.w), 1);
    ctx.inc(&format!("{tag}_tasks_total"), (spec.tasks.len() + spec.tasks2.len()) as u64);
    ctx.max("max_keys", spec.program.nodes.len() as u64);
    ctx.max("max_tasks_per_round", spec.tasks.len().max(spec.tasks2.len()) as u64);
    let text = spec.render();
    match run_spec(spec, sink) {
        Err(RunErr::Hang) => {
            ctx.inc(&format!("{tag}_hangs_workers_{:02}", spec.w), 1);
            let what = if spec.fam == FAM_WALK { " — a request never completed; in this family that is how finding F60 shows (a walk over a wide backward-edge set parked holding the set's read guards while a caller that drops/adds its edge blocks its worker thread in write()), but any lost wake-up ends the same way" } else { "" };
            ctx.fail(spec.hang_sig(), format!("the run made no progress (no executor finished, no request returned) for {} ms of wall time (fam {}, {} workers{}){what}", wall_limit().as_millis(), spec.fam, spec.w, if spec.w == 0 { " = current_thread runtime" } else { "" }), &text); None
        }
        Ok(ro) => {
            let v = judge_run(spec, &ro);
            ctx.inc("executor_invocations", v.execs);
            ctx.inc("executor_invocations_cancelled", v.cancelled);
            ctx.max("max_fanin", v.max_fanin);
            if v.max_fanin > 32 { ctx.inc(&format!("{tag}_runs_fanin_gt32"), 1); }
            if v.nontrivial { ctx.distinct.insert(hash_text(&text)); if ctx.samples.len() < 2 && text.len() < 3000 { ctx.samples.push(text.clone()); } }
            for (sig, desc) in &v.fails { ctx.inc(&format!("{tag}_fam_{}_hits:{sig}", spec.fam), 1); ctx.fail(sig, desc.clone(), &text); }
            if !ro.states.is_empty() {
                // dumps: after init, after round 1 | after edit, after round 2 [, after round 3]
                let t1 = truth_of(&spec.init, None); let t2 = truth_of(&spec.edit, Some(&t1));
                let truths: Vec<Truth> = (0..ro.states.len()).map(|i| if i < 2 { t1.clone() } else { t2.clone() }).collect();
                judge_states(ctx, &spec.program, &ro.states, &truths, &format!("{tag} fam={} w={}", spec.fam, spec.w), &text);
            }
            if ro.panic.is_some() { None } else { Some(ro) }
        }
    }
}

// ------------------------------------------------------------------------------------------
// mode engine
// ------------------------------------------------------------------------------------------

fn gen_engine_spec(r: &mut Rng, i: u64, thorough: bool, small: bool) -> Spec {
    // family mix: fan-in is the F6 detector, so it gets the largest share
    let c = i % 10;
    if small {
        match c { 0 | 1 | 2 => { let mk = *r.pick(&[8u32, 16, 40]); gen_spec_prog(r, "gen", mk) } 3 | 4 => { let mk = *r.pick(&[8u32, 16, 30]); gen_spec_prog(r, "fw", mk) } 5 | 6 | 7 => gen_fanin(r, 80), _ => gen_wide(r, 300) }
    } else {
        match c { 0 | 1 => { let mk = *r.pick(&[12u32, 40, 120]); gen_spec_prog(r, "gen", mk) } 2 => { let mk = *r.pick(&[12u32, 40]); gen_spec_prog(r, "fw", mk) } 3 | 4 | 5 | 6 | 7 => gen_fanin(r, 200), _ => gen_wide(r, if thorough { 3000 } else { 600 }) }
    }
}

fn mode_engine(ctx: &mut Ctx, r: &mut Rng, n: u64, thorough: bool) {
    let t0 = Instant::now();
    for i in 0..n {
        let spec = gen_engine_spec(r, i, thorough, false); eval_spec(ctx, &spec, None, "engine");
        // every hang costs the full wall limit and leaves an abandoned runtime behind
        if ctx.counters.get("sig_hits:C02:hang").copied().unwrap_or(0) >= 3 { ctx.inc("engine_mode_stopped_after_3_hangs", 1); break; }
    }
    ctx.inc("wall_ms_engine", t0.elapsed().as_millis() as u64);
}

// ------------------------------------------------------------------------------------------
// mode walk: wide fan-in with droppers (finding F60)
// ------------------------------------------------------------------------------------------

/// corpus first (every `conc` case of corpus/C02-F60, at its own worker count and at 0/1/2/4), then `n` generated
/// specs.  A hang costs the full wall limit and leaves blocked threads behind: by default the mode stops at the
/// first one (`--walk-keep-going`: measurements of the hang rate).
fn mode_walk(ctx: &mut Ctx, r: &mut Rng, n: u64, reps: u64, keep_going: bool) {
    let t0 = Instant::now();
    let hung = |ctx: &Ctx| ctx.counters.get(&format!("sig_hits:{SIG_F60}")).copied().unwrap_or(0);
    let mut specs: Vec<(Spec, &str)> = vec![];
    if let Ok(rd) = std::fs::read_dir(format!("{}/../corpus/C02-F60", env!("CARGO_MANIFEST_DIR"))) {
        let mut fs: Vec<_> = rd.filter_map(|e| e.ok()).map(|e| e.path()).filter(|p| p.extension().map_or(false, |x| x == "txt")).collect();
        fs.sort();
        for f in fs {
            let text = std::fs::read_to_string(&f).unwrap_or_default();
            if !text.trim_start().starts_with("conc") { continue; }
            let sp = Spec::parse(&text);
            ctx.inc("walk_corpus_files", 1);
            for _ in 0..reps { specs.push((sp.clone(), "walkcorpus")); for w in [0usize, 1, 2, 4] { if w != sp.w { let mut s2 = sp.clone(); s2.w = w; specs.push((s2, "walkcorpus")); } } }
        }
    }
    for i in 0..n { if i % 2 == 0 { specs.push((gen_fandrop(r, false), "walk")); } else { specs.push((gen_fandrop(r, true), "walkrb")); } }
    for (spec, tag) in &specs {
        eval_spec(ctx, spec, None, tag);
        if hung(ctx) > 0 && !keep_going { ctx.inc("walk_mode_stopped_after_hang", 1); break; }
    }
    ctx.inc("wall_ms_walk", t0.elapsed().as_millis() as u64);
}

// ------------------------------------------------------------------------------------------
// mode mepoch: MULTI-EPOCH concurrent histories (seeded change "unordered group: last chunk decides")
// ------------------------------------------------------------------------------------------

/// A history of `eng::Case` (4-9 input sessions with rounds in between, as `gen_layered` / `gen_pjswitch` /
/// `gen_program`+`gen_history` produce them) in which every `Round(keys)` is issued as CONCURRENT tasks: one per
/// requested key plus 0-3 more on random other keys (inner nodes of the chain included).  Every epoch is judged.
#[derive(Clone, Debug)]
enum MOp { Session(Vec<(u32, i64)>), Round(Vec<Vec<u32>>) }
#[derive(Clone, Debug, Default)]
struct MSpec { src: String, w: usize, program: Program, ops: Vec<MOp> }
impl MSpec {
    fn render(&self) -> String {
        let mut s = format!("conc-me src={} w={} keys={} ops={}\n", self.src, self.w, self.program.nodes.len(), self.ops.len());
        for l in self.program.render_lines() { s.push_str(&l); s.push('\n'); }
        for o in &self.ops { match o {
            MOp::Session(ws) => { s.push_str("session"); for (k, v) in ws { s.push_str(&format!(" {k} {v}")); } s.push('\n'); }
            MOp::Round(ts) => { s.push_str("round "); s.push_str(&ts.iter().map(|t| join_u32(t)).collect::<Vec<_>>().join(" | ")); s.push('\n'); }
        } }
        s
    }
    fn parse(text: &str) -> MSpec {
        let mut sp = MSpec::default();
        for line in text.lines() {
            let line = line.trim(); if line.is_empty() { continue; }
            let t: Vec<&str> = line.split_whitespace().collect();
            match t[0] {
                "conc-me" => for kv in &t[1..] { if let Some(v) = kv.strip_prefix("src=") { sp.src = v.into(); } if let Some(v) = kv.strip_prefix("w=") { sp.w = v.parse().unwrap(); } },
                "node" => sp.program.parse_node_line(line),
                "session" => sp.ops.push(MOp::Session(t[1..].chunks(2).map(|c| (c[0].parse().unwrap(), c[1].parse().unwrap())).collect())),
                "round" => sp.ops.push(MOp::Round(line["round".len()..].split('|').map(|x| x.split_whitespace().map(|k| k.parse().unwrap()).collect::<Vec<u32>>()).filter(|t| !t.is_empty()).collect())),
                _ => {}
            }
        }
        sp
    }
}

fn gen_mepoch(r: &mut Rng) -> MSpec {
    let (src, case) = match r.below(10) {
        0..=4 => ("layered", gen_layered(r)),
        5 | 6 => ("pjswitch", gen_pjswitch(r)),
        _ => {
            let cfg = GenCfg { max_keys: *r.pick(&[8u32, 14, 24]), max_ops: 18, firewalls: r.chance(2, 3), externals: false, unordered: true, cycles: false };
            let p = gen_program(r, &cfg); let ops = gen_history(r, &p, &cfg);
            ("gen", Case { program: p, ops })
        }
    };
    let n = case.program.nodes.len() as u32;
    let non_input: Vec<u32> = (0..n).filter(|k| case.program.kind(*k) != Kind::Input).collect();
    let mut ops = vec![];
    for o in &case.ops { match o {
        Op::Session(ws) => ops.push(MOp::Session(ws.iter().filter_map(|w| if let Write::Set(k, v) = w { Some((*k, *v)) } else { None }).collect())),
        Op::Round(ks) => {
            let mut ts: Vec<Vec<u32>> = ks.iter().map(|k| vec![*k]).collect();
            let extra = if r.chance(1, 3) { 0 } else { r.range(1, 3) };
            for _ in 0..extra { if !non_input.is_empty() { let c = r.range(1, 2); ts.push((0..c).map(|_| *r.pick(&non_input)).collect()); } }
            r.shuffle(&mut ts);
            ops.push(MOp::Round(ts));
        }
    } }
    MSpec { src: src.into(), w: *r.pick(&[1usize, 2, 2, 4, 4, 8]), program: case.program, ops }
}

#[derive(Default, Clone)]
struct MRunOut { rounds: Vec<(Vec<(u32, i64)>, Vec<ExecRecord>)>, overlap: Vec<u32>, panic: Option<String>, /** (`--state`) one entry per completed op */ states: Vec<(String, String)> }

fn run_mspec_inner(spec: &MSpec, sh: Arc<Shared>) -> MRunOut {
    let rt = if spec.w == 0 { tokio::runtime::Builder::new_current_thread().enable_all().build().unwrap() }
        else { tokio::runtime::Builder::new_multi_thread().worker_threads(spec.w).thread_stack_size(16 << 20).enable_all().build().unwrap() };
    let spec2 = spec.clone();
    let r = std::panic::catch_unwind(std::panic::AssertUnwindSafe(|| {
        rt.block_on(async move {
            let spec = spec2;
            let mut ro = MRunOut::default();
            *sh.program.write().unwrap() = spec.program.clone();
            let mut engine = Engine::<MemCfg>::new_with(Plugin::default(), InMemoryStorageEngineFactory, SeededStableHasherBuilder::new(0)).await.unwrap();
            register_all(&mut engine, &sh);
            let engine = Arc::new(engine);
            let mut panic = None;
            for op in &spec.ops {
                match op {
                    MOp::Session(ws) => { let mut s = engine.input_session().await; for (k, v) in ws { s.set_input(In(*k), *v).await; } s.commit().await; ro.rounds.push((vec![], vec![]));
                        dump(&engine, &spec.program, render_session(ws), &mut ro.states).await; }
                    MOp::Round(ts) => {
                        let vals = do_round(&engine, &sh, &[], ts, &mut panic).await;
                        let log = std::mem::take(&mut *sh.log.lock().unwrap());
                        ro.rounds.push((vals, log));
                        if panic.is_none() { dump(&engine, &spec.program, render_round(ts), &mut ro.states).await; }
                    }
                }
                if panic.is_some() { break; }
            }
            ro.overlap = sh.overlap.lock().unwrap().clone();
            ro.panic = panic;
            ro
        })
    }));
    rt.shutdown_background();
    match r { Ok(ro) => ro, Err(p) => MRunOut { panic: Some(panic_msg(p)), ..Default::default() } }
}

/// oracles: from-scratch value of EVERY returned value of EVERY epoch; per epoch (between two sessions) the executor of
/// a key completes at most once; no overlap; no panic.  `ro.rounds[i]` belongs to `spec.ops[i]`.
fn judge_mrun(spec: &MSpec, ro: &MRunOut) -> Vec<(String, String)> {
    let p = &spec.program;
    let mut fails: Vec<(String, String)> = vec![];
    if let Some(m) = &ro.panic { fails.push(("C02:panic".into(), format!("panic during the run: {m}"))); return fails; }
    if !ro.overlap.is_empty() { fails.push(("C02:overlap".into(), format!("executor invocations of one key overlapped in time: keys {:?}", ro.overlap))); }
    let mut truth = Truth::default();
    let mut epoch = 0usize;
    let mut cnt: BTreeMap<u32, Vec<&ExecRecord>> = BTreeMap::new();
    let mut right_epochs = 0usize;
    for (i, op) in spec.ops.iter().enumerate() {
        let Some((vals, log)) = ro.rounds.get(i) else { break };
        match op {
            MOp::Session(ws) => { for (k, v) in ws { truth.inputs.insert(*k, *v); } epoch += 1; cnt.clear(); }
            MOp::Round(_) => {
                let mut sc = Scratch::new(p, &truth);
                let mut bad = vals.iter().filter_map(|(k, v)| { let e = sc.value(*k).unwrap(); if *v != e { Some((*k, *v, e)) } else { None } });
                if let Some((k, v, e)) = bad.next() {
                    let sessions: Vec<String> = spec.ops[..i].iter().filter_map(|o| if let MOp::Session(ws) = o { Some(format!("{ws:?}")) } else { None }).collect();
                    fails.push(("C02:multi-epoch:stale-value".into(), format!("epoch {epoch} (op {i}, {} workers): query {k} returned {v}, from-scratch value is {e}; the {right_epochs} rounds before it were right; sessions so far: {}; executed in this round: {:?}", spec.w, sessions.join(" "), log.iter().map(|x| x.key).collect::<Vec<_>>())));
                    break;
                }
                right_epochs += 1;
                for e in log.iter() { if e.result.is_some() { cnt.entry(e.key).or_default().push(e); } }
                if let Some((k, v)) = cnt.iter().find(|(k, v)| v.len() > 1 && p.kind(**k) != Kind::Input) {
                    fails.push(("C02:multi-epoch:exec-twice".into(), format!("epoch {epoch}: executor of key {k} ran to completion {} times between two sessions: {:?}", v.len(), v)));
                    break;
                }
            }
        }
    }
    fails
}

fn eval_mspec(ctx: &mut Ctx, spec: &MSpec, tag: &str) {
    ctx.evals += 1;
    ctx.inc(&format!("{tag}_runs_src_{}", spec.src), 1);
    ctx.inc(&format!("{tag}_workers_{:02}", spec.w), 1);
    let sessions = spec.ops.iter().filter(|o| matches!(o, MOp::Session(_))).count() as u64;
    let rounds = spec.ops.iter().filter(|o| matches!(o, MOp::Round(_))).count() as u64;
    ctx.inc(&format!("{tag}_sessions_total"), sessions); ctx.inc(&format!("{tag}_rounds_total"), rounds);
    ctx.inc(&format!("{tag}_tasks_total"), spec.ops.iter().map(|o| if let MOp::Round(t) = o { t.len() as u64 } else { 0 }).sum());
    ctx.max("max_sessions_per_case", sessions);
    if spec.program.has_unordered() { ctx.inc(&format!("{tag}_runs_with_unordered_group"), 1); }
    let text = spec.render();
    let spec2 = spec.clone();
    match with_watchdog(move |sh| run_mspec_inner(&spec2, sh)) {
        Err(RunErr::Hang) => { ctx.inc(&format!("{tag}_hangs_workers_{:02}", spec.w), 1); ctx.fail("C02:hang-multi-epoch", format!("the run made no progress (no executor finished, no request returned) for {} ms of wall time (multi-epoch history from {}, {} workers)", wall_limit().as_millis(), spec.src, spec.w), &text); }
        Ok(ro) => {
            let fails = judge_mrun(spec, &ro);
            ctx.inc("executor_invocations", ro.rounds.iter().map(|r| r.1.len() as u64).sum());
            let concurrent = spec.ops.iter().any(|o| matches!(o, MOp::Round(t) if t.len() >= 2));
            if sessions >= 3 && concurrent && ro.panic.is_none() { ctx.distinct.insert(hash_text(&text)); if ctx.samples.len() < 3 && text.len() < 2500 && spec.program.has_unordered() { ctx.samples.push(text.clone()); } }
            for (sig, desc) in &fails { ctx.inc(&format!("{tag}_src_{}_hits:{sig}", spec.src), 1); ctx.fail(sig, desc.clone(), &text); }
            if !ro.states.is_empty() {
                let mut t = Truth::default(); let mut truths = vec![];
                for op in spec.ops.iter().take(ro.states.len()) { if let MOp::Session(ws) = op { for (k, v) in ws { t.inputs.insert(*k, *v); } } truths.push(t.clone()); }
                judge_states(ctx, &spec.program, &ro.states, &truths, &format!("{tag} src={} w={}", spec.src, spec.w), &text);
            }
        }
    }
}

fn mode_mepoch(ctx: &mut Ctx, r: &mut Rng, n: u64) {
    let t0 = Instant::now();
    for _ in 0..n {
        let spec = gen_mepoch(r); eval_mspec(ctx, &spec, "me");
        if ctx.counters.get("sig_hits:C02:hang-multi-epoch").copied().unwrap_or(0) >= 2 { ctx.inc("mepoch_mode_stopped_after_2_hangs", 1); break; }
    }
    ctx.inc("wall_ms_mepoch", t0.elapsed().as_millis() as u64);
}

// ------------------------------------------------------------------------------------------
// mode trace
// ------------------------------------------------------------------------------------------

/// `partial` = the run hung: the events recorded so far are written without `ct epoch`/`ct end` lines the run did not reach
fn write_trace(ctx: &mut Ctx, out: &mut Out, evs: &[(u64, &'static str, QueryID, u64)], boundary: u64, fam: &str, partial: bool) {
    let in_ty = In::STABLE_TYPE_ID;
    let mut keymap: HashMap<QueryID, u32> = HashMap::new();
    let mut genmap: HashMap<u64, u64> = HashMap::new();
    let mut next_gen = 0u64;
    let mut lines = 0u64;
    // `cl.done` is emitted AFTER `remove_sync` returned (the removal itself cannot carry a hook), `cl.done_pre`
    // right before the call: the removal lies between the two.  `cl.vacant` is emitted inside its critical
    // section, so a `vacant k` seen between `done_pre(k,g)` and `done(k,g)` proves that g's removal already
    // happened: the `done` line is then written right before that `vacant` (its latest possible position)
    // and the late hook event is dropped.  A `vacant` while the entry's `done_pre` has NOT been seen is left
    // as it is (the model rejects it: two owners).
    let mut cur: HashMap<u32, u64> = HashMap::new();          // key -> generation in the table (by the lines written)
    let mut pre_seen: HashSet<u64> = HashSet::new();          // generations whose done_pre was seen, done not yet written
    let mut early: HashSet<u64> = HashSet::new();             // generations whose done line was written early
    out.line("ct begin", "ok");
    let mut epoch_written = false;
    for (s, label, id, n) in evs {
        if !epoch_written && *s >= boundary { out.line("ct epoch", "ok"); epoch_written = true; }
        if id.stable_type_id() == in_ty { ctx.inc("ct_dropped_input_events", 1); continue; }
        let nk = keymap.len() as u32;
        let k = *keymap.entry(*id).or_insert(nk);
        let line = match *label {
            "fp.miss" => format!("ct miss {k}"),
            "fp.hit" => format!("ct hit {k}"),
            "cl.none" => format!("ct none {k}"),
            "cl.vacant" => {
                if let Some(g) = cur.get(&k).copied() { if pre_seen.remove(&g) {
                    early.insert(g); ctx.inc("ct_done_lines_placed_before_vacant", 1);
                    out.line(&format!("ct done {k} {g}"), "ok"); lines += 1;
                } }
                next_gen += 1; genmap.insert(*n, next_gen); cur.insert(k, next_gen); format!("ct vacant {k} {next_gen}")
            }
            "cl.reg" => format!("ct reg {k} {}", genmap.get(n).copied().unwrap_or(0)),
            "cl.publish" => format!("ct publish {k}"),
            "cl.done_pre" => { pre_seen.insert(genmap.get(n).copied().unwrap_or(0)); continue; }
            "cl.done" => {
                let g = genmap.get(n).copied().unwrap_or(0);
                if early.remove(&g) { continue; }
                pre_seen.remove(&g);
                if cur.get(&k) == Some(&g) { cur.remove(&k); }
                format!("ct done {k} {g}")
            }
            "cl.woken" => format!("ct woken {k}"),
            _ => continue,
        };
        ctx.inc(&format!("ct_events_{label}"), 1);
        out.line(&line, "ok"); lines += 1;
    }
    if !partial {
        if !epoch_written { out.line("ct epoch", "ok"); }
        out.line("ct end", "ok");
    }
    ctx.traces += 1; ctx.trace_events += lines;
    ctx.inc(&format!("traces_fam_{fam}"), 1);
    if partial { ctx.inc("traces_partial_after_hang", 1); }
    ctx.max("max_events_per_trace", lines);
}

fn mode_trace(ctx: &mut Ctx, out: &mut Out, r: &mut Rng, n: u64, no_fw: bool) {
    let t0 = Instant::now();
    for i in 0..n {
        let mut spec = gen_engine_spec(r, i, false, true);
        if no_fw && spec.fam == "fw" { spec = gen_spec_prog(r, "gen", 16); }
        let sink = Arc::new(TraceSink::new());
        let before = ctx.counters.get("sig_hits:C02:hang").copied().unwrap_or(0);
        let ro = eval_spec(ctx, &spec, Some(sink.clone()), "trace");
        verif::set_sink(None);
        if ctx.counters.get("sig_hits:C02:hang").copied().unwrap_or(0) > before {
            // an abandoned run may still emit: no further traced runs in this process; what was recorded is
            // written as a partial trace (no `ct end`) so that the model can point at the offending event
            std::thread::sleep(Duration::from_millis(100));
            let evs = sink.take();
            write_trace(ctx, out, &evs, sink.boundary.load(SeqCst), &spec.fam, true);
            ctx.inc("trace_mode_stopped_after_hang", 1); break;
        }
        if let Some(ro) = ro { let evs = sink.take(); write_trace(ctx, out, &evs, ro.boundary, &spec.fam, false); } else { ctx.inc("traces_not_written_panic", 1); }
    }
    ctx.inc("wall_ms_trace", t0.elapsed().as_millis() as u64);
}

// ------------------------------------------------------------------------------------------
// mode tset
// ------------------------------------------------------------------------------------------

fn qid(x: u32) -> QueryID { QueryID::from_parts(Compact128::from(0xC02u128), Compact128::from(x as u128)) }
fn unqid(q: &QueryID) -> u32 { q.hash_128() as u32 }
fn is_large<S: BuildHasher + Default + Clone + Send + Sync + 'static>(s: &BackwardEdgeSet<S>) -> bool { s.is_large() }
fn iter_sorted<S: BuildHasher + Default + Clone + Send + Sync + 'static>(s: &BackwardEdgeSet<S>) -> Vec<u32> { let mut v: Vec<u32> = s.iter().map(|q| unqid(&q)).collect(); v.sort(); v }
fn render_elems(v: &[u32]) -> String { if v.is_empty() { "-".into() } else { join_u32(v) } }

type FxSet = BackwardEdgeSet<fxhash::FxBuildHasher>;

fn tset_seq(ctx: &mut Ctx, out: &mut Out, r: &mut Rng, variant: &str) {
    ctx.evals += 1;
    let set = FxSet::new();
    let mut oracle: BTreeSet<u32> = BTreeSet::new();
    out.line(&format!("ts new 32 {variant}"), "ok");
    let universe = *r.pick(&[20u64, 40, 60, 80, 80, 120]);
    let n_ops = r.range(40, 260);
    let mut text = format!("tset-seq universe {universe}\n");
    let mut crossed_at: Option<u64> = None;
    // phases move the insert/remove balance so the length hovers around the threshold and crosses it
    let mut ins_w = 7u64;
    for i in 0..n_ops {
        if i % 40 == 39 { ins_w = *r.pick(&[3u64, 6, 8, 8]); }
        let t = r.below(4);
        let c = r.below(12);
        let (op, imp, exp) = if c < ins_w {
            let x = r.range(1, universe) as u32; let b = set.insert_element(qid(x)); let e = oracle.insert(x); (format!("ts ins {t} {x}"), b.to_string(), e.to_string())
        } else if c < 9 {
            let x = r.range(1, universe) as u32; let b = set.remove_element(&qid(x)); let e = oracle.remove(&x); (format!("ts rem {t} {x}"), b.to_string(), e.to_string())
        } else if c < 10 {
            (format!("ts len {t}"), set.len().to_string(), oracle.len().to_string())
        } else {
            (format!("ts iter {t}"), render_elems(&iter_sorted(&set)), render_elems(&oracle.iter().copied().collect::<Vec<_>>()))
        };
        if crossed_at.is_none() && is_large(&set) { crossed_at = Some(i); }
        text.push_str(&format!("{op} -> {imp}\n"));
        out.line(&op, &imp); ctx.inc("tset_seq_ops", 1);
        if imp != exp { ctx.fail("C02:tset-seq", format!("sequential set semantics violated at op {i}: `{op}` answered {imp}, a set answers {exp}"), &text); break; }
    }
    if crossed_at.is_some() { ctx.inc("tset_seq_crossing_threshold", 1); ctx.distinct.insert(hash_text(&text)); }
    ctx.inc("tset_seqs", 1);
}

#[derive(Clone, Copy, Debug, PartialEq, Eq)]
enum TOp { Ins(u32), Rem(u32), Len, Iter }
#[derive(Clone, Debug)]
struct Rec { t: usize, op: TOp, inv: u64, ret: u64, b: bool, items: Vec<u32> }
#[derive(Clone, Debug, Default)]
struct Hist { prefill: u32, threads: Vec<Vec<TOp>> }
impl Hist {
    fn render(&self) -> String {
        let mut s = format!("tset-hist prefill {}\n", self.prefill);
        for t in &self.threads { s.push_str("thr"); for o in t { match o { TOp::Ins(x) => s.push_str(&format!(" ins {x}")), TOp::Rem(x) => s.push_str(&format!(" rem {x}")), TOp::Len => s.push_str(" len"), TOp::Iter => s.push_str(" iter") } } s.push('\n'); }
        s
    }
    fn parse(text: &str) -> Hist {
        let mut h = Hist::default();
        for line in text.lines() {
            let t: Vec<&str> = line.split_whitespace().collect(); if t.is_empty() { continue; }
            if t[0] == "tset-hist" { h.prefill = t[2].parse().unwrap(); }
            if t[0] == "thr" { let mut ops = vec![]; let mut i = 1; while i < t.len() { match t[i] { "ins" => { ops.push(TOp::Ins(t[i + 1].parse().unwrap())); i += 2; } "rem" => { ops.push(TOp::Rem(t[i + 1].parse().unwrap())); i += 2; } "len" => { ops.push(TOp::Len); i += 1; } _ => { ops.push(TOp::Iter); i += 1; } } } h.threads.push(ops); }
        }
        h.threads.truncate(8); // the worker pool has 8 threads
        h
    }
}

fn gen_hist(r: &mut Rng) -> Hist {
    let f6_window = r.chance(7, 10);
    let prefill = if f6_window { r.range(28, 32) } else { *r.pick(&[0u64, 5, 20, 33, 40]) } as u32;
    let nt = r.range(2, 8) as usize;
    let mut threads = vec![];
    for t in 0..nt {
        let n_ops = r.range(1, 12);
        let own = |j: u64| 100 + 100 * t as u32 + j as u32;
        let mut next_own = 0u64;
        let mut ops = vec![];
        for i in 0..n_ops {
            let c = r.below(100);
            let op = if (i == 0 && f6_window) || c < 45 { let x = own(next_own); next_own += 1; TOp::Ins(x) }
                else if c < 55 { TOp::Ins(own(r.below(next_own.max(1)))) }
                else if c < 63 { TOp::Ins(if r.chance(1, 2) { r.below(prefill.max(1) as u64) as u32 } else { 90 + r.below(5) as u32 }) }
                else if c < 75 { TOp::Rem(own(r.below(next_own.max(1)))) }
                else if c < 80 { TOp::Rem(if r.chance(1, 2) { r.below(prefill.max(1) as u64) as u32 } else { 90 + r.below(5) as u32 }) }
                else if c < 94 { TOp::Iter } else { TOp::Len };
            ops.push(op);
        }
        threads.push(ops);
    }
    Hist { prefill, threads }
}

/// ITERATION vs REMOVALS on the SMALL tier (seeded change "per-next() re-locking"): `prefill` <= 32 elements; the
/// upper part is never touched (present during every iteration); 1-4 remover threads each own a slice of the LOW
/// indices and remove / re-insert their elements in a tight loop (`swap_remove` moves the last element into the
/// hole; a re-insert appends: the length never exceeds `prefill`); 1-3 threads iterate repeatedly.  An iterator
/// that does not hold the vector guard for its whole life misses a never-removed element (moved into a slot it
/// has passed) or yields a re-inserted one twice.
fn gen_hist_walkrem(r: &mut Rng) -> Hist {
    let prefill = *r.pick(&[8u64, 12, 16, 20, 24, 28, 30, 31, 32, 32]) as u32;
    let n_rem = r.range(1, 4) as usize;
    let n_it = r.range(1, (8 - n_rem as u64).min(3)) as usize;
    let low = (prefill / 2).max(n_rem as u32);   // elements 0..low may be removed, low..prefill stay
    let mut threads = vec![];
    for t in 0..n_rem {
        let own: Vec<u32> = (0..low).filter(|x| *x as usize % n_rem == t).collect();
        let mut ops = vec![]; let mut out: Vec<u32> = vec![];
        for _ in 0..r.range(8, 40) {
            if !out.is_empty() && (out.len() == own.len() || r.chance(1, 2)) { let i = r.below(out.len() as u64) as usize; ops.push(TOp::Ins(out.swap_remove(i))); }
            else { let cand: Vec<u32> = own.iter().copied().filter(|x| !out.contains(x)).collect(); if cand.is_empty() { continue; } let x = *r.pick(&cand); out.push(x); ops.push(TOp::Rem(x)); }
        }
        threads.push(ops);
    }
    for _ in 0..n_it { let n = r.range(6, 30); threads.push((0..n).map(|_| if r.chance(1, 12) { TOp::Len } else { TOp::Iter }).collect()); }
    r.shuffle(&mut threads);
    Hist { prefill, threads }
}

struct HistOut { recs: Vec<Rec>, final_items: Vec<u32>, final_len: usize, large_before: bool, large_after: bool }

/// persistent worker threads for the concurrent histories (spawning per history costs more than the history)
struct HistJob { set: FxSet, ops: Vec<TOp>, t: usize, tick: Arc<AtomicU64>, start: Arc<AtomicUsize>, done: std::sync::mpsc::Sender<Vec<Rec>> }
struct HistPool { txs: Vec<std::sync::mpsc::Sender<HistJob>> }
impl HistPool {
    fn new(n: usize) -> Self {
        let mut txs = vec![];
        for _ in 0..n {
            let (tx, rx) = std::sync::mpsc::channel::<HistJob>();
            std::thread::spawn(move || {
                while let Ok(job) = rx.recv() {
                    let mut recs = Vec::with_capacity(job.ops.len());
                    job.start.fetch_sub(1, SeqCst);
                    let t0 = Instant::now();
                    while job.start.load(SeqCst) != 0 { if t0.elapsed() > Duration::from_micros(150) { std::thread::yield_now(); } else { std::hint::spin_loop(); } }
                    for op in job.ops {
                        let inv = job.tick.fetch_add(1, SeqCst);
                        let (b, items) = match op {
                            TOp::Ins(x) => (job.set.insert_element(qid(x)), vec![]),
                            TOp::Rem(x) => (job.set.remove_element(&qid(x)), vec![]),
                            TOp::Len => (true, vec![job.set.len() as u32]),
                            TOp::Iter => (true, iter_sorted(&job.set)),
                        };
                        let ret = job.tick.fetch_add(1, SeqCst);
                        recs.push(Rec { t: job.t, op, inv, ret, b, items });
                    }
                    drop(job.set);
                    let _ = job.done.send(recs);
                }
            });
            txs.push(tx);
        }
        HistPool { txs }
    }
}
static HIST_POOL: std::sync::OnceLock<Mutex<HistPool>> = std::sync::OnceLock::new();

fn run_hist(h: &Hist) -> HistOut {
    let set = FxSet::new();
    for x in 0..h.prefill { set.insert_element(qid(x)); }
    let large_before = is_large(&set);
    let tick = Arc::new(AtomicU64::new(1));
    let start = Arc::new(AtomicUsize::new(h.threads.len()));
    let pool = HIST_POOL.get_or_init(|| Mutex::new(HistPool::new(8))).lock().unwrap();
    let (dtx, drx) = std::sync::mpsc::channel();
    for (t, ops) in h.threads.iter().enumerate() {
        pool.txs[t % pool.txs.len()].send(HistJob { set: set.clone(), ops: ops.clone(), t, tick: tick.clone(), start: start.clone(), done: dtx.clone() }).unwrap();
    }
    drop(dtx);
    let mut recs = vec![];
    for _ in 0..h.threads.len() { recs.extend(drx.recv().unwrap()); }
    HistOut { recs, final_items: iter_sorted(&set), final_len: set.len(), large_before, large_after: is_large(&set) }
}

/// Sound (incomplete) linearizability oracle for a set.  Returns (kind, description); kind = "missing"
/// (an element that every linearization contains is absent / an insert of it succeeded twice) or "other".
fn judge_hist(h: &Hist, o: &HistOut) -> Option<(&'static str, String)> {
    let mut per: BTreeMap<u32, Vec<&Rec>> = BTreeMap::new();
    for r in &o.recs { match r.op { TOp::Ins(x) | TOp::Rem(x) => per.entry(x).or_default().push(r), _ => {} } }
    for x in 0..h.prefill { per.entry(x).or_default(); }
    let fin: BTreeSet<u32> = o.final_items.iter().copied().collect();
    if fin.len() != o.final_items.len() { return Some(("other", format!("final iteration yields duplicates: {:?}", o.final_items))); }
    if o.final_len != o.final_items.len() { return Some(("other", format!("quiescent len() = {} but iter() yields {} elements", o.final_len, o.final_items.len()))); }
    for (x, ops) in per.iter_mut() {
        ops.sort_by_key(|r| r.inv);
        let pre = *x < h.prefill;
        let sequential = ops.windows(2).all(|w| w[0].ret < w[1].inv);
        if sequential {
            let mut st = pre;
            for r in ops.iter() {
                match r.op {
                    TOp::Ins(_) => { let e = !st; st = true; if r.b != e { return Some((if r.b { "missing" } else { "other" }, format!("insert({x}) by thread {} returned {} but the element was {} (its operations do not overlap)", r.t, r.b, if e { "absent" } else { "present" }))); } }
                    TOp::Rem(_) => { let e = st; st = false; if r.b != e { return Some((if !r.b { "missing" } else { "other" }, format!("remove({x}) by thread {} returned {} but the element was {}", r.t, r.b, if e { "present" } else { "absent" }))); } }
                    _ => {}
                }
            }
            if fin.contains(x) != st { return Some((if st { "missing" } else { "other" }, format!("element {x} is {} after all threads joined; its (non-overlapping) operations leave it {}", if st { "absent" } else { "present" }, if st { "present" } else { "absent" }))); }
        } else if let Some(last) = ops.last() {
            if ops.iter().all(|r| std::ptr::eq(*r, *last) || r.ret < last.inv) {
                let st = matches!(last.op, TOp::Ins(_));
                if fin.contains(x) != st { return Some((if st { "missing" } else { "other" }, format!("element {x}: its last operation (after all others returned) was {:?} but at the end it is {}", last.op, if st { "absent" } else { "present" }))); }
            }
        }
        if ops.is_empty() && pre && !fin.contains(x) { return Some(("missing", format!("pre-filled element {x} was never removed but is absent at the end"))); }
    }
    for x in &fin { if !per.contains_key(x) { return Some(("other", format!("element {x} appears at the end but was never inserted"))); } }
    for it in o.recs.iter().filter(|r| r.op == TOp::Iter) {
        let got: BTreeSet<u32> = it.items.iter().copied().collect();
        if got.len() != it.items.len() { let mut d = it.items.clone(); d.sort(); let dup = d.windows(2).find(|w| w[0] == w[1]).map(|w| w[0]); return Some(("iter-dup", format!("iteration by thread {} (ticks {}..{}) yields element {dup:?} twice: {:?}", it.t, it.inv, it.ret, it.items))); }
        for (x, ops) in &per {
            let pre = *x < h.prefill;
            // establishing points: prefill (time 0) or an insert that returned before the iteration started
            let mut est: Vec<u64> = vec![]; if pre { est.push(0); }
            for r in ops.iter() { if matches!(r.op, TOp::Ins(_)) && r.ret < it.inv { est.push(r.inv); } }
            let must = est.iter().any(|e| !ops.iter().any(|r| matches!(r.op, TOp::Rem(_)) && r.ret > *e && r.inv < it.ret));
            if must && !got.contains(x) { return Some(("iter-missing", format!("iteration by thread {} (ticks {}..{}) misses element {x}, which was inserted before the iteration began and is not removed by any overlapping or later remove", it.t, it.inv, it.ret))); }
            let may = pre || ops.iter().any(|r| matches!(r.op, TOp::Ins(_)) && r.b && r.inv < it.ret);
            if !may && got.contains(x) { return Some(("other", format!("iteration by thread {} contains element {x}, which no insert invoked before the iteration returned had added", it.t))); }
        }
        for x in &got { if !per.contains_key(x) { return Some(("other", format!("iteration contains never-inserted element {x}"))); } }
    }
    None
}

fn eval_hist(ctx: &mut Ctx, h: &Hist) -> bool {
    ctx.evals += 1;
    let o = run_hist(h);
    let crossed = !o.large_before && o.large_after;
    let touches = crossed || (h.prefill >= 28 && h.prefill <= 33) || o.final_len >= 28;
    ctx.inc("tset_histories", 1);
    ctx.inc(&format!("tset_hist_threads_{}", h.threads.len()), 1);
    ctx.inc("tset_conc_ops", o.recs.len() as u64);
    if crossed { ctx.inc("tset_histories_crossing_threshold", 1); }
    let has = |f: fn(&TOp) -> bool| h.threads.iter().filter(|t| t.iter().any(f)).count();
    let iter_vs_rem = !o.large_before && !o.large_after && has(|o| matches!(o, TOp::Iter)) >= 1 && has(|o| matches!(o, TOp::Rem(_))) >= 1 && h.threads.len() >= 2;
    if iter_vs_rem { ctx.inc("tset_histories_small_iter_vs_remove", 1); ctx.inc("tset_small_iterations_beside_removers", o.recs.iter().filter(|r| r.op == TOp::Iter).count() as u64); }
    let touches = touches || (iter_vs_rem && h.prefill >= 8);
    let text = h.render();
    if h.threads.len() >= 2 && touches { ctx.distinct.insert(hash_text(&text)); if ctx.samples.len() < 3 && crossed { ctx.samples.push(text.clone()); } }
    if let Some((kind, desc)) = judge_hist(h, &o) {
        let sig = if (kind == "missing" || kind == "iter-missing") && crossed { SIG_F6 }
            else if kind == "iter-missing" { "C02:tset-iter-misses-present" } else if kind == "iter-dup" { "C02:tset-iter-duplicate" } else { "C02:tset-lin" };
        let mut d = format!("{desc} [crossed threshold during the concurrent phase: {crossed}]; records:");
        let mut recs = o.recs.clone(); recs.sort_by_key(|r| r.inv);
        for r in recs.iter().take(60) { d.push_str(&format!(" t{}:{:?}@{}..{}={}", r.t, r.op, r.inv, r.ret, if matches!(r.op, TOp::Iter | TOp::Len) { format!("{:?}", r.items) } else { r.b.to_string() })); }
        ctx.fail(sig, d, &text);
        return true;
    }
    false
}

fn mode_tset(ctx: &mut Ctx, out: &mut Out, r: &mut Rng, n_seq: u64, n_hist: u64) {
    let t0 = Instant::now();
    let fixed = match ctx.variant_fixed { Some(b) => b, None => { let b = f6_forced().present; ctx.variant_fixed = Some(b); b } };
    let variant = if fixed { "fixed" } else { "asis" };
    for _ in 0..n_seq { tset_seq(ctx, out, r, variant); }
    for i in 0..n_hist { let h = if i % 3 == 2 { gen_hist_walkrem(r) } else { gen_hist(r) }; eval_hist(ctx, &h); }
    ctx.inc("wall_ms_tset", t0.elapsed().as_millis() as u64);
}

// ------------------------------------------------------------------------------------------
// mode f6: forced schedule through the BuildHasher's Default
// ------------------------------------------------------------------------------------------

static ARMED: AtomicBool = AtomicBool::new(false);
static A_UPGRADING: AtomicBool = AtomicBool::new(false);
static B_ABOUT: AtomicBool = AtomicBool::new(false);
static GATE_SLEEP_MS: AtomicU64 = AtomicU64::new(20);

#[derive(Clone)]
struct GateHasher(fxhash::FxBuildHasher);
impl Default for GateHasher {
    fn default() -> Self {
        // the as-is upgrade calls this while A holds the outer read lock and the inner vec write lock
        if ARMED.swap(false, SeqCst) {
            A_UPGRADING.store(true, SeqCst);
            let t0 = Instant::now();
            while !B_ABOUT.load(SeqCst) && t0.elapsed() < Duration::from_secs(5) { std::thread::sleep(Duration::from_micros(50)); }
            // B announced right before calling insert_element(200): give it time to block
            std::thread::sleep(Duration::from_millis(GATE_SLEEP_MS.load(SeqCst)));
        }
        GateHasher(fxhash::FxBuildHasher::default())
    }
}
impl BuildHasher for GateHasher { type Hasher = fxhash::FxHasher; fn build_hasher(&self) -> fxhash::FxHasher { self.0.build_hasher() } }

struct F6Out { pre: Vec<bool>, a_ret: bool, b_ret: bool, items: Vec<u32>, present: bool, gate_used: bool, attempts: u32 }

fn f6_once(sleep_ms: u64) -> F6Out {
    let set: BackwardEdgeSet<GateHasher> = BackwardEdgeSet::new();
    let pre: Vec<bool> = (0..32).map(|i| set.insert_element(qid(i))).collect();
    A_UPGRADING.store(false, SeqCst); B_ABOUT.store(false, SeqCst); GATE_SLEEP_MS.store(sleep_ms, SeqCst);
    ARMED.store(true, SeqCst);
    let sa = set.clone();
    let a = std::thread::spawn(move || sa.insert_element(qid(100)));
    let sb = set.clone();
    let b = std::thread::spawn(move || {
        let t0 = Instant::now();
        while !A_UPGRADING.load(SeqCst) && t0.elapsed() < Duration::from_secs(5) { std::thread::sleep(Duration::from_micros(50)); }
        B_ABOUT.store(true, SeqCst);
        sb.insert_element(qid(200))
    });
    let a_ret = a.join().unwrap();
    let b_ret = b.join().unwrap();
    let gate_used = !ARMED.swap(false, SeqCst);
    let items = iter_sorted(&set);
    let present = items.contains(&200);
    F6Out { pre, a_ret, b_ret, items, present, gate_used, attempts: 1 }
}

/// 200 lost on the first attempt = as-is behaviour.  200 present may be a timing accident (B not yet blocked
/// when the gate opened), so it is retried with longer gate sleeps before the code is declared repaired.
fn f6_forced() -> F6Out {
    let mut last = None;
    for (i, ms) in [20u64, 80, 250].iter().enumerate() {
        let mut o = f6_once(*ms); o.attempts = i as u32 + 1;
        if !o.present { return o; }
        last = Some(o);
    }
    last.unwrap()
}

fn mode_f6(ctx: &mut Ctx, out: &mut Out) {
    ctx.evals += 1;
    let o = f6_forced();
    ctx.variant_fixed = Some(o.present);
    ctx.inc("f6_forced_runs", 1);
    ctx.inc("f6_forced_attempts", o.attempts as u64);
    ctx.inc(if o.present { "f6_forced_element_present" } else { "f6_forced_element_lost" }, 1);
    if !o.gate_used { ctx.inc("f6_gate_not_reached", 1); }
    let rb = |b: bool| format!("ret {b}");
    out.line(&format!("ts new 32 {}", if o.present { "fixed" } else { "asis" }), "ok");
    for (i, b) in o.pre.iter().enumerate() { out.line(&format!("ts ins 0 {i}"), &b.to_string()); }
    out.line("ts ev 0 ins 100", "pending");
    if o.present {
        out.line("ts ev 0 upgrade", &rb(o.a_ret));
        out.line("ts ev 1 ins 200", &rb(o.b_ret));
    } else {
        out.line("ts ev 1 ins 200", &rb(o.b_ret));
        out.line("ts ev 0 publish", &rb(o.a_ret));
    }
    out.line("ts iter 0", &render_elems(&o.items));
    ctx.distinct.insert(hash_text("f6-forced-schedule"));
    if !o.present {
        ctx.fail(SIG_F6, format!("forced schedule on the real CompressedBackwardEdgeSet: 32 elements; thread A insert_element(100) drains the small vector and (inside DashSet::with_hasher(S::default())) waits for thread B, which holds the outer read lock and is blocked on the inner lock with insert_element(200); A releases both locks, B pushes 200 into the drained vector and returns {}, A publishes the large set: final content {:?} — 200 is lost although its insert returned true", o.b_ret, o.items), "f6-forced-schedule\n");
    }
}

// ------------------------------------------------------------------------------------------
// replay
// ------------------------------------------------------------------------------------------

fn replay(ctx: &mut Ctx, out: &mut Out, text: &str) {
    let first = text.lines().next().unwrap_or("").trim().to_string();
    if first.starts_with("f6-forced-schedule") { mode_f6(ctx, out); ctx.inc("replay_reproduced", if ctx.failures.is_empty() { 0 } else { 1 }); return; }
    let mut attempts = 0u64;
    if first.starts_with("tset-hist") {
        let h = Hist::parse(text);
        for _ in 0..200 { attempts += 1; if eval_hist(ctx, &h) { break; } }
    } else if first.starts_with("conc-me") {
        let spec = MSpec::parse(text);
        for _ in 0..200 { attempts += 1; eval_mspec(ctx, &spec, "replay"); if !ctx.failures.is_empty() { break; } }
    } else if first.starts_with("conc") {
        let spec = Spec::parse(text);
        for _ in 0..200 { attempts += 1; eval_spec(ctx, &spec, None, "replay"); if !ctx.failures.is_empty() { break; } }
    } else { ctx.inc("replay_unknown_case_format", 1); }
    ctx.inc("replay_attempts", attempts);
    ctx.inc("replay_reproduced", if ctx.failures.is_empty() { 0 } else { 1 });
}

// ------------------------------------------------------------------------------------------

fn main() {
    std::panic::set_hook(Box::new(|_| {}));
    let a = args();
    let flag = |name: &str| a.rest.iter().position(|x| x == name).map(|i| a.rest.get(i + 1).cloned().unwrap_or_default());
    let mode = flag("--mode").unwrap_or("all".into());
    let no_fw = a.rest.iter().any(|x| x == "--no-fw-trace");
    let thorough = a.tier == "thorough";
    let mut out = Out::new(&a.out);
    let mut ctx = Ctx::default();
    let mut rng = Rng::new(a.seed);
    let t0 = Instant::now();
    // sizes: --n = number of engine runs; the other modes scale with it
    let n = a.n.unwrap_or(if thorough { 1500 } else { 150 });
    let n_engine = flag("--n-engine").and_then(|x| x.parse().ok()).unwrap_or(n);
    let n_trace = flag("--n-trace").and_then(|x| x.parse().ok()).unwrap_or((n / 2).max(1));
    let n_seq = flag("--n-seq").and_then(|x| x.parse().ok()).unwrap_or((n / 2).max(1));
    let n_hist = flag("--n-hist").and_then(|x| x.parse().ok()).unwrap_or(n * 8);
    let n_walk = flag("--n-walk").and_then(|x| x.parse().ok()).unwrap_or(if thorough { 1500 } else { 140 });
    let walk_reps = if thorough { 15 } else { 3 };
    let keep_going = a.rest.iter().any(|x| x == "--walk-keep-going");
    let n_me = flag("--n-me").and_then(|x| x.parse().ok()).unwrap_or(if thorough { 2500 } else { 250 });
    if let Some(ms) = flag("--wall-limit-ms").and_then(|x| x.parse().ok()) { WALL_LIMIT_MS.store(ms, SeqCst); }
    if a.rest.iter().any(|x| x == "--state") { STATE.store(true, SeqCst); }
    if let Some(rp) = &a.replay {
        let text = std::fs::read_to_string(rp).unwrap();
        replay(&mut ctx, &mut out, &text);
    } else {
        match mode.as_str() {
            "f6" => mode_f6(&mut ctx, &mut out),
            "tset" => mode_tset(&mut ctx, &mut out, &mut rng, n_seq, n_hist),
            "trace" => mode_trace(&mut ctx, &mut out, &mut rng, n_trace, no_fw),
            "engine" => mode_engine(&mut ctx, &mut rng, n_engine, thorough),
            "walk" => mode_walk(&mut ctx, &mut rng, n_walk, walk_reps, keep_going),
            "mepoch" => mode_mepoch(&mut ctx, &mut rng, n_me),
            _ => {
                mode_f6(&mut ctx, &mut out);
                // own generator state: the other modes' cases do not depend on how many walk cases are run
                mode_walk(&mut ctx, &mut Rng::new(a.seed ^ 0xF60), n_walk, walk_reps, keep_going);
                mode_mepoch(&mut ctx, &mut Rng::new(a.seed ^ 0xE70C), n_me);
                mode_tset(&mut ctx, &mut out, &mut rng, n_seq, n_hist);
                mode_trace(&mut ctx, &mut out, &mut rng, n_trace, no_fw);
                mode_engine(&mut ctx, &mut rng, n_engine, thorough);
            }
        }
    }
    ctx.inc("wall_ms_total", t0.elapsed().as_millis() as u64);
    let mut dist: Vec<String> = vec![];
    for (k, v) in &ctx.counters { dist.push(format!("{}:{v}", jstr(k))); }
    for (k, v) in &ctx.maxes { dist.push(format!("{}:{v}", jstr(k))); }
    dist.push(format!("\"mode\":{}", jstr(&mode)));
    dist.push(format!("\"tset_variant\":{}", jstr(match ctx.variant_fixed { Some(true) => "fixed", Some(false) => "asis", None => "n/a" })));
    let rule = "engine/trace runs: program families gen (gen_program, normal+input nodes), fw (with firewalls/projections; overlap/hang/panic verdicts only), fanin (1 input, optional chain, 1..200 callers of one callee, biased 28..40 around the 32-element tier threshold; sequential prefix then concurrent rest), wide (layered, up to 600/3000 keys, unordered groups up to 40 keys, aggregator roots), fandrop (mode walk, finding F60: 1-3 groups of a firewall — or a projection / normal node over it — with 16..40 callers of which 1-8 drop and 0-2 add their edge after the edit, requested through fresh roots or directly, one task each, on 0 = current_thread / 1 / 2 / 3 / 4 / 8 workers; corpus/C02-F60 first; non-trivial = fan-in >= 16, the edit changes a caller's value, >= 2 tasks in the second epoch) ; mepoch (mode mepoch): histories of eng::gen_layered (50 %) / gen_pjswitch (20 %) / gen_program+gen_history with unordered groups (30 %), 4-9 sessions, every round issued as one task per requested key plus 0-3 tasks on random non-input keys, 1/2/4/8 workers, every round of every epoch judged (values, executed-twice per epoch, overlap, watchdog); non-trivial = >= 3 sessions and a round with >= 2 tasks; the two-epoch families: x 2..16 tokio workers x round 1 (M tasks with overlapping roots) / one input edit / round 2 (all keys); non-trivial = at least 2 round-1 tasks request a common non-input key (as a root or through the dependencies of their roots) and the edit changes the from-scratch value of some round-1 root; tset sequences: non-trivial = crosses the threshold; tset histories: every third one is `walkrem` (small tier, prefill 8..32, 1-4 remover threads removing/re-inserting LOW-index elements in a loop, 1-3 threads iterating 6-30 times, the upper half never touched: an iteration must contain every element present during its whole interval, once); non-trivial = at least 2 threads and the history starts within 28..33 elements, ends at >= 28, crosses the threshold, or iterates beside removers on the small tier; distinct by hash of the case text";
    let mut rep = String::from("{");
    rep.push_str(&format!("\"evaluations\":{},\"distinct_nontrivial\":{},", ctx.evals, ctx.distinct.len()));
    rep.push_str(&format!("\"rule\":{},", jstr(rule)));
    rep.push_str(&format!("\"samples\":[{}],", ctx.samples.iter().map(|s| jstr(s)).collect::<Vec<_>>().join(",")));
    rep.push_str(&format!("\"distribution\":{{{}}},", dist.join(",")));
    rep.push_str(&format!("\"traces\":{},\"trace_events\":{},", ctx.traces, ctx.trace_events));
    rep.push_str(&format!("\"oracle_failures\":[{}]", ctx.failures.iter().map(|f| format!("{{\"sig\":{},\"desc\":{},\"case\":{}}}", jstr(&f.sig), jstr(&f.desc), jstr(&f.case))).collect::<Vec<_>>().join(",")));
    rep.push('}');
    if STATE.load(SeqCst) { std::fs::write(format!("{}/inv_ops.txt", a.out), INV_LINES.lock().unwrap().join("\n") + "\n").unwrap(); }
    out.finish(&rep);
}
