//! C06 fresh-evaluation harness: single-epoch evaluation of cyclic programs on the real engine
//! (in-memory storage engine, current-thread runtime) under EVERY order of the requested roots.
//!
//! Programs: every digraph on 3 keys (self-loops included; 512 of them, split over the shards), random
//! digraphs on 4–6 keys, and random expression programs with conditional reads (`eng::gen_program` with
//! cycles).  For each program a set of ≤ 4 roots is chosen and the program is run once per permutation of
//! the roots on a fresh engine; each run is one case of ops.txt/impl.txt (same line protocol as
//! `engine --mode cyclic`, so the Lean drivers `drv_engine cyc` and `drv_engine` answer the same lines).
//!
//! Oracle (independent of the Lean models): (a) every returned value equals the depth-first from-scratch
//! cycle semantics (`eng::Scratch`) evaluated in the same root order; (b) all permutations agree key by key
//! (the property's "all choices of the queried roots"); (c) no run panics or hangs (watchdog).
use std::{collections::{BTreeMap, BTreeSet}, sync::Arc};

use qbice::{Config, Engine, Identifiable, serialize::Plugin, stable_hash::{SeededStableHasherBuilder, Sip128Hasher},
    storage::storage_engine::in_memory::{InMemoryStorageEngine, InMemoryStorageEngineFactory}};
use qbice_verif_harness::{eng::*, *};

#[derive(Debug, Clone, Copy, PartialEq, Eq, PartialOrd, Ord, Hash, Default, Identifiable)]
pub struct MemCfg;
impl Config for MemCfg {
    type StorageEngine = InMemoryStorageEngine;
    type BuildStableHasher = SeededStableHasherBuilder<Sip128Hasher>;
    type BuildHasher = fxhash::FxBuildHasher;
}

/// outputs of the ops that completed, and what stopped the case (panic / hang) if anything did
fn run_case(case: &Case) -> (Vec<OpOut>, Option<String>) {
    let partial: Arc<std::sync::Mutex<Vec<OpOut>>> = Default::default();
    let p2 = partial.clone();
    let case2 = case.clone();
    let (tx, rx) = std::sync::mpsc::channel();
    let _ = std::thread::Builder::new().stack_size(64 << 20).spawn(move || {
        let rt = tokio::runtime::Builder::new_current_thread().enable_all().build().unwrap();
        let c3 = case2.clone();
        let r = std::panic::catch_unwind(std::panic::AssertUnwindSafe(|| {
            rt.block_on(async move {
                let sh = Arc::new(Shared::default());
                *sh.program.write().unwrap() = c3.program.clone();
                let mut engine = Engine::<MemCfg>::new_with(Plugin::default(), InMemoryStorageEngineFactory, SeededStableHasherBuilder::new(0)).await.unwrap();
                register_all(&mut engine, &sh);
                let engine = Arc::new(engine);
                for op in &c3.ops {
                    match tokio::time::timeout(std::time::Duration::from_secs(3), run_op(&engine, &sh, op)).await {
                        Ok(o) => p2.lock().unwrap().push(o),
                        Err(_) => return Err(format!("hang at op {}", op.render())),
                    }
                }
                Ok(())
            })
        }));
        drop(rt);
        let _ = tx.send(match r { Ok(x) => x, Err(_) => Err("panic".to_string()) });
    });
    let r = match rx.recv_timeout(std::time::Duration::from_secs(8)) { Ok(r) => r, Err(_) => Err("hang (watchdog)".to_string()) };
    let outs = partial.lock().unwrap().clone();
    match r { Ok(()) => (outs, None), Err(m) => (outs, Some(m)) }
}

/// node k reads its successors in ascending order and adds a constant
fn digraph_program(n: u32, edges: &BTreeSet<(u32, u32)>, kinds: &[Kind]) -> Program {
    let mut nodes = vec![NodeDef { kind: Kind::Input, default: 0, expr: Expr::Const(0) }];
    for k in 0..n {
        let mut e = Expr::Add(Box::new(Expr::Const(10 * (k as i64 + 1))), Box::new(Expr::Read(0)));
        for (a, b) in edges { if *a == k { e = Expr::Add(Box::new(e), Box::new(Expr::Read(*b + 1))); } }
        let kind = kinds[k as usize];
        nodes.push(NodeDef { kind, default: kind_default(kind), expr: e });
    }
    Program { nodes }
}

fn permutations(xs: &[u32]) -> Vec<Vec<u32>> {
    if xs.len() <= 1 { return vec![xs.to_vec()]; }
    let mut out = vec![];
    for i in 0..xs.len() {
        let mut rest = xs.to_vec(); let x = rest.remove(i);
        for mut p in permutations(&rest) { p.insert(0, x); out.push(p); }
    }
    out
}

struct Failure { sig: String, desc: String, case: String }

fn main() {
    std::panic::set_hook(Box::new(|_| {}));
    let a = args();
    let shard: u64 = a.rest.iter().position(|x| x == "--shard").map(|i| a.rest[i + 1].parse().unwrap()).unwrap_or(0);
    let shards: u64 = a.rest.iter().position(|x| x == "--shards").map(|i| a.rest[i + 1].parse().unwrap()).unwrap_or(1);
    let n_random = a.n.unwrap_or(if a.tier == "quick" { 150 } else { 3000 });
    let mut out = Out::new(&a.out);
    let mut rng = Rng::new(a.seed);
    // (program, inputs, roots)
    let mut programs: Vec<(Program, Vec<(u32, i64)>, Vec<u32>, &'static str)> = vec![];
    if let Some(rp) = &a.replay {
        let c = Case::parse(&std::fs::read_to_string(rp).unwrap());
        let mut inputs = vec![]; let mut roots = vec![];
        for op in &c.ops { match op { Op::Session(ws) => for w in ws { if let Write::Set(k, v) = w { inputs.push((*k, *v)); } }, Op::Round(ks) => for k in ks { if !roots.contains(k) { roots.push(*k); } } } }
        roots.truncate(4);
        programs.push((c.program, inputs, roots, "replay"));
    } else {
        // every digraph on 3 keys (bit i*3+j = edge i -> j), split over the shards
        for g in 0..512u64 {
            if g % shards != shard { continue; }
            let mut edges = BTreeSet::new();
            for i in 0..3u32 { for j in 0..3u32 { if g >> (i * 3 + j) & 1 == 1 { edges.insert((i, j)); } } }
            let kinds = [Kind::Normal, if g % 5 == 0 { Kind::Firewall } else { Kind::Normal }, Kind::Normal];
            programs.push((digraph_program(3, &edges, &kinds), vec![(0, 1)], vec![1, 2, 3], "digraph3"));
        }
        for i in 0..n_random {
            if i % 2 == 0 {
                let n = rng.range(4, 6) as u32;
                let mut edges = BTreeSet::new();
                let m = rng.range(n as u64, 2 * n as u64 + 2);
                for _ in 0..m { edges.insert((rng.below(n as u64) as u32, rng.below(n as u64) as u32)); }
                let kinds: Vec<Kind> = (0..n).map(|_| if rng.chance(1, 6) { Kind::Firewall } else { Kind::Normal }).collect();
                let mut roots: Vec<u32> = (1..=n).collect(); rng.shuffle(&mut roots); roots.truncate(rng.range(2, 4) as usize);
                programs.push((digraph_program(n, &edges, &kinds), vec![(0, rng.below(3) as i64)], roots, "digraph4-6"));
            } else {
                let cfg = GenCfg { max_keys: if i % 4 == 1 { 6 } else { 10 }, max_ops: 2, firewalls: true, externals: false, unordered: false, cycles: true };
                let p = gen_program(&mut rng, &cfg);
                let inputs: Vec<(u32, i64)> = (0..p.nodes.len() as u32).filter(|k| p.kind(*k) == Kind::Input).map(|k| (k, rng.below(4) as i64)).collect();
                let n = p.nodes.len() as u32;
                let mut roots: Vec<u32> = (0..n).filter(|k| p.kind(*k) != Kind::Input).collect(); rng.shuffle(&mut roots); roots.truncate(rng.range(2, 4) as usize);
                programs.push((p, inputs, roots, "expr"));
            }
        }
    }
    let mut failures: Vec<Failure> = vec![];
    let (mut evals, mut n_programs, mut cyclic_programs, mut defaulted_keys, mut crashes) = (0u64, 0u64, 0u64, 0u64, 0u64);
    let mut by_kind: BTreeMap<&str, u64> = BTreeMap::new();
    let mut samples: Vec<String> = vec![];
    let mut exp_lines: Vec<String> = vec![];
    for (p, inputs, roots, kind) in &programs {
        n_programs += 1; *by_kind.entry(kind).or_insert(0) += 1;
        let session = Op::Session(inputs.iter().map(|(k, v)| Write::Set(*k, *v)).collect());
        let mut truth = Truth::default(); for (k, v) in inputs { truth.inputs.insert(*k, *v); }
        // per key: value seen under the first permutation that computed it
        let mut seen: BTreeMap<u32, (i64, Vec<u32>)> = BTreeMap::new();
        let mut any_member = false;
        for (pi, perm) in permutations(roots).into_iter().enumerate() {
            // either one round with all roots or one round per root (separate tracked engines, same epoch)
            let ops: Vec<Op> = if pi % 2 == 0 { vec![session.clone(), Op::Round(perm.clone())] }
                               else { std::iter::once(session.clone()).chain(perm.iter().map(|k| Op::Round(vec![*k]))).collect() };
            let case = Case { program: p.clone(), ops };
            evals += 1;
            let text = case.render();
            if samples.len() < 3 && pi == 0 && *kind != "digraph3" { samples.push(text.clone()); }
            let (outs, crash) = run_case(&case);
            let mut lines = text.lines();
            out.line(lines.next().unwrap(), "case"); exp_lines.push("case".into());
            for _ in 0..p.nodes.len() { out.line(lines.next().unwrap(), "ok"); exp_lines.push("ok".into()); }
            let mut sc = Scratch::new(p, &truth);
            let mut flat: Vec<(u32, i64)> = vec![];
            for (op, o) in case.ops.iter().zip(&outs) {
                out.line(&op.render(), &render_out(o, true));
                match op {
                    Op::Session(ws) => exp_lines.push(ws.iter().map(|_| "Fresh").collect::<Vec<_>>().join(" ")),
                    Op::Round(ks) => {
                        let mut exps = vec![];
                        for (j, k) in ks.iter().enumerate() {
                            let exp = sc.value(*k).unwrap(); exps.push(exp.to_string());
                            let got: i64 = o.vals[j].parse().unwrap_or(i64::MIN);
                            flat.push((*k, got));
                            if got != exp && failures.iter().filter(|f| f.sig == "C06:fresh-value").count() < 3 {
                                failures.push(Failure { sig: "C06:fresh-value".into(), desc: format!("roots {perm:?}: query {k} returned {got}, the from-scratch cycle semantics gives {exp}"), case: text.clone() });
                            }
                        }
                        exp_lines.push(exps.join(" "));
                    }
                }
            }
            if !sc.members.is_empty() { any_member = true; if pi == 0 { defaulted_keys += sc.members.len() as u64; } }
            if let Some(msg) = &crash {
                let k = if msg.starts_with("hang") { "hang" } else { "panic" };
                out.line(&case.ops[outs.len()].render(), &format!("crash {k}")); exp_lines.push("-".into());
                crashes += 1;
                if failures.iter().filter(|f| f.sig.starts_with("crash")).count() < 3 { failures.push(Failure { sig: format!("crash:{k}"), desc: msg.clone(), case: text.clone() }); }
            }
            for (k, v) in flat {
                match seen.get(&k) {
                    None => { seen.insert(k, (v, perm.clone())); }
                    Some((v0, p0)) if *v0 != v => {
                        if failures.iter().filter(|f| f.sig == "C06:order-dependent").count() < 3 {
                            failures.push(Failure { sig: "C06:order-dependent".into(), desc: format!("key {k} = {v0} when the roots are requested in order {p0:?} but {v} in order {perm:?}"), case: text.clone() });
                        }
                    }
                    _ => {}
                }
            }
        }
        if any_member { cyclic_programs += 1; }
    }
    let mut rep = String::from("{");
    rep.push_str(&format!("\"evaluations\":{evals},\"distinct_nontrivial\":{cyclic_programs},"));
    rep.push_str(&format!("\"rule\":{},", jstr("fresh single-epoch evaluation: every digraph on 3 keys with self-loops (512, split over the shards; key k reads its successors in ascending order), random digraphs on 4-6 keys, random expression programs with conditional reads and forward references; <= 4 roots, one engine run per permutation of the roots (alternating one round with all roots / one round per root); non-trivial = programs in which at least one key is a member of a performed cycle")));
    rep.push_str(&format!("\"samples\":[{}],", samples.iter().map(|s| jstr(s)).collect::<Vec<_>>().join(",")));
    rep.push_str(&format!("\"distribution\":{{\"programs\":{n_programs},\"programs_with_a_performed_cycle\":{cyclic_programs},\"defaulted_keys_first_order\":{defaulted_keys},\"runs_crashed\":{crashes},{}}},",
        by_kind.iter().map(|(k, v)| format!("\"programs_{k}\":{v}")).collect::<Vec<_>>().join(",")));
    rep.push_str(&format!("\"oracle_failures\":[{}]", failures.iter().map(|f| format!("{{\"sig\":{},\"desc\":{},\"case\":{}}}", jstr(&f.sig), jstr(&f.desc), jstr(&f.case))).collect::<Vec<_>>().join(",")));
    rep.push('}');
    std::fs::write(format!("{}/expect.txt", a.out), exp_lines.join("\n") + "\n").unwrap();
    out.finish(&rep);
}
